"""C04 — all views of the global parameter set agree after any sequence of edits.

Correspondence: real `skyllh.core.parameters.{Parameter, ParameterSet, ParameterModelMapper}` vs.
Model/Params.lean (Driver/C04.lean): the same edit history is applied to both, then *every* view
(names, order, masks, index arrays, bounds, initials, name->index lookups, value dictionaries,
per-model dictionaries, per-source record array) is printed canonically and compared exactly
(values are only passed through).  The driver prints the views computed from the caches as coded
and the views computed from the bare parameter list (Spec); both must agree with the implementation.
Property oracle (implementation only): an independent plain-Python table (`Ref`) replays the history;
every op outcome and every view must agree, a rejected op must leave all views unchanged, a copy must be
independent of its original.
"""
import itertools
import math

from harness.core import MachineryError, b2f, f2b

MODEL_MODULES = ['SkyllhModel.Model.Params', 'SkyllhModel.Model.ParamsHeap', 'SkyllhModel.Model.ParamsR7']

PFILE = 'skyllh/core/parameters.py'

# Python callables with an executable Lean counterpart that the c04_* theorems are about and that run(ctx) compares with the
# real callable on every run (harness/core.py: model_map_report)
MODEL_MAP = {
    'skyllh/core/parameters.py::Parameter.__init__': ['Params.Param.create'],
    'skyllh/core/parameters.py::Parameter.value': ['Params.Param.setValue', 'Params.Param.accepts', 'Params.Spec.accepts'],
    'skyllh/core/parameters.py::Parameter.__eq__': ['Params.Param.eq'],
    'skyllh/core/parameters.py::Parameter.change_fixed_value': ['Params.Param.changeFixedValue', 'Params.PSet.changeFixedRaw'],
    'skyllh/core/parameters.py::Parameter.make_fixed': ['Params.Param.makeFixed'],
    'skyllh/core/parameters.py::Parameter.make_floating': ['Params.Param.makeFloating', 'Params.Param.applyFloating'],
    'skyllh/core/parameters.py::Parameter._get_floating_settings': ['Params.Param.floatingSettings'],
    'skyllh/core/parameters.py::ParameterSet.union': ['Params.PSet.union', 'Params.PSet.unionN', 'Params.Heap.unionSets'],
    'skyllh/core/parameters.py::ParameterSet.__init__': ['Params.PSet.addAll', 'Params.Heap.ctorFrom'],
    'skyllh/core/parameters.py::ParameterSet.params': ['Params.PSet.views', 'Params.Spec.views'],
    'skyllh/core/parameters.py::ParameterSet.params_name_list': ['Params.PSet.views', 'Params.Spec.views'],
    'skyllh/core/parameters.py::ParameterSet.fixed_params': ['Params.PSet.views', 'Params.Spec.views'],
    'skyllh/core/parameters.py::ParameterSet.fixed_params_name_list': ['Params.PSet.views', 'Params.Spec.views'],
    'skyllh/core/parameters.py::ParameterSet.fixed_params_mask': ['Params.PSet.views', 'Params.Spec.views'],
    'skyllh/core/parameters.py::ParameterSet.fixed_params_idxs': ['Params.PSet.views', 'Params.Spec.views'],
    'skyllh/core/parameters.py::ParameterSet.floating_params': ['Params.PSet.views', 'Params.Spec.views'],
    'skyllh/core/parameters.py::ParameterSet.floating_params_name_list': ['Params.PSet.views', 'Params.Spec.views'],
    'skyllh/core/parameters.py::ParameterSet.floating_params_mask': ['Params.PSet.views', 'Params.Spec.views'],
    'skyllh/core/parameters.py::ParameterSet.floating_params_idxs': ['Params.PSet.views', 'Params.Spec.views'],
    'skyllh/core/parameters.py::ParameterSet.n_params': ['Params.PSet.views', 'Params.Spec.views'],
    'skyllh/core/parameters.py::ParameterSet.n_fixed_params': ['Params.PSet.views', 'Params.Spec.views'],
    'skyllh/core/parameters.py::ParameterSet.n_floating_params': ['Params.PSet.views', 'Params.Spec.views'],
    'skyllh/core/parameters.py::ParameterSet.fixed_param_values': ['Params.PSet.views', 'Params.Spec.views'],
    'skyllh/core/parameters.py::ParameterSet.floating_param_initials': ['Params.PSet.views', 'Params.Spec.views'],
    'skyllh/core/parameters.py::ParameterSet.floating_param_bounds': ['Params.PSet.views', 'Params.Spec.views'],
    'skyllh/core/parameters.py::ParameterSet.__len__': ['Params.PSet.views', 'Params.Spec.views'],
    'skyllh/core/parameters.py::ParameterSet.get_fixed_pidx': ['Params.PSet.views', 'Params.Spec.views'],
    'skyllh/core/parameters.py::ParameterSet.get_floating_pidx': ['Params.PSet.views', 'Params.Spec.views'],
    'skyllh/core/parameters.py::ParameterSet.has_fixed_param': ['Params.PSet.views', 'Params.Spec.views'],
    'skyllh/core/parameters.py::ParameterSet.has_floating_param': ['Params.PSet.views', 'Params.Spec.views'],
    'skyllh/core/parameters.py::ParameterSet.get_params_dict': ['Params.PSet.views', 'Params.Spec.views'],
    'skyllh/core/parameters.py::ParameterSet.get_floating_params_dict': ['Params.PSet.views', 'Params.Spec.views'],
    'skyllh/core/parameters.py::ParameterSet.__contains__': ['Params.PSet.hasName', 'Params.PSet.views'],
    'skyllh/core/parameters.py::ParameterSet.has_param': ['Params.PSet.hasName', 'Params.PSet.views'],
    'skyllh/core/parameters.py::ParameterSet.generate_random_floating_param_initials': ['Params.PSet.randomInitials'],
    'skyllh/core/parameters.py::ParameterSet.make_params_fixed': ['Params.PSet.makeParamsFixed', 'Params.PSet.fixF', 'Params.PSet.editAll', 'Params.PSet.rebuildLoop', 'Params.PSet.validate'],
    'skyllh/core/parameters.py::ParameterSet.make_params_floating': ['Params.PSet.makeParamsFloating', 'Params.PSet.floatF', 'Params.PSet.editAll', 'Params.PSet.rebuildLoop', 'Params.PSet.validate'],
    'skyllh/core/parameters.py::ParameterSet.update_fixed_param_value_cache': ['Params.PSet.updateFixedValueCache'],
    'skyllh/core/parameters.py::ParameterSet.copy': ['Params.Heap.copySet'],
    'skyllh/core/parameters.py::ParameterSet.add_param': ['Params.PSet.addParam', 'Params.Heap.addThrough'],
    'skyllh/core/parameters.py::ParameterModelMapper.is_global_fitparam_a_local_param': ['Params.PMM.isGlobalFitparamALocalParam', 'Params.PMM.gpidxColumn'],
    'skyllh/core/parameters.py::ParameterModelMapper.is_local_param_a_fitparam': ['Params.PMM.isLocalParamAFitparam'],
    'skyllh/core/parameters.py::ParameterModelMapper.__init__': ['Params.PMM.create'],
    'skyllh/core/parameters.py::ParameterModelMapper.n_models': ['Params.PMM.counts'],
    'skyllh/core/parameters.py::ParameterModelMapper.n_global_params': ['Params.PMM.counts'],
    'skyllh/core/parameters.py::ParameterModelMapper.n_global_fixed_params': ['Params.PMM.counts'],
    'skyllh/core/parameters.py::ParameterModelMapper.n_global_floating_params': ['Params.PMM.counts'],
    'skyllh/core/parameters.py::ParameterModelMapper.n_sources': ['Params.PMM.srcModelIdxs'],
    'skyllh/core/parameters.py::ParameterModelMapper.unique_model_param_names': ['Params.PMM.modelFieldNames'],
    'skyllh/core/parameters.py::ParameterModelMapper.unique_source_param_names': ['Params.PMM.srcFieldNames'],
    'skyllh/core/parameters.py::ParameterModelMapper.get_model_param_name': ['Params.PMM.getModelParamName'],
    'skyllh/core/parameters.py::ParameterModelMapper.get_gflp_idx': ['Params.PMM.gflpIdx'],
    'skyllh/core/parameters.py::ParameterModelMapper.get_src_model_idxs': ['Params.PMM.srcModelIdxsChecked', 'Params.PMM.srcModelIdxs', 'Params.PMM.sourcesTypeOk'],
    'skyllh/core/parameters.py::ParameterModelMapper.map_param': ['Params.PMM.mapParam', 'Params.PMM.mapParamCore', 'Params.PMM.checkAliases', 'Params.PMM.aliasColumn'],
    'skyllh/core/parameters.py::ParameterModelMapper.create_model_params_dict': ['Params.PMM.modelParamsDict', 'Params.PMM.modelParamsDictByName', 'Params.PMM.modelParamsDictInt', 'Params.PMM.rowEntries'],
    'skyllh/core/parameters.py::ParameterModelMapper.create_src_params_recarray': ['Params.PMM.srcParamsRecarrayChecked', 'Params.PMM.srcParamsRecarray', 'Params.PMM.srcParamsRecarrayNone', 'Params.PMM.srcParamsRecarrayIdx', 'Params.PMM.srcParamsRecarrayIdxInt', 'Params.PMM.rowEntries', 'Params.Spec.cell'],
    'skyllh/core/parameters.py::ParameterModelMapper.create_global_params_dict': ['Params.PSet.views', 'Params.Spec.views'],
    'skyllh/core/parameters.py::ParameterModelMapper.create_global_floating_params_dict': ['Params.PMM.globalFloatingParamsDict'],
    'skyllh/core/parameters.py::ParameterModelMapper.get_local_param_is_global_floating_param_mask': ['Params.PMM.localParamIsGlobalFloatingMask'],
}


# (class, function, argument, field of `Params.Defaults`): `None` defaults the protocol relies on (token `N` =
# argument left out); `add_param(atfront)` is the one non-None default
DEFAULT_SITES = [
    ('Parameter', '__init__', 'valmin', 'paramValminNone'), ('Parameter', '__init__', 'valmax', 'paramValmaxNone'),
    ('Parameter', '__init__', 'isfixed', 'paramIsfixedNone'), ('Parameter', 'make_fixed', 'initial', 'makeFixedInitialNone'),
    ('Parameter', 'make_floating', 'initial', 'makeFloatingInitialNone'),
    ('Parameter', 'make_floating', 'valmin', 'makeFloatingValminNone'),
    ('Parameter', 'make_floating', 'valmax', 'makeFloatingValmaxNone'),
    ('ParameterModelMapper', 'map_param', 'models', 'mapParamModelsNone'),
    ('ParameterModelMapper', 'map_param', 'model_param_names', 'mapParamNamesNone'),
    ('ParameterModelMapper', 'get_src_model_idxs', 'sources', 'srcModelIdxsSourcesNone'),
    ('ParameterModelMapper', 'create_src_params_recarray', 'sources', 'recarraySourcesNone'),
]


def generated(ctx):
    from harness import extract
    try:
        atfront = extract.arg_default(PFILE, 'ParameterSet', 'add_param', 'atfront')
        if not isinstance(atfront, bool):
            raise LookupError('default of add_param(atfront) is not a bool literal')
    except Exception as e:  # noqa
        atfront = False
        ctx.proof['generated_fallbacks'].append('add_param.atfront')
        ctx.note('extraction of ParameterSet.add_param(atfront=…) failed (%s); using recorded value False' % e)
    fields = ['addParamAtfront := %s' % ('true' if atfront else 'false')]
    for cls, fn, arg, field in DEFAULT_SITES:
        try:
            names, required, _ = extract.func_params(PFILE, cls, fn)
            if arg not in names or arg in required:
                isnone = False                       # no such argument / no default at all
            else:
                isnone = extract.arg_default(PFILE, cls, fn, arg) is None
        except Exception as e:  # noqa
            isnone = True
            ctx.proof['generated_fallbacks'].append('%s.%s.%s' % (cls, fn, arg))
            ctx.note('extraction of the default of %s.%s(%s=…) failed (%s); using recorded value None' % (cls, fn, arg, e))
        fields.append('%s := %s' % (field, 'true' if isnone else 'false'))
    return ('/- generated by harness/props/c04.py from %s — do not edit -/\n'
            'import SkyllhModel.Model.ParamsR7\n'
            'namespace Gen.C04\n'
            '/-- default of `ParameterSet.add_param(param, atfront=…)`: `ParameterSet(params)` and `union` add with it -/\n'
            'def addParamAtfrontDefault : Bool := %s\n'
            '/-- defaults of the public signatures (`…None := true`: the default of that argument is `None`) -/\n'
            'def defaults : Params.Defaults :=\n  { %s }\n'
            'end Gen.C04\n') % (PFILE, 'true' if atfront else 'false', ',\n    '.join(fields))


# ------------------------------------------------------------------------------------------
# encoding helpers (same format as Driver/C04.lean)

def fo(x):
    return 'N' if x is None else f2b(x)


def fob(x):
    return 'N' if x is None else ('1' if x else '0')


def sl(xs, sep=','):
    xs = [str(x) for x in xs]
    return sep.join(xs) if xs else '-'


def fdict(d):
    return sl(sorted('%s=%s' % (k, f2b(v)) for k, v in d.items()))


def canon_dict_payload(s):
    """dict semantics for a `k=v,k=v` payload printed by the model: last assignment wins, order-free."""
    if s == '-' or s.startswith('ERR:') or s.startswith('EXC:'):
        return s
    d = {}
    for kv in s.split(','):
        k, v = kv.split('=')
        d[k] = v
    return sl(sorted('%s=%s' % kv for kv in d.items()))


def canon_tab_payload(s):
    if s == '-' or s.startswith('ERR:') or s.startswith('EXC:'):
        return s
    rows = []
    for r in s.split(';'):
        parts = r.split('/')
        cells = []
        for c in parts[1:]:
            name, v = c.split('=')
            if v != 'NA':
                bits, gp = v.split(':')
                if bits != 'nan' and math.isnan(b2f(bits)):
                    v = 'nan:' + gp
            cells.append(name + '=' + v)
        rows.append('/'.join([parts[0]] + sorted(cells)))
    return ';'.join(rows)


def canon_model_views(d):
    out = {}
    for k, v in d.items():
        if k in ('pd', 'fd', 'gd', 'gfd') or k.startswith('md'):
            v = canon_dict_payload(v)
        elif k in ('tab', 'tabspec', 'tabnone', 'tabidx', 'tabidxs'):
            v = canon_tab_payload(v)
        elif k in ('fitloc', 'mfields'):
            v = sl(sorted(v.split(','))) if v != '-' else v
        elif k.startswith('mdn_'):
            v = canon_dict_payload(v)
        elif k == 'fields':
            v = sl(sorted(v.split(','))) if v != '-' else v
        out[k] = v
    return out


def parse_views(s):
    return canon_model_views(dict(t.split(':', 1) for t in s.split(' ')))


def op_line(op):
    k = op[0]
    if k == 'add':
        _, name, ini, lo, hi, fx, front = op
        return 'add %s %s %s %s %s %s' % (name, f2b(ini), fo(lo), fo(hi), fob(fx), '1' if front else '0')
    if k == 'fix':
        return 'fix ' + sl('%s=%s' % (n, 'U' if isinstance(v, str) else fo(v)) for n, v in op[1].items())
    if k == 'float':
        ents = []

        def fv(x):
            return 'U' if isinstance(x, str) else fo(x)
        for n, e in op[1].items():
            if e is None:
                t = (None, None, None)
            elif isinstance(e, (list, tuple)):
                t = tuple(e)[:3]                 # fewer than 3 items: the model's `short` entry
            else:
                t = (e, None, None)
            ents.append('%s=%s' % (n, '/'.join(fv(x) for x in t) if t else 'short'))
        return 'float ' + sl(ents)
    if k == 'setv':
        return 'setv %s %s' % (op[1], f2b(op[2]))
    if k == 'union':
        return 'union %s %s' % ('1' if op[1] else '0',
                                sl(('%s/%s/%s/%s/%s' % (a[0], f2b(a[1]), fo(a[2]), fo(a[3]), fob(a[4])) for a in op[2]), ';'))
    if k == 'unionN':
        sets = [(sl(('%s/%s/%s/%s/%s' % (a[0], f2b(a[1]), fo(a[2]), fo(a[3]), fob(a[4])) for a in o), ';') if o else '_')
                for o in op[2]]
        return 'unionN %d %s' % (op[1], '+'.join(sets) if sets else '-')
    if k in ('chfix', 'chfixraw'):
        return '%s %s %s' % (k, op[1], f2b(op[2]))
    if k == 'badargs':
        return 'badargs'
    if k == 'updcache':
        return 'updcache'
    if k == 'copy':
        return 'copy'
    if k == 'map':
        _, name, ini, lo, hi, fx, models, alias = op
        ms = 'N' if models is None else sl(models)
        if alias is None:
            al = 'N'
        elif isinstance(alias, str):
            al = 'S/' + alias
        else:
            al = '/'.join(['L'] + list(alias))
        return 'map %s %s %s %s %s %s %s' % (name, f2b(ini), fo(lo), fo(hi), fob(fx), ms, al)
    raise ValueError(k)


def sel_tok(sel):
    return 'N' if sel is None else sl(sel)


# ------------------------------------------------------------------------------------------
# independent reference: a plain table of parameters (+ alias table)

class RefErr(Exception):
    def __init__(self, cls):
        Exception.__init__(self, cls)
        self.cls = cls


def ref_param(a):
    name, ini, lo, hi, fx = a
    if fx is None:
        fx = not (lo is not None and hi is not None)
    if not fx:
        if lo is None:
            raise RefErr('TypeError')
        if ini < lo:
            raise RefErr('ValueError')
        if hi is None:
            raise RefErr('TypeError')
        if ini > hi:
            raise RefErr('ValueError')
    return dict(name=name, ini=ini, fx=bool(fx), lo=lo, hi=hi, val=ini)


class Ref:
    """The specification: a list of parameter rows; every view is computed from it on demand;
    every operation either applies completely or raises and changes nothing."""

    def __init__(self, models=None):
        self.P = []
        self.models = models            # list of [name, is_source] or None for a bare parameter set
        self.alias = [[] for _ in (models or [])]

    def clone(self):
        r = Ref(self.models)
        r.P = [dict(p) for p in self.P]
        r.alias = [list(row) for row in self.alias]
        return r

    def names(self):
        return [p['name'] for p in self.P]

    # -- operations
    def add(self, a, front):
        p = ref_param(a)
        if p['name'] in self.names():
            raise RefErr('KeyError')
        if front:
            self.P.insert(0, p)
        else:
            self.P.append(p)

    def fix(self, req):
        for p in self.P:
            if p['name'] in req:
                if p['fx']:
                    raise RefErr('ValueError')
                if isinstance(req[p['name']], str):          # not castable to float
                    raise RefErr('TypeError')
        for p in self.P:
            if p['name'] in req:
                v = req[p['name']]
                p['fx'] = True
                if v is None:
                    p['ini'] = p['val']
                else:
                    p['ini'] = p['val'] = v
                    if p['lo'] is not None and p['hi'] is not None and (v < p['lo'] or v > p['hi']):
                        p['lo'] = p['hi'] = None

    def float(self, req):
        new = {}
        for p in self.P:
            if p['name'] in req:
                if not p['fx']:
                    raise RefErr('ValueError')
                e = req[p['name']]
                if e is None:
                    e = (None, None, None)
                elif not isinstance(e, (list, tuple)):
                    e = (e, None, None)
                if len(e) < 3 or any(isinstance(x, str) for x in e[:3]):
                    raise RefErr('TypeError')                # malformed entry: rejected (class incidental)
                e = tuple(e[:3])                             # extra items are ignored by the code
                ini = p['val'] if e[0] is None else e[0]
                lo = p['lo'] if e[1] is None else e[1]
                hi = p['hi'] if e[2] is None else e[2]
                if lo is None or hi is None or ini < lo or ini > hi:
                    raise RefErr('ValueError')
                new[p['name']] = (ini, lo, hi)
        for p in self.P:
            if p['name'] in new:
                (p['ini'], p['lo'], p['hi']) = new[p['name']]
                p['val'] = p['ini']
                p['fx'] = False

    def setv(self, n, v):
        for p in self.P:
            if p['name'] == n:
                if p['fx']:
                    if v != p['ini']:
                        raise RefErr('ValueError')
                else:
                    if v < p['lo'] or v > p['hi']:
                        raise RefErr('ValueError')
                p['val'] = v
                return
        raise RefErr('KeyError')

    def union(self, left, other):
        o = Ref()
        for a in other:
            o.add(a, False)
        (first, second) = (self.P, o.P) if left else (o.P, self.P)
        res = [dict(p) for p in first]
        for p in second:
            if p['name'] not in [q['name'] for q in res]:
                res.append(dict(p))
        self.P = res

    def map(self, a, models, alias):
        p = ref_param(a)
        n = len(self.models)
        if alias is None:
            names = [p['name']] * n
        elif isinstance(alias, str):
            names = [alias] * n
        else:
            names = list(alias)
        if (n == 0) if models is None else (len(models) == 0):
            raise RefErr('ValueError')
        mapped = [i for i in range(n) if models is None or i in models]
        for i in mapped:
            if i >= len(names):
                raise RefErr('IndexError')
            if names[i] in [x for x in self.alias[i] if x is not None]:
                raise RefErr('KeyError')
        if len(names) != n:
            if len(names) == 1:
                names = names * n
            else:
                raise RefErr('ValueError')
        if p['name'] in self.names():
            raise RefErr('KeyError')
        self.P.append(p)
        for i in range(n):
            self.alias[i].append(names[i] if i in mapped else None)

    def apply(self, op):
        k = op[0]
        if k == 'add':
            self.add(op[1:6], op[6])
        elif k == 'fix':
            self.fix(op[1])
        elif k == 'float':
            self.float(op[1])
        elif k == 'setv':
            self.setv(op[1], op[2])
        elif k == 'union':
            self.union(op[1], op[2])
        elif k == 'unionN':
            self.union_n(op[1], op[2])
        elif k in ('chfix', 'chfixraw'):
            self.chfix(op[1], op[2])
        elif k in ('copy', 'updcache', 'view'):
            pass
        elif k == 'badargs':
            raise RefErr('TypeError')
        elif k == 'map':
            self.map(op[1:6], op[6], op[7])
        else:
            raise ValueError(k)

    def union_n(self, pos, others):
        lists = []
        for o in others:
            r = Ref()
            for a in o:
                r.add(a, False)
            lists.append(r.P)
        lists.insert(pos, self.P)
        res = [dict(p) for p in lists[0]]
        for l in lists[1:]:
            for p in l:
                if p['name'] not in [q['name'] for q in res]:
                    res.append(dict(p))
        self.P = res

    def chfix(self, n, v):
        for p in self.P:
            if p['name'] == n:
                if not p['fx']:
                    raise RefErr('ValueError')
                p['ini'] = p['val'] = v
                return
        raise RefErr('KeyError')

    # -- views
    def n_floating(self):
        return sum(1 for p in self.P if not p['fx'])

    def ps_views(self, q, g):
        P = self.P
        fx = [p for p in P if p['fx']]
        fl = [p for p in P if not p['fx']]
        fxn = [p['name'] for p in fx]
        fln = [p['name'] for p in fl]
        pd = dict(zip(fln, g))
        fd = dict(pd)
        pd.update((p['name'], p['val']) for p in fx)
        return {
            'params': sl(('%s/%s/%s/%s/%s/%s' % (p['name'], f2b(p['ini']), fob(p['fx']), fo(p['lo']), fo(p['hi']), f2b(p['val']))
                          for p in P), ';'),
            'names': sl(fxn + fln), 'fxn': sl(fxn), 'fln': sl(fln),
            'fxm': sl(fob(p['fx']) for p in P), 'flm': sl(fob(not p['fx']) for p in P),
            'fxi': sl(i for i, p in enumerate(P) if p['fx']), 'fli': sl(i for i, p in enumerate(P) if not p['fx']),
            'n': '%d/%d/%d' % (len(P), len(fx), len(fl)),
            'fxv': sl(f2b(p['val']) for p in fx),
            'fxp': sl(fxn), 'flp': sl(fln),
            'ini': sl(f2b(p['ini']) for p in fl),
            'bnd': sl('%s/%s' % (fo(p['lo']), fo(p['hi'])) for p in fl),
            'fpidx': sl((fxn.index(n) if n in fxn else 'K') for n in q),
            'lpidx': sl((fln.index(n) if n in fln else 'K') for n in q),
            'has': sl(fob(n in fxn) + fob(n in fln) + fob(n in fxn + fln) for n in q),
            'pd': fdict(pd), 'fd': fdict(fd),
            'rini': sl(canon_num(p['lo'] + x * (p['hi'] - p['lo'])) for p, x in zip(fl, uvec(len(fl)))),
        }

    def probe(self, xs):
        out = []
        for p in self.P:
            if p['fx']:
                r = ''.join('A' if x == p['val'] else 'R' for x in xs)
            else:
                r = ''.join('A' if p['lo'] <= x <= p['hi'] else 'R' for x in xs)
            out.append('%s=%s' % (p['name'], r))
        return sl(out)

    def peq(self, others):
        """`p == q` and `q == p` (Parameter.__eq__ as documented in its comments: name, value, isfixed; for floating
        parameters also initial and both bounds) for every parameter of the table and every constructible `q`"""
        qs = []
        for a in others:
            try:
                qs.append(ref_param(a))
            except RefErr:
                pass

        def eq(p, q):
            if p['name'] != q['name'] or p['val'] != q['val'] or p['fx'] != q['fx']:
                return False
            if not p['fx']:
                return p['ini'] == q['ini'] and p['lo'] == q['lo'] and p['hi'] == q['hi']
            return True
        return sl('%s=%s' % (p['name'], ''.join(fob(eq(p, q)) + fob(eq(q, p)) for q in qs) or '_') for p in self.P)

    def pmm_views3(self, g, q, ii=(), pairs=()):
        """the views of the driver's `pview3`"""
        flidx = [j for j, p in enumerate(self.P) if not p['fx']]
        fln = [self.P[j]['name'] for j in flidx]
        n, m = len(self.models), len(self.P)
        src = [i for i in range(n) if self.models[i][1]]
        fields = sorted(set(a for i in src for a in self.alias[i] if a is not None))
        val, k = [], 0
        for j, p in enumerate(self.P):
            if p['fx']:
                val.append((p['val'], -(j + 1)))
            else:
                val.append((g[k], k + 1))
                k += 1

        def wrap(i, length):
            return i if 0 <= i < length else (i + length if -length <= i < 0 else None)
        if any(wrap(i, n) is None for i in ii) or any(
                a is not None and a not in fields for i in ii for a in self.alias[wrap(i, n)]):
            tab = 'ERR'
        else:
            rows = []
            for i in ii:
                cells = []
                for f in fields:
                    js = [j for j, a in enumerate(self.alias[wrap(i, n)]) if a == f]
                    cells.append('%s=%s' % (f, 'NA' if not js else '%s:%d' % (f2b(val[js[0]][0]), val[js[0]][1])))
                rows.append('/'.join([str(i)] + cells))
            tab = sl(rows, ';')

        def mpn(i, j):
            wi, wj = wrap(i, n), wrap(j, m)
            if wi is None or wj is None:
                return 'E'
            a = self.alias[wi][wj]
            return 'N' if a is None else a
        return {
            'tabidxs': tab,
            'sgnmd': sl('%d=%s' % (i, 'E' if not (0 <= i < n) else ('d' if any(a is not None for a in self.alias[i]) else 'e'))
                        for i in ii),
            'mpnw': sl('%d/%d=%s' % (i, j, mpn(i, j)) for i, j in pairs),
            'counts': '%d/%d/%d/%d' % (len(self.models), len(self.P), len(self.P) - len(flidx), len(flidx)),
            'gflp': sl('%s=%s' % (n, fln.index(n) if n in fln else 'K') for n in q),
            'gfd': fdict(dict((self.P[j]['name'], g[k]) for k, j in enumerate(flidx))),
        }

    def pmm_views2(self, g, names, idxs):
        """the views of the driver's `pview2` (all with sources=None unless stated)"""
        n = len(self.models)
        nfl = len(g)
        src = [i for i in range(n) if self.models[i][1]]
        fields = sorted(set(a for i in src for a in self.alias[i] if a is not None))
        flidx = [j for j, p in enumerate(self.P) if not p['fx']]

        def bits(bs):
            return ''.join(fob(b) for b in bs) or '-'

        def cellstr(i, f, nanfill):
            js = [j for j, a in enumerate(self.alias[i]) if a == f]
            if not js:
                return '%s=NA' % f
            j = js[0]
            if self.P[j]['fx']:
                return '%s=%s:%d' % (f, f2b(self.P[j]['val']), -(j + 1))
            k = flidx.index(j)
            return '%s=%s:%d' % (f, 'nan' if nanfill else f2b(g[k]), k + 1)

        def rows(ms, nanfill=False):
            return sl(('/'.join([str(i)] + [cellstr(i, f, nanfill) for f in fields]) for i in ms), ';')
        out = {
            'mfields': sl(sorted(set(a for row in self.alias for a in row if a is not None))),
            'fitloc': sl('%s=%s/%s' % (f, bits(any(self.alias[i][flidx[k]] == f for i in src) for k in range(nfl)),
                                       fob(any(self.alias[i][j] == f for i in src for j in flidx))) for f in fields),
            'fitall': bits(any(self.alias[i][flidx[k]] is not None for i in src) for k in range(nfl)),
            'fpzz': 'ERR',
            'lpfl': sl('%s=%s' % (a, fob(any(self.alias[i][j] == a for i in range(n) for j in flidx))) for a in names),
            'tabnone': rows(src, nanfill=True),
            'wshort': ('R' + 'R') if nfl else '-',
            'wlong': 'R' + ('R' if (n == 0 or nfl) else 'A'),     # numpy accepts any vector for an empty boolean mask
        }
        if any(i >= n for i in idxs) or any(a is not None and a not in fields for i in idxs for a in self.alias[i]):
            out['tabidx'] = 'ERR'
        else:
            out['tabidx'] = rows(idxs)
        val, k = [], 0
        for j, p in enumerate(self.P):
            if p['fx']:
                val.append(p['val'])
            else:
                val.append(g[k])
                k += 1
        seen = set()
        for i in range(n):
            nm = self.models[i][0]
            if nm in seen:
                continue
            seen.add(nm)
            out['mdn_' + nm] = fdict(dict((a, val[j]) for j, a in enumerate(self.alias[i]) if a is not None))
        out['mdn_zz'] = 'ERR'
        return out

    def pmm_views(self, g, sel):
        n = len(self.models)
        src = [i for i in range(n) if self.models[i][1]]
        chosen = src if sel is None else [i for i in src if i in sel]
        fields = sorted(set(a for i in src for a in self.alias[i] if a is not None))
        # value and gpidx entry of every global parameter (fixed: -(global index + 1))
        val, k = [], 0
        for j, p in enumerate(self.P):
            if p['fx']:
                val.append((p['val'], -(j + 1)))
            else:
                val.append((g[k], k + 1))          # floating: index of the fit parameter + 1
                k += 1
        out = {
            'src': sl(src), 'sel': sl(chosen), 'fields': sl(fields),
            'mpn': sl((sl(('N' if a is None else a) for a in row) for row in self.alias), ';'),
            'gd': fdict(dict((p['name'], val[j][0]) for j, p in enumerate(self.P))),
        }
        rows = []
        if sel is not None and any(i < n and not self.models[i][1] for i in sel):
            # a model that is no SourceModel in `sources`: TypeError (get_src_model_idxs and the record array)
            out['sel'] = 'ERR'
            chosen = None
        for i in (chosen or []):
            cells = []
            for f in fields:
                js = [j for j, a in enumerate(self.alias[i]) if a == f]
                cells.append('%s=%s' % (f, 'NA' if not js else '%s:%d' % (f2b(val[js[0]][0]), val[js[0]][1])))
            rows.append('/'.join([str(i)] + cells))
        out['tab'] = 'ERR' if chosen is None else sl(rows, ';')
        for i in range(n):
            out['md%d' % i] = fdict(dict((a, val[j][0]) for j, a in enumerate(self.alias[i]) if a is not None))
        if sel is None:
            nfl = len(g)
            flidx = [j for j, p in enumerate(self.P) if not p['fx']]
            out['o:counts'] = '%d/%d/%d/%d' % (n, len(self.P), len(self.P) - nfl, nfl)
            out['o:gflp'] = sl('%s=%d' % (self.P[j]['name'], k) for k, j in enumerate(flidx))
            out['o:fd'] = fdict(dict((self.P[j]['name'], g[k]) for k, j in enumerate(flidx)))
        return out


# ------------------------------------------------------------------------------------------
# the implementation side

def _exc(e):
    return 'EXC:' + type(e).__name__


def _try(fn):
    try:
        return fn()
    except Exception as e:  # noqa
        return _exc(e)


def impl_param(a):
    from skyllh.core.parameters import Parameter
    return Parameter(a[0], a[1], valmin=a[2], valmax=a[3], isfixed=a[4])


def _fnan(x):
    x = float(x)
    return 'N' if math.isnan(x) else f2b(x)


def _quiet(fn):
    import numpy as np
    with np.errstate(all='ignore'):
        return fn()


def impl_ps_views(ps, q, g, f=None):
    import numpy as np
    from skyllh.core.parameters import Parameter
    f = f or _FormsAt(None, False)
    g = f.vector(g)

    def pidx(getter, n):
        try:
            return int(getter(n))
        except KeyError:
            return 'K'

    def has(n):
        a = fob(ps.has_fixed_param(n))
        b = fob(ps.has_floating_param(n))
        c = bool(ps.has_param(Parameter(n, 0.)))
        try:
            c2 = bool(n in ps)
        except Exception as e:  # noqa
            return a + b + 'X' + type(e).__name__
        return a + b + (fob(c) if c == c2 else 'X')

    v = {
        'params': lambda: sl(('%s/%s/%s/%s/%s/%s' % (p.name, f2b(p.initial), fob(p.isfixed), fo(p.valmin), fo(p.valmax), f2b(p.value))
                              for p in ps.params), ';'),
        'names': lambda: sl(ps.params_name_list),
        'fxn': lambda: sl(ps.fixed_params_name_list),
        'fln': lambda: sl(ps.floating_params_name_list),
        'fxm': lambda: sl(fob(b) for b in ps.fixed_params_mask),
        'flm': lambda: sl(fob(b) for b in ps.floating_params_mask),
        'fxi': lambda: sl(int(i) for i in ps.fixed_params_idxs),
        'fli': lambda: sl(int(i) for i in ps.floating_params_idxs),
        'n': lambda: '%d/%d/%d' % (ps.n_params if ps.n_params == len(ps) else -1, ps.n_fixed_params, ps.n_floating_params),
        'fxv': lambda: sl(f2b(x) for x in ps.fixed_param_values),
        'fxp': lambda: sl(p.name for p in ps.fixed_params),
        'flp': lambda: sl(p.name for p in ps.floating_params),
        'ini': lambda: sl(f2b(x) for x in ps.floating_param_initials),
        'bnd': lambda: sl('%s/%s' % (_fnan(lo), _fnan(hi)) for lo, hi in ps.floating_param_bounds),
        'fpidx': lambda: sl(pidx(ps.get_fixed_pidx, n) for n in q),
        'lpidx': lambda: sl(pidx(ps.get_floating_pidx, n) for n in q),
        'has': lambda: sl(has(n) for n in q),
        'pd': lambda: fdict(ps.get_params_dict(g)),
        'fd': lambda: fdict(ps.get_floating_params_dict(g)),
        'rini': lambda: sl(canon_num(x) for x in _quiet(lambda: ps.generate_random_floating_param_initials(_StubRSS(uvec(ps.n_floating_params))))),
    }
    return {k: _try(f) for k, f in v.items()}


def impl_pmm_views(pmm, mobjs, foreign, g, sel, fm=None):
    import numpy as np
    fm = fm or _FormsAt(None, False)
    glist = list(g)
    g = fm.vector(glist)
    n = len(mobjs)

    def sources():
        # `sources`: None | a SourceModel | a sequence of SourceModel
        return None if sel is None else fm.one_or_seq([mobjs[i] if i < n else foreign(i) for i in sel])

    def tab():
        return fmt_rec(pmm.create_src_params_recarray(fm.vector(glist, allow_scalar=True), **fm.kw(sources=sources())))

    def md(i):
        # by index here; by name and by object: impl_pmm_views2 (mdn_<name>)
        d = pmm.create_model_params_dict(fm.vector(glist, allow_scalar=True), model=(np.int64(i) if fm.enabled and i % 2 else i))
        return fdict(d)

    def src():
        idxs = [int(i) for i in pmm.get_src_model_idxs()]
        if pmm.n_sources != len(idxs):
            return sl(idxs) + '!n_sources=%d' % pmm.n_sources
        return sl(idxs)

    v = {
        'src': src,
        'sel': lambda: sl(int(i) for i in pmm.get_src_model_idxs(**fm.kw(sources=sources()))),
        'fields': lambda: sl(sorted(str(x) for x in pmm.unique_source_param_names)),
        'mpn': lambda: sl((sl(('N' if pmm.get_model_param_name(i, j) is None else pmm.get_model_param_name(i, j))
                              for j in range(pmm.n_global_params)) for i in range(n)), ';'),
        'tab': tab,
        'gd': lambda: fdict(pmm.create_global_params_dict(g)),
    }
    for i in range(n):
        v['md%d' % i] = (lambda i=i: md(i))
    if sel is None:
        v['o:counts'] = lambda: '%d/%d/%d/%d' % (pmm.n_models, pmm.n_global_params, pmm.n_global_fixed_params,
                                                 pmm.n_global_floating_params)
        v['o:gflp'] = lambda: sl('%s=%d' % (nm, pmm.get_gflp_idx(nm)) for nm in pmm.global_paramset.floating_params_name_list)
        v['o:fd'] = lambda: fdict(pmm.create_global_floating_params_dict(g))
    return {k: _try(f) for k, f in v.items()}


def fmt_rec(rec):
    fields = sorted(f for f in rec.dtype.names if f != ':model_idx' and not f.endswith(':gpidx'))
    rows = []
    for r in rec:
        cells = []
        for f in fields:
            gp = int(r[f + ':gpidx'])
            x = float(r[f])
            cells.append('%s=%s' % (f, 'NA' if (gp == 0 and math.isnan(x)) else '%s:%d' % ('nan' if math.isnan(x) else f2b(x), gp)))
        rows.append('/'.join([str(int(r[':model_idx']))] + cells))
    return sl(rows, ';')


def impl_pmm_views2(pmm, mobjs, g, names, idxs, fm=None):
    import numpy as np
    from skyllh.core.parameters import ParameterModelMapper as PMMc
    fm = fm or _FormsAt(None, False)
    glist = [float(x) for x in g]
    g = fm.vector(glist)
    nfl, n = len(glist), len(mobjs)

    def bits(bs):
        return ''.join(fob(b) for b in bs) or '-'

    def recf():
        rec = pmm.create_src_params_recarray(g)
        return rec, sorted(f for f in rec.dtype.names if f != ':model_idx' and not f.endswith(':gpidx'))

    def fitloc():
        rec, fields = recf()
        return sl('%s=%s/%s' % (f, bits(PMMc.is_global_fitparam_a_local_param(k, rec, [f]) for k in range(nfl)),
                                fob(PMMc.is_local_param_a_fitparam(f, rec))) for f in fields)

    def fitall():
        rec, fields = recf()
        return bits(PMMc.is_global_fitparam_a_local_param(k, rec, ['zz'] + fields) for k in range(nfl))

    def wrong(gg):
        out = ''
        for fn in (lambda: pmm.create_src_params_recarray(gg), lambda: pmm.create_model_params_dict(gg, model=0)):
            try:
                fn()
                out += 'A'
            except Exception:  # noqa
                out += 'R'
        return out

    def mdn(i):
        d = pmm.create_model_params_dict(g, model=mobjs[i].name)
        d2 = pmm.create_model_params_dict(g, model=mobjs[i])
        return fdict(d) + ('' if fdict(d2) == fdict(d) else '!by-object-differs')
    v = {
        'mfields': lambda: sl(sorted(str(x) for x in pmm.unique_model_param_names)),
        'fitloc': fitloc, 'fitall': fitall,
        'fpzz': lambda: fob(PMMc.is_local_param_a_fitparam('zz', recf()[0])),
        'lpfl': lambda: sl('%s=%s' % (a, fob(b)) for a, b in zip(names, pmm.get_local_param_is_global_floating_param_mask(fm.seq(names, allow_array=True)))),
        'tabnone': lambda: fmt_rec(pmm.create_src_params_recarray(None)),
        'wshort': lambda: wrong(fm.vector(glist[:-1])) if nfl else '-',
        'wlong': lambda: wrong(fm.vector(glist + [9.0])),
        'tabidx': lambda: fmt_rec(pmm.create_src_params_recarray(g, sources=np.array(idxs, dtype=np.int32))),
        'mdn_zz': lambda: fdict(pmm.create_model_params_dict(g, model='zz')),
    }
    seen = set()
    for i in range(n):
        if mobjs[i].name not in seen:
            seen.add(mobjs[i].name)
            v['mdn_' + mobjs[i].name] = (lambda i=i: mdn(i))
    return {k: _try(f) for k, f in v.items()}


def impl_pmm_views3(pmm, g, q, fm=None, ii=(), pairs=()):
    import numpy as np
    fm = fm or _FormsAt(None, False)
    glist = [float(x) for x in g]

    def fmt_rec_signed(rec):
        out = fmt_rec(rec)
        return out

    def sgnmd(i):
        try:
            d = pmm.create_model_params_dict(fm.vector(glist), model=(np.int64(i) if fm.enabled and i % 2 else i))
            return 'd' if len(d) else 'e'
        except Exception:  # noqa
            return 'E'

    def mpn(i, j):
        try:
            a = pmm.get_model_param_name(i, j)
            return 'N' if a is None else str(a)
        except Exception:  # noqa
            return 'E'

    def gflp(n):
        try:
            return int(pmm.get_gflp_idx(n))
        except KeyError:
            return 'K'
    v = {
        'counts': lambda: '%d/%d/%d/%d' % (pmm.n_models, pmm.n_global_params, pmm.n_global_fixed_params,
                                           pmm.n_global_floating_params),
        'gflp': lambda: sl('%s=%s' % (n, gflp(n)) for n in q),
        'gfd': lambda: fdict(pmm.create_global_floating_params_dict(fm.vector(glist))),
        'tabidxs': lambda: fmt_rec_signed(pmm.create_src_params_recarray(fm.vector(glist), sources=np.array(list(ii), dtype=np.int32))),
        'sgnmd': lambda: sl('%d=%s' % (i, sgnmd(i)) for i in ii),
        'mpnw': lambda: sl('%d/%d=%s' % (i, j, mpn(i, j)) for i, j in pairs),
    }
    return {k: _try(f) for k, f in v.items()}


def signed_idxs(case):
    """signed int32 index array for `create_src_params_recarray(sources=…)` / `create_model_params_dict(model=<int>)`:
    numpy wraps -n..-1, the model dict has an explicit range check; one history in four asks for an index outside [-n, n)"""
    n = len(case['models'])
    h = len(repr(case['ops']))
    base = [-1, 0, -n, n - 1] if n else [-1]
    if h % 4 == 0:
        base = base + [-n - 1]
    elif h % 4 == 1 and n:
        base = [-(1 + (h // 4) % n)] + base[:2]
    return base


def signed_pairs(case):
    """(model_idx, gp_idx) pairs for get_model_param_name: in range, wrapped, outside"""
    n = len(case['models'])
    return [(-1, -1), (0, 0), (-n, -1), (n - 1, -2), (n, 0), (0, -5), (-n - 1, 0)]


def eq_others(case):
    """constructor arguments of the Parameter objects every parameter of the set is compared with (`==`, both
    directions): the arguments used in the history and variants of them built from the numbers of the history
    (current value as initial, one bound moved, fixed with / without bounds, the other kind)"""
    base = []
    for op in case['ops']:
        if op[0] in ('add', 'map'):
            base.append(list(op[1:6]))
        elif op[0] == 'union':
            base += [list(a) for a in op[2]]
        elif op[0] == 'unionN':
            base += [list(a) for o in op[2] for a in o]
    nums = {}
    for op in case['ops']:
        if op[0] in ('setv', 'chfix', 'chfixraw') and isinstance(op[2], (int, float)):
            nums.setdefault(op[1], []).append(float(op[2]))
        elif op[0] == 'fix':
            for n, x in op[1].items():
                if isinstance(x, (int, float)) and not isinstance(x, bool):
                    nums.setdefault(n, []).append(float(x))
        elif op[0] == 'float':
            for n, e in op[1].items():
                for x in (e if isinstance(e, (list, tuple)) else [e]):
                    if isinstance(x, (int, float)) and not isinstance(x, bool):
                        nums.setdefault(n, []).append(float(x))
    out = []

    def push(a):
        a = list(a)
        if a not in out and all(x is None or (isinstance(x, (int, float)) and x == x) for x in a[1:4]):
            out.append(a)
    for a in base[:4]:
        name, ini, lo, hi, fx = a
        push(a)
        xs = [x for x in nums.get(name, []) if x != ini][:2]
        for x in xs:
            push([name, x, lo, hi, fx])                 # same bounds, the later value as initial
            push([name, x, None, None, True])           # a fixed parameter of that value
        if lo is not None and hi is not None:
            push([name, ini, lo - 1.0, hi, fx])
            push([name, ini, lo, hi + 1.0, fx])
            push([name, ini, lo, hi, True])             # fixed, carrying bounds
            push([name, ini, None, None, True])
            for x in xs[:1]:
                push([name, x, min(lo, x) - 1.0, max(hi, x) + 1.0, False])
                push([name, x, min(lo, x) - 1.0, max(hi, x) + 1.0, True])
        else:
            push([name, ini, ini - 1.0, ini + 1.0, True])
            push([name, ini, ini - 1.0, ini + 1.0, False])
    return out[:14]


def impl_eq_objects(others):
    from skyllh.core.parameters import Parameter
    qs = []
    for a in others:
        try:
            qs.append(Parameter(a[0], a[1], valmin=a[2], valmax=a[3], isfixed=a[4]))
        except Exception:  # noqa
            pass
    return qs


def impl_peq(ps, others, qs=None):
    if qs is None:
        qs = impl_eq_objects(others)
    return sl('%s=%s' % (p.name, ''.join(fob(bool(p == q)) + fob(bool(q == p)) for q in qs) or '_') for p in ps.params)


def local_names(case):
    names = set()
    for op in case['ops']:
        if op[0] == 'map':
            names.add(op[1])
            if isinstance(op[7], str):
                names.add(op[7])
            elif op[7] is not None:
                names.update(op[7])
    return sorted(names) + ['zz']


def idx_array(case):
    if 'idxs' in case:
        return list(case['idxs'])
    n = len(case['models'])
    return list(range(n))[::-1] + ([0] if n else [])


BAD_VALUES = ('abc', 'seq1', 'seq2', 'arr1')


def bad_value(tag):
    """objects that are no single number (the model's `FixVal.bad` / `Op.badArgs`)"""
    import numpy as np
    return {'seq1': [1.5], 'seq2': (1.0, 2.0), 'arr1': np.array([1.5])}.get(tag, tag)


class ArgModified(Exception):
    """the implementation changed an argument object the caller handed in"""


class Forms:
    """The argument-form dimension: *how* a semantically fixed argument is handed to the code (Python float / int /
    numpy scalar / 0-d array / castable string; dict / OrderedDict / read-only mapping; list / tuple / ndarray;
    float64 / float32 / non-contiguous vector / scalar; single object instead of a one-element sequence;
    ModelCollection instead of a list).  Deterministic per (history, step, call) so that replays are exact."""

    def __init__(self, case, enabled=True):
        import hashlib
        import json
        self.key = hashlib.sha1(json.dumps([case.get('models'), case['ops']], sort_keys=True, default=str).encode()).hexdigest()
        self.enabled = enabled and case.get('forms', True)

    def at(self, *tag):
        import random
        return _FormsAt(random.Random(self.key + repr(tag)), self.enabled)


class _FormsAt:
    def __init__(self, rng, enabled):
        self.rng, self.enabled = rng, enabled

    def num(self, x):
        import numpy as np
        if isinstance(x, str):
            return bad_value(x)
        if x is None or not self.enabled:
            return x
        r = self.rng.random()
        x = float(x)
        if r < 0.5:
            return x
        if r < 0.65:
            return np.float64(x)
        if r < 0.75 and float(np.float32(x)) == x:
            return np.float32(x)             # only where float32 holds the number exactly
        if r < 0.83 and math.isfinite(x) and x.is_integer():
            return int(x)
        if r < 0.91:
            return np.array(x)               # 0-d array
        return repr(x)                       # a string float() understands, e.g. '1.5', 'inf'

    def kw(self, defaults=None, **kw):
        """glue: an argument equal to its documented default (None; `defaults` for others) is left out half of the
        time — the defaults are read from the source into Generated/C04.lean (`c04_defaults_for_current_source`)"""
        if not self.enabled:
            return kw
        defaults = defaults or {}
        out = {}
        for k, v in kw.items():
            isdef = (v is None) if k not in defaults else (type(v) is type(defaults[k]) and v == defaults[k])
            if isdef and self.rng.random() < 0.5:
                continue
            out[k] = v
        return out

    def mapping(self, d):
        import collections
        import types
        if not self.enabled:
            return dict(d)
        r = self.rng.random()
        if r < 0.6:
            return dict(d)
        if r < 0.8:
            return collections.OrderedDict(reversed(list(d.items())))
        return types.MappingProxyType(dict(d))

    def seq(self, xs, allow_array=False):
        import numpy as np
        xs = list(xs)
        if not self.enabled:
            return xs
        r = self.rng.random()
        if r < 0.5:
            return xs
        if r < 0.8 or not allow_array:
            return tuple(xs)
        return np.array(xs)

    def one_or_seq(self, xs):
        """a single object where the API accepts `obj | sequence of obj`"""
        xs = list(xs)
        if self.enabled and len(xs) == 1 and self.rng.random() < 0.4:
            return xs[0]
        return self.seq(xs)

    def vector(self, g, allow_scalar=False):
        import numpy as np
        g = [float(x) for x in g]
        if not self.enabled:
            return np.array(g, dtype=np.float64)
        r = self.rng.random()
        if allow_scalar and len(g) == 1 and r < 0.15:
            return g[0]
        if r < 0.35:
            return np.array(g, dtype=np.float64)
        if r < 0.5:
            return list(g)
        if r < 0.6:
            return tuple(g)
        if r < 0.75:
            return np.array(g, dtype=np.float32)
        if r < 0.9:
            return np.array([y for x in g for y in (x, -77.0)], dtype=np.float64)[::2]      # non-contiguous view
        return np.array(g, dtype=np.float64)[::-1][::-1]                                    # negative-stride round trip


def _snapshot(x):
    import numpy as np
    if isinstance(x, np.ndarray):
        return ('nd', x.dtype.str, x.tolist())
    if isinstance(x, (list, tuple)):
        return (type(x).__name__, [_snapshot(y) for y in x])
    if hasattr(x, 'items'):
        return (type(x).__name__, [(k, _snapshot(v)) for k, v in x.items()])
    return repr(x)


class Impl:
    """Applies a history to the real classes."""

    def __init__(self, case):
        from skyllh.core.model import Model
        from skyllh.core.parameters import ParameterModelMapper, ParameterSet
        from skyllh.core.source_model import SourceModel
        self.kind = case['kind']
        self.case_names = local_names(case) if case['kind'] == 'pmm' else []
        self.case_idxs = idx_array(case) if case['kind'] == 'pmm' else []
        self.eq_others = eq_others(case)
        self._eq_objs = None
        self.case_sidx = signed_idxs(case) if case['kind'] == 'pmm' else []
        self.case_spairs = signed_pairs(case) if case['kind'] == 'pmm' else []
        self._foreign = {}
        self.forms = Forms(case)
        self.t = 0                     # number of ops applied so far
        self._nv = {}                  # views calls per t
        self.originals = []            # (ParameterSet, q, g, views at copy time)
        if self.kind == 'pmm':
            self.mobjs = [SourceModel(name=n) if s else Model(name=n) for n, s in case['models']]
            self.pmm = ParameterModelMapper(self.mobjs)
        else:
            self.ps = ParameterSet()

    def foreign(self, i):
        from skyllh.core.source_model import SourceModel
        if i not in self._foreign:
            self._foreign[i] = SourceModel(name='foreign%d' % i)
        return self._foreign[i]

    def paramset(self):
        return self.pmm.global_paramset if self.kind == 'pmm' else self.ps

    def param(self, a, f):
        from skyllh.core.parameters import Parameter
        return Parameter(a[0], f.num(a[1]), **f.kw(valmin=f.num(a[2]), valmax=f.num(a[3]), isfixed=a[4]))

    def apply(self, op):
        f = self.forms.at('op', self.t)
        self.t += 1
        args = []                      # argument objects that must come back unchanged

        def keep(x):
            args.append((x, _snapshot(x)))
            return x
        try:
            return self._apply(op, f, keep)
        finally:
            for x, snap in args:
                if _snapshot(x) != snap:
                    raise ArgModified('%s changed its argument %r -> %r' % (op[0], snap, _snapshot(x)))

    def _apply(self, op, f, keep):
        from skyllh.core.model import ModelCollection
        from skyllh.core.parameters import Parameter, ParameterSet
        k = op[0]
        ps = self.paramset()
        if k == 'add':
            ps.add_param(self.param(op[1:6], f), **f.kw({'atfront': False}, atfront=bool(op[6])))
        elif k == 'fix':
            ps.make_params_fixed(keep(f.mapping({n: f.num(v) for n, v in op[1].items()})))
        elif k == 'float':
            def entry(e):
                if isinstance(e, (list, tuple)):
                    items = [f.num(x) for x in e]
                    return f.seq(items, allow_array=all(isinstance(x, float) for x in items))
                return f.num(e)
            ps.make_params_floating(keep(f.mapping({n: entry(e) for n, e in op[1].items()})))
        elif k == 'setv':
            for p in ps.params:
                if p.name == op[1]:
                    p.value = f.num(op[2])
                    break
            else:
                raise KeyError(op[1])
        elif k == 'union':
            other = ParameterSet(f.seq([self.param(a, f) for a in op[2]]))
            self.ps = ParameterSet.union(ps, other) if op[1] else ParameterSet.union(other, ps)
        elif k == 'unionN':
            sets = [ParameterSet(f.seq([self.param(a, f) for a in o])) for o in op[2]]
            sets.insert(op[1], ps)
            self.ps = ParameterSet.union(*sets)
        elif k in ('chfix', 'chfixraw'):
            for p in ps.params:
                if p.name == op[1]:
                    p.change_fixed_value(f.num(op[2]))
                    break
            else:
                raise KeyError(op[1])
            if k == 'chfix':
                ps.update_fixed_param_value_cache()
        elif k == 'updcache':
            ps.update_fixed_param_value_cache()
        elif k == 'badargs':
            # a Parameter whose constructor arguments are no single numbers never comes into being
            where, tag = op[1], op[2]
            args = {'ini': ('x', bad_value(tag)), 'lo': ('x', 1.0, bad_value(tag), 2.0), 'hi': ('x', 1.0, 0.0, bad_value(tag))}[where]
            p = Parameter(*args)
            if self.kind == 'pmm':
                self.pmm.map_param(p)
            else:
                ps.add_param(p)
        elif k == 'copy':
            self.ps = ps.copy()
            return ps                  # the original, to be watched
        elif k == 'map':
            n = len(self.mobjs)
            if op[6] is None:
                models = None
            else:
                objs = [self.mobjs[i] if i < n else self.foreign(i) for i in op[6]]
                r = f.rng.random()
                if f.enabled and r < 0.2 and objs:
                    models = ModelCollection(objs)
                else:
                    models = keep(f.one_or_seq(objs)) if objs else []
            if op[7] is None or isinstance(op[7], str):
                alias = op[7]
            else:
                alias = keep(f.seq(list(op[7]), allow_array=True))
            self.pmm.map_param(self.param(op[1:6], f), **f.kw(models=models, model_param_names=alias))
        else:
            raise ValueError(k)
        return None

    HELD = ('fixed_params_mask', 'floating_params_mask', 'fixed_param_values', 'fixed_params_name_list',
            'floating_params_name_list', 'params_name_list', 'fixed_params_idxs', 'floating_params_idxs')

    def tamper(self):
        """try to change every object a property of the set hands out; -> names of the objects that took a change"""
        import numpy as np
        ps = self.paramset()
        changed = []
        for name in self.HELD + ('floating_param_initials', 'floating_param_bounds', 'params'):
            try:
                obj = getattr(ps, name)
            except Exception:  # noqa
                continue
            try:
                if isinstance(obj, list):
                    obj.append('TAMPER')
                    if obj:
                        obj[0] = 'TAMPER0'
                    changed.append(name)
                elif isinstance(obj, np.ndarray) and obj.size:
                    if obj.dtype == bool:
                        obj[...] = ~obj
                    elif obj.dtype == object:
                        obj[0] = None
                    else:
                        obj[...] = obj + 1
                    changed.append(name)
            except (ValueError, TypeError):
                pass                           # read-only: fine
        return changed

    def hold(self):
        """keep objects handed out now; later they must show either what they showed now or the current state"""
        ps = self.paramset()
        self._held = getattr(self, '_held', [])[-24:]
        for name in self.HELD:
            try:
                obj = getattr(ps, name)
            except Exception:  # noqa
                continue
            self._held.append((ps, name, obj, [_snapshot(obj)]))

    def check_held(self):
        """an object handed out earlier may be a snapshot or a live view, i.e. it must show a value the property
        had at some moment since it was handed out — never a torn mixture"""
        for (ps, name, obj, hist) in getattr(self, '_held', []):
            try:
                cur = _snapshot(getattr(ps, name))
                if cur not in hist:
                    hist.append(cur)
            except Exception:  # noqa
                pass
            now = _snapshot(obj)
            if now not in hist:
                return ('an object handed out earlier by %s shows %r, a value the property never had since then (%r)' % (
                    name, now, hist))
        return None

    def views(self, q, g, sels, xs=(), light=False):
        """all views; `light`: the set-level views and the mapper views for the first selection only (used for the
        before/after comparison of a rejected op and after tampering with returned objects)"""
        nv = self._nv.get(self.t, 0)
        self._nv[self.t] = nv + 1
        f = self.forms.at('views', self.t, nv)
        out = impl_ps_views(self.paramset(), q, g, f)
        out['probe'] = _try(lambda: impl_probe(self.paramset(), xs))
        if self._eq_objs is None:
            self._eq_objs = impl_eq_objects(self.eq_others)     # compared only (`==` must not change its operands)
            self._eq_snap = [str(x) for x in self._eq_objs]
        out['peq'] = _try(lambda: impl_peq(self.paramset(), self.eq_others, self._eq_objs))
        if [str(x) for x in self._eq_objs] != self._eq_snap:
            out['peq'] = 'EXC:operand-of-==-changed'
            self._eq_objs = None
        if self.kind == 'pmm' and light:
            for k, v in impl_pmm_views(self.pmm, self.mobjs, self.foreign, g, sels[0], f).items():
                out['%s@0' % k if k in ('sel', 'tab') else k] = v
            return out
        if self.kind == 'pmm':
            for si, sel in enumerate(sels):
                for k, v in impl_pmm_views(self.pmm, self.mobjs, self.foreign, g, sel, f).items():
                    out['%s@%d' % (k, si) if k in ('sel', 'tab') else k] = v
            out.update(impl_pmm_views2(self.pmm, self.mobjs, g, self.case_names, self.case_idxs, f))
            out.update(impl_pmm_views3(self.pmm, g, q, f, self.case_sidx, self.case_spairs))
        return out


def ref_views(ref, q, g, sels, xs=(), names=(), idxs=(), others=(), sidx=(), spairs=()):
    out = ref.ps_views(q, g)
    out['probe'] = ref.probe(xs)
    out['peq'] = ref.peq(others)
    if ref.models is not None:
        for si, sel in enumerate(sels):
            for k, v in ref.pmm_views(g, sel).items():
                out['%s@%d' % (k, si) if k in ('sel', 'tab') else k] = v
        out.update(ref.pmm_views2(g, list(names), list(idxs)))
        out.update(ref.pmm_views3(g, q, list(sidx), list(spairs)))
    return out


def query_names(case):
    names = set()
    for op in case['ops']:
        if op[0] in ('add', 'map'):
            names.add(op[1])
        elif op[0] in ('fix', 'float'):
            names.update(op[1].keys())
        elif op[0] in ('setv', 'chfix', 'chfixraw'):
            names.add(op[1])
        elif op[0] == 'union':
            names.update(a[0] for a in op[2])
        elif op[0] == 'unionN':
            names.update(a[0] for o in op[2] for a in o)
    return sorted(names) + ['zz']


def probe_values(case):
    """values the setter of every Parameter object is probed with: every number that occurs in the history
    (old initials, current values, bounds, requested values) + one that never occurs"""
    vals = set()

    def num(x):
        if isinstance(x, (int, float)) and not isinstance(x, bool) and x == x:
            vals.add(float(x))
    for op in case['ops']:
        if op[0] in ('add', 'map'):
            for x in op[2:5]:
                num(x)
        elif op[0] == 'fix':
            for x in op[1].values():
                num(x)
        elif op[0] == 'float':
            for e in op[1].values():
                for x in (e if isinstance(e, (list, tuple)) else [e]):
                    num(x)
        elif op[0] in ('setv', 'chfix', 'chfixraw'):
            num(op[2])
        elif op[0] == 'unionN':
            for o in op[2]:
                for a in o:
                    for x in a[1:4]:
                        num(x)
        elif op[0] == 'union':
            for a in op[2]:
                for x in a[1:4]:
                    num(x)
    base = sorted(vals)[:10]
    near = set()
    for x in base[:5]:
        if math.isfinite(x):
            # boundary class: the float neighbours (one ulp) and a value within numpy's default `isclose` tolerance
            near.update([float(np_nextafter(x, math.inf)), float(np_nextafter(x, -math.inf)),
                         x * (1.0 + 2.0 ** -20) if x != 0.0 else 2.0 ** -30])
    return base + sorted(near - set(base)) + [123.25]


def np_nextafter(x, d):
    import numpy as np
    return np.nextafter(x, d)


def impl_probe(ps, xs):
    """'name=ARR..': would `param.value = x` be accepted (on a copy of the Parameter object)?"""
    import copy
    out = []
    for p in ps.params:
        r = ''
        q = copy.copy(p)      # one copy per Parameter: whether a value is accepted does not depend on the current value
        for x in xs:
            try:
                q.value = x
                r += 'A'
            except Exception:  # noqa
                r += 'R'
        out.append('%s=%s' % (p.name, r))
    return sl(out)


UDRAWS = [0.5, 0.25, 0.75, 0.0, 1.0, 0.125]


def uvec(nfloat):
    """the 'uniform draws' handed to generate_random_floating_param_initials through a stub random state"""
    return [UDRAWS[k % len(UDRAWS)] for k in range(nfloat)]


def canon_num(x):
    """numbers that are *computed* (lo + u*(hi-lo)) are compared after rounding to 9 decimals: a re-associated
    formula must not raise an alarm (all generated inputs are dyadic, the exact results have < 6 decimals)"""
    if x is None:
        return 'N'
    x = float(x)
    if math.isnan(x):
        return 'nan'
    if math.isinf(x):
        return 'inf' if x > 0 else '-inf'
    return repr(round(x, 9) + 0.0)


class _StubRandom:
    def __init__(self, u):
        self.u = u

    def uniform(self, low=0.0, high=1.0, size=None):
        import numpy as np
        n = size if isinstance(size, int) else (size[0] if size else 1)
        assert n == len(self.u), (n, self.u)
        return np.array(self.u, dtype=np.float64)


class _StubRSS:
    def __init__(self, u):
        self.random = _StubRandom(u)


def gvec(nfloat):
    return [1000.5 + k for k in range(nfloat)]


def selections(case):
    if case['kind'] != 'pmm':
        return [None]
    return [None] + [list(s) for s in case.get('sels', [])]


_SITE = {'returned-view': 'returned-view', 'rini': 'generate_random_floating_param_initials', 'sel': 'get_src_model_idxs', 'src': 'get_src_model_idxs', 'tab': 'create_src_params_recarray',
         'gd': 'create_global_params_dict', 'fields': 'unique_source_param_names', 'mpn': 'map_param/alias-matrix',
         'pd': 'get_params_dict', 'fd': 'get_floating_params_dict', 'fpidx': 'get_fixed_pidx', 'lpidx': 'get_floating_pidx',
         'has': 'has_param', 'bnd': 'floating_param_bounds', 'ini': 'floating_param_initials', 'fxv': 'fixed_param_values',
         'names': 'params_name_list', 'fxn': 'fixed_params_name_list', 'fln': 'floating_params_name_list',
         'fxm': 'fixed_params_mask', 'flm': 'floating_params_mask', 'fxi': 'fixed_params_idxs', 'fli': 'floating_params_idxs',
         'n': 'n_params', 'fxp': 'fixed_params', 'flp': 'floating_params', 'params': 'params',
         'probe': 'Parameter.value-setter-probe', 'peq': 'Parameter.__eq__', 'counts': 'n_global_params',
         'gflp': 'get_gflp_idx', 'gfd': 'create_global_floating_params_dict',
         'tabidxs': 'create_src_params_recarray/signed-int32-index-array', 'sgnmd': 'create_model_params_dict/signed-int',
         'mpnw': 'get_model_param_name', 'fitloc': 'is_global_fitparam_a_local_param', 'fitall': 'is_global_fitparam_a_local_param', 'fpzz': 'is_local_param_a_fitparam',
         'mfields': 'unique_model_param_names', 'tabnone': 'create_src_params_recarray/gflp_values=None',
         'wshort': 'wrong-length-vector', 'wlong': 'wrong-length-vector', 'tabidx': 'create_src_params_recarray/int32-index-array',
         'lpfl': 'get_local_param_is_global_floating_param_mask',
         'o:lpfl': 'get_local_param_is_global_floating_param_mask', 'o:counts': 'n_global_params', 'o:gflp': 'get_gflp_idx',
         'o:fd': 'create_global_floating_params_dict', 'o:tab_wronglen': 'create_src_params_recarray/wrong-length-vector',
         'o:md_wronglen': 'create_model_params_dict/wrong-length-vector', 'o:tab_none': 'create_src_params_recarray/gflp_values=None'}
_OPSITE = {'view': 'views', 'badargs': 'Parameter', 'unionN': 'union', 'chfix': 'change_fixed_value', 'chfixraw': 'change_fixed_value',
           'updcache': 'update_fixed_param_value_cache', 'add': 'add_param', 'fix': 'make_params_fixed', 'float': 'make_params_floating', 'setv': 'Parameter.value',
           'union': 'union', 'copy': 'copy', 'map': 'map_param'}


def site_of(key):
    k = key.split('@')[0]
    if k.startswith('md'):
        return 'create_model_params_dict'
    return _SITE.get(k, k)


def coarse(o):
    """verdict relation for op outcomes: accepted / rejected; the exception class only where the docstrings
    promise it (KeyError for duplicates), every other class is incidental (`v < None`, numpy broadcasting,
    list index) and must not raise an alarm when a behaviour-preserving rewrite changes it."""
    if o == 'ok':
        return 'ok'
    return 'ERR:KeyError' if o.endswith('KeyError') else 'ERR:other'


def coarse_view(v):
    return 'ERR' if isinstance(v, str) and (v.startswith('EXC:') or v.startswith('ERR:')) else v


class Failure:
    def __init__(self, step, site, mode, text):
        self.step, self.site, self.mode, self.text = step, site, mode, text

    @property
    def signature(self):
        return 'C04/%s/%s' % (self.site, self.mode)


def _first_diff(a, b):
    for k in a:
        if a[k] != b.get(k):
            return k
    for k in b:
        if k not in a:
            return k
    return None


def check_history(case, ignore=frozenset(), collect=None):
    """Replay the history on the real classes and on the reference table. -> Failure | None
    (`ignore`: (site, mode) pairs already reported — look for a different failure;
    `collect`: dict that receives the op outcomes and the views of the implementation)"""
    if collect is not None:
        collect['outcomes'], collect['views'] = {}, {}
    impl = Impl(case)
    ref = Ref(case['models'] if case['kind'] == 'pmm' else None)
    q = query_names(case)
    sels = selections(case)
    xs = probe_values(case)
    view_each = case.get('view_each', True)
    ops = case['ops']
    watched = []
    prev = None
    if view_each:
        prev = impl.views(q, gvec(ref.n_floating()), sels, xs)
    for t, op in enumerate(ops):
        site = _OPSITE[op[0]]
        nfl_before = ref.n_floating()
        if not view_each and t == len(ops) - 1 and prev is None:
            prev = impl.views(q, gvec(nfl_before), sels, xs, light=True)
        try:
            ref.apply(op)
            want = 'ok'
        except RefErr as e:
            want = 'ERR:' + e.cls
        try:
            # ['view']: no edit, only a point in the schedule at which every read-only view is called (they must be pure:
            # what they return later may not depend on whether / when they were called before)
            orig = impl.apply(op) if op[0] != 'view' else None
            got = 'ok'
        except ArgModified as e:
            f = Failure(t, site, 'argument-modified', 'step %d %r: %s' % (t, op, e))
            return None if (f.site, f.mode) in ignore else f
        except Exception as e:  # noqa
            orig = None
            got = 'ERR:' + type(e).__name__
        if collect is not None and op[0] != 'view':
            collect['outcomes'][t] = got
        if coarse(got) != coarse(want):
            f = Failure(t, site, 'accepts' if got == 'ok' else ('rejects' if want == 'ok' else 'wrong-exception'),
                        'step %d %r: implementation %s, parameter table says %s' % (t, op, got, want))
            return None if (f.site, f.mode) in ignore else f
        if orig is not None:
            g0 = gvec(nfl_before)
            watched.append((orig, g0, impl_ps_views(orig, q, g0)))
        last = t == len(ops) - 1
        if ('returned-view', 'torn') not in ignore:
            msg = impl.check_held()            # after every op: records the values the properties go through
            if msg:
                return Failure(t, 'returned-view', 'torn', 'after step %d %r: %s' % (t, op, msg))
        if not (view_each or last or op[0] == 'view'):
            prev = None
        if view_each or last or op[0] == 'view':
            g = gvec(ref.n_floating())
            iv = impl.views(q, g, sels, xs)
            if collect is not None:
                collect['views'][t] = iv
            if got != 'ok' and prev is not None and (site, 'reject-leaves-state') not in ignore:
                k = _first_diff({a: coarse_view(b) for a, b in prev.items()},
                                {a: coarse_view(b) for a, b in iv.items() if a in prev})
                if k is not None:
                    return Failure(t, site, 'reject-leaves-state',
                                   'step %d %r was rejected (%s) but changed view %s (%s): %r -> %r' % (
                                       t, op, got, k, site_of(k), prev[k], iv[k]))
            rv = ref_views(ref, q, g, sels, xs, impl.case_names, impl.case_idxs, impl.eq_others, impl.case_sidx, impl.case_spairs)
            for k in rv:
                if coarse_view(iv.get(k)) == coarse_view(rv[k]):
                    continue
                mode = ('raises-' + iv[k][4:]) if str(iv.get(k, '')).startswith('EXC:') else 'wrong-result'
                if (site_of(k), mode) in ignore:
                    continue
                return Failure(t, site_of(k), mode,
                               'after step %d %r (history %r%s): view %s (%s) = %r, the parameter table gives %r' % (
                                   t, op, ops[:t], (' models %r sel %r' % (case['models'], sels)) if case['kind'] == 'pmm' else '',
                                   k, site_of(k), iv.get(k), rv[k]))
            prev = iv
            if ('returned-view', 'mutable-internal-state') not in ignore and (last or (t % 3 == 0)) and (
                    view_each or len(repr(ops)) % 3 == 0):
                # glue: whatever a property hands out may be changed by the caller without changing the set
                changed = impl.tamper()
                if changed:
                    iv2 = impl.views(q, g, sels, xs, light=True)
                    k = _first_diff({a: coarse_view(b) for a, b in iv.items() if a in iv2},
                                    {a: coarse_view(b) for a, b in iv2.items()})
                    if k is not None:
                        return Failure(t, 'returned-view', 'mutable-internal-state',
                                       'after step %d %r: changing the object returned by %s changed view %s (%s): %r -> %r' % (
                                           t, op, '/'.join(changed), k, site_of(k), iv[k], iv2[k]))
            if ('returned-view', 'torn') not in ignore:
                impl.hold()
    for (orig, g0, v0) in watched:
        v1 = impl_ps_views(orig, q, g0)
        k = _first_diff(v0, v1)
        if k is not None:
            f = Failure(len(ops) - 1, 'copy', 'not-independent',
                        'editing a copy changed view %s of the original: %r -> %r' % (k, v0[k], v1[k]))
            return None if (f.site, f.mode) in ignore else f
    return None


def shrink(case, fails):
    """greedy: truncate after the failing step, then drop single ops while `fails` stays true."""
    f = fails(case)
    if f is None:
        return case, None
    best = dict(case, ops=case['ops'][:f.step + 1])
    fb = fails(best) or f
    if fails(best) is None:
        best, fb = case, f
    changed = True
    while changed:
        changed = False
        for i in range(len(best['ops'])):
            cand = dict(best, ops=best['ops'][:i] + best['ops'][i + 1:])
            fc = fails(cand)
            if fc is not None and fc.site == fb.site and fc.mode == fb.mode:
                best, fb, changed = cand, fc, True
                break
    return best, fb


# ------------------------------------------------------------------------------------------
# model side

def model_lines(case):
    """request lines for one history and the positions of the (view, pview…) answers."""
    ref = Ref(case['models'] if case['kind'] == 'pmm' else None)   # only to size the value vector
    q = query_names(case)
    sels = selections(case)
    xs = probe_values(case)
    others = eq_others(case)
    lines, marks = [], []
    if case['kind'] == 'pmm':
        lines.append('pmm ' + sl('%s:%d' % (n, 1 if s else 0) for n, s in case['models']))
    else:
        lines.append('ps')
    marks.append(('reset', None))
    view_each = case.get('view_each', True)

    def add_views(t):
        g = sl(f2b(x) for x in gvec(ref.n_floating()))
        lines.append('view %s %s' % (sl(q), g))
        marks.append(('view', t))
        lines.append('probe %s' % sl(f2b(x) for x in xs))
        marks.append(('probe', t))
        lines.append('randini %s' % sl(f2b(x) for x in uvec(ref.n_floating())))
        marks.append(('randini', t))
        lines.append('peq %s' % sl(('%s/%s/%s/%s/%s' % (a[0], f2b(a[1]), fo(a[2]), fo(a[3]), fob(a[4])) for a in others), ';'))
        marks.append(('peq', t))
        if case['kind'] == 'pmm':
            for si, sel in enumerate(sels):
                lines.append('pview %s %s' % (g, sel_tok(sel)))
                marks.append(('pview', (t, si)))
            lines.append('pview2 %s %s %s' % (g, sl(local_names(case)), sl(idx_array(case))))
            marks.append(('pview2', t))
            lines.append('pview3 %s %s %s %s' % (g, sl(q), sl(signed_idxs(case)),
                                                 sl('%d/%d' % ij for ij in signed_pairs(case))))
            marks.append(('pview3', t))
    for t, op in enumerate(case['ops']):
        if op[0] != 'view':
            lines.append(op_line(op))
            marks.append(('op', t))
        try:
            ref.apply(op)
        except RefErr:
            pass
        if view_each or t == len(case['ops']) - 1 or op[0] == 'view':
            add_views(t)
    if not case['ops']:
        add_views(-1)
    return lines, marks


def model_result(case, marks, answers):
    """-> (outcomes per op, {step: views dict (code form)}, list of code/spec disagreements)"""
    outcomes, views, internal = {}, {}, []
    for (kind, t), a in zip(marks, answers):
        if kind == 'op':
            outcomes[t] = a
        elif kind == 'view':
            code, spec = a.split(' ## ')
            c, s = parse_views(code), parse_views(spec)
            if c != s:
                internal.append((t, _first_diff(s, c)))
            views.setdefault(t, {}).update(c)
        elif kind == 'probe':
            code, spec = a.split(' ## ')
            if code != spec:
                internal.append((t, 'probe'))
            views.setdefault(t, {})['probe'] = code
        elif kind == 'randini':
            views.setdefault(t, {})['rini'] = a if (a == '-' or a.startswith('ERR:')) else sl(
                canon_num(None if x == 'N' else b2f(x)) for x in a.split(','))
        elif kind == 'peq':
            views.setdefault(t, {})['peq'] = a
        elif kind in ('pview2', 'pview3'):
            views.setdefault(t, {}).update(parse_views(a))
        elif kind == 'pview':
            (t, si) = t
            d = parse_views(a)
            if d.get('tab') != d.get('tabspec') and not d.get('tab', '').startswith('ERR:'):
                internal.append((t, 'tab'))
            d.pop('tabspec', None)
            for k, v in d.items():
                views.setdefault(t, {})['%s@%d' % (k, si) if k in ('sel', 'tab') else k] = v
    return outcomes, views, internal


def impl_result(case):
    """-> (outcomes per op, {step: views dict})"""
    impl = Impl(case)
    ref = Ref(case['models'] if case['kind'] == 'pmm' else None)
    q = query_names(case)
    sels = selections(case)
    view_each = case.get('view_each', True)
    xs = probe_values(case)
    outcomes, views = {}, {}
    if not case['ops']:
        views[-1] = impl.views(q, [], sels, xs)
    for t, op in enumerate(case['ops']):
        try:
            ref.apply(op)
        except RefErr:
            pass
        if op[0] != 'view':
            try:
                impl.apply(op)
                outcomes[t] = 'ok'
            except Exception as e:  # noqa
                outcomes[t] = 'ERR:' + type(e).__name__
        if view_each or t == len(case['ops']) - 1 or op[0] == 'view':
            views[t] = impl.views(q, gvec(ref.n_floating()), sels, xs)
    return outcomes, views


def compare(case, mres, ires):
    """exact comparison of op outcomes and of every view. -> None | text"""
    mo, mv, internal = mres
    io, iv = ires
    if internal:
        t, k = internal[0]
        return 'model: views from the caches and from the bare list differ at step %s in %s' % (t, k)
    for t in sorted(io):
        if coarse(io[t]) != coarse(mo.get(t, '?')):
            return 'step %d %r: implementation %s, model %s' % (t, case['ops'][t], io[t], mo.get(t))
    for t in sorted(iv):
        # views the driver does not print (prefix 'o:') are judged by the reference table only
        a = {k: coarse_view(v) for k, v in iv[t].items() if not k.startswith('o:')}
        m = {k: coarse_view(v) for k, v in mv.get(t, {}).items()}
        k = _first_diff(m, a)
        if k is not None:
            return 'after step %d: view %s (%s): implementation %r, model %r' % (t, k, site_of(k), a.get(k), mv.get(t, {}).get(k))
    return None


# ------------------------------------------------------------------------------------------
# oracles

def _unjson(x):
    """replay files store non-finite floats as strings"""
    if isinstance(x, dict):
        return {k: _unjson(v) for k, v in x.items()}
    if isinstance(x, list):
        return [_unjson(v) for v in x]
    if x == 'inf':
        return float('inf')
    if x == '-inf':
        return float('-inf')
    return x


def o_history(ctx, case):
    f = check_history(_unjson(case))
    return None if f is None else f.text


def o_corr(ctx, case):
    case = _unjson(case)
    lines, marks = model_lines(case)
    ans = ctx.driver('C04', lines)
    return compare(case, model_result(case, marks, ans), impl_result(case))


def ref_from_objects(ps):
    """the parameter table read off the Parameter objects a set currently holds"""
    r = Ref()
    r.P = [dict(name=p.name, ini=p.initial, fx=bool(p.isfixed), lo=p.valmin, hi=p.valmax, val=p.value) for p in ps.params]
    return r


def o_sharing(ctx, case):
    """A Parameter object placed in two containers (operand and result of `union`, a set built from another set's
    parameters, a set and a mapper): a legal edit through one container must leave the views of the other one
    in agreement with each other (with the Parameter objects that set holds)."""
    from skyllh.core.model import Model
    from skyllh.core.parameters import Parameter, ParameterModelMapper, ParameterSet
    from skyllh.core.source_model import SourceModel
    how, edit = case['how'], case['edit']
    a = Parameter('a', 1.0, valmin=0.0, valmax=2.0)
    b = Parameter('b', 5.0)
    watched = ParameterSet([a, b])
    if how == 'union':
        other = ParameterSet([Parameter('c', 2.0, valmin=1.0, valmax=3.0)])
        edited = ParameterSet.union(watched, other)
    elif how == 'ctor':
        edited = ParameterSet(watched.params)
    elif how == 'map':
        pmm = ParameterModelMapper([Model('d'), SourceModel('s0')])
        pmm.map_param(a).map_param(b)
        edited = pmm.global_paramset
    else:
        raise ValueError(how)
    if edit == 'fix':
        edited.make_params_fixed({'a': None})
    else:
        edited.make_params_floating({'b': (1.0, 0.0, 2.0)})
    q = ['a', 'b', 'c', 'zz']
    for (ps, who) in ((edited, 'edited container'), (watched, 'other container (%s)' % how)):
        ref = ref_from_objects(ps)
        g = gvec(ref.n_floating())
        iv, rv = impl_ps_views(ps, q, g), ref.ps_views(q, g)
        for k in rv:
            if coarse_view(iv.get(k)) != coarse_view(rv[k]):
                return ('%s after make_params_%s through the other one: view %s (%s) = %r but the Parameter objects '
                        'it holds give %r (isfixed of a/b now %r)' % (
                            who, 'fixed' if edit == 'fix' else 'floating', k, site_of(k), iv.get(k), rv[k],
                            [bool(p.isfixed) for p in ps.params]))
    return None


ORACLES = {'history': o_history, 'corr': o_corr, 'sharing': o_sharing}



# ------------------------------------------------------------------------------------------
# generators

VALS = [-1.0, 0.0, 0.5, 1.0, 1.5, 2.0, 2.5, 3.0, 5.0, 7.0]
BOUNDS = [(0.0, 2.0), (1.0, 3.0), (-1.0, 5.0), (0.0, 0.0), (2.0, 2.5), (0.0, float('inf'))]
PNAMES = ['a', 'b', 'c', 'd']
# mapper histories: global names and local aliases come from overlapping pools, so that a global name
# coincides with an alias used earlier and an alias with an earlier un-aliased global name (both orders)
PMM_PNAMES = ['a', 'b', 'c', 'x', 'gamma']
ALIASES = ['x', 'y', 'gamma', 'a', 'b']


def gen_pargs(rng, name):
    r = rng.random()
    if r < 0.45:                                   # floating, valid
        lo, hi = rng.choice(BOUNDS)
        ini = rng.choice([v for v in VALS if lo <= v <= hi] or [lo])
        return [name, ini, lo, hi, rng.choice([None, None, False])]
    if r < 0.8:                                    # fixed
        if rng.random() < 0.3:
            lo, hi = rng.choice(BOUNDS)
            return [name, rng.choice(VALS), lo, hi, True]
        return [name, rng.choice(VALS), None, None, rng.choice([None, True])]
    if r < 0.88:                                   # one bound only -> fixed
        return [name, rng.choice(VALS), rng.choice([None, 0.0]), rng.choice([None, 2.0]), None]
    if r < 0.94:                                   # floating, initial outside -> rejected
        lo, hi = rng.choice(BOUNDS[:3])
        return [name, rng.choice([lo - 1.0, hi + 1.0]), lo, hi, None]
    return [name, rng.choice(VALS), None, rng.choice([None, 2.0]), False]     # floating without bounds -> TypeError


def gen_fix_req(rng, ref):
    fl = [p for p in ref.P if not p['fx']]
    fx = [p for p in ref.P if p['fx']]
    req = {}
    for _ in range(rng.choice([1, 1, 1, 2, 2, 3])):
        r = rng.random()
        if fl and r < 0.75:
            p = rng.choice(fl)
            v = rng.choice([None, None, None, p['val'], rng.choice(VALS), p['lo'], p['hi'], p['hi'] + 1.0])
            if rng.random() < 0.08:
                v = rng.choice(BAD_VALUES)                    # no single number: must be rejected atomically
            req[p['name']] = v
        elif fx and r < 0.9:
            req[rng.choice(fx)['name']] = rng.choice([None] + VALS)
        else:
            req[rng.choice(PNAMES + ['zz'])] = rng.choice([None] + VALS)
    return req


def gen_float_req(rng, ref):
    fl = [p for p in ref.P if not p['fx']]
    fx = [p for p in ref.P if p['fx']]
    req = {}
    for _ in range(rng.choice([1, 1, 1, 2, 2, 3])):
        r = rng.random()
        if fx and r < 0.75:
            p = rng.choice(fx)
            rr = rng.random()
            if rr < 0.25:
                e = None
            elif rr < 0.45:
                e = rng.choice(VALS)
            else:
                lo, hi = rng.choice(BOUNDS)
                ini = rng.choice([None, rng.choice(VALS), rng.choice([v for v in VALS if lo <= v <= hi] or [lo])])
                e = [ini, rng.choice([lo, lo, None]), rng.choice([hi, hi, None])]
            req[p['name']] = e
        elif fl and r < 0.9:
            req[rng.choice(fl)['name']] = rng.choice([None, 1.0, [1.0, 0.0, 2.0]])
        else:
            req[rng.choice(PNAMES + ['zz'])] = rng.choice([None, 1.0, [1.0, 0.0, 2.0]])
    return req


def gen_setv(rng, ref):
    if ref.P and rng.random() < 0.9:
        p = rng.choice(ref.P)
        if p['fx']:
            v = rng.choice([p['ini'], p['ini'], rng.choice(VALS), float(np_nextafter(p['ini'], math.inf)),
                            float(np_nextafter(p['ini'], -math.inf)), p['ini'] * (1.0 + 2.0 ** -20)])
        else:
            inside = [x for x in VALS if p['lo'] <= x <= p['hi'] and x != p['val']]
            if inside and rng.random() < 0.6:
                v = rng.choice(inside)                        # really moves the value
            else:
                v = rng.choice([p['lo'], p['hi'], rng.choice(VALS), p['hi'] + 1.0, p['lo'] - 0.5])
        return ['setv', p['name'], v]
    return ['setv', rng.choice(PNAMES + ['zz']), rng.choice(VALS)]


def gen_chfix(rng, ref):
    fx = [p for p in ref.P if p['fx']]
    fl = [p for p in ref.P if not p['fx']]
    r = rng.random()
    if fx and r < 0.75:
        return ['chfix', rng.choice(fx)['name'], rng.choice(VALS)]
    if fl and r < 0.92:
        return ['chfix', rng.choice(fl)['name'], rng.choice(VALS)]      # change_fixed_value of a floating parameter: rejected
    return ['chfix', rng.choice(PNAMES + ['zz']), rng.choice(VALS)]


def gen_ps_op(rng, ref):
    r = rng.random()
    names = ref.names()
    if r < 0.34 or not names:
        free = [n for n in PNAMES if n not in names]
        name = rng.choice(free) if free and rng.random() < 0.85 else rng.choice(PNAMES)
        return ['add'] + gen_pargs(rng, name) + [rng.random() < 0.4]
    if r < 0.54:
        return ['fix', gen_fix_req(rng, ref)]
    if r < 0.74:
        return ['float', gen_float_req(rng, ref)]
    if r < 0.84:
        return gen_setv(rng, ref)
    if r < 0.93:
        k = rng.choice([0, 1, 1, 2, 2, 3])
        other_names = rng.sample(PNAMES, k)
        if k and rng.random() < 0.05:
            other_names.append(other_names[0])
        if rng.random() < 0.6:
            return ['union', rng.random() < 0.6, [gen_pargs(rng, n) for n in other_names]]
        nsets = rng.choice([0, 1, 2, 2, 3])
        others = [[gen_pargs(rng, n) for n in rng.sample(PNAMES, rng.choice([0, 1, 2, 2, 3]))] for _ in range(nsets)]
        return ['unionN', rng.randrange(nsets + 1), others]
    if r < 0.96:
        return gen_chfix(rng, ref)
    if r < 0.975:
        return ['badargs', rng.choice(['ini', 'lo', 'hi']), rng.choice(BAD_VALUES[1:])]
    return ['copy']


def gen_models(rng):
    n = rng.choice([1, 2, 2, 3, 3, 3, 4, 4, 0])
    flags = [rng.random() < 0.6 for _ in range(n)]
    return [['m%d' % i, f] for i, f in enumerate(flags)]


def gen_map_op(rng, ref):
    n = len(ref.models)
    names = ref.names()
    free = [x for x in PMM_PNAMES if x not in names]
    used_aliases = sorted(set(x for row in ref.alias for x in row if x is not None))
    free_alias_named = [x for x in used_aliases if x not in names]
    if free_alias_named and rng.random() < 0.3:
        name = rng.choice(free_alias_named)                   # global name = a local name already in use
    else:
        name = rng.choice(free) if free and rng.random() < 0.9 else rng.choice(PMM_PNAMES)
    a = gen_pargs(rng, name)
    r = rng.random()
    if r < 0.25 or n == 0:
        models = None
    elif r < 0.93:
        k = rng.randrange(1, n + 1)
        models = rng.sample(range(n), k)
        if rng.random() < 0.1:
            models.append(n + rng.randrange(2))               # a model the mapper does not know
    elif r < 0.97:
        models = []
    else:
        models = [n]
    r = rng.random()
    if r < 0.3:
        alias = None
    elif r < 0.75:
        alias = rng.choice(ALIASES)
        if names and rng.random() < 0.25:
            alias = rng.choice(names)                         # alias = an earlier global name
    else:
        ln = rng.choice([n, n, n, n, 1, max(n - 1, 0), n + 1, 2])
        alias = [rng.choice(ALIASES + [name]) for _ in range(ln)]
    return ['map'] + a + [models, alias]


def gen_pmm_op(rng, ref):
    r = rng.random()
    if r < 0.45 or not ref.P:
        return gen_map_op(rng, ref)
    if r < 0.68:
        return ['fix', gen_fix_req(rng, ref)]
    if r < 0.88:
        return ['float', gen_float_req(rng, ref)]
    if r < 0.93:
        return gen_chfix(rng, ref)
    if r < 0.95:
        return ['badargs', rng.choice(['ini', 'lo', 'hi']), rng.choice(BAD_VALUES[1:])]
    return gen_setv(rng, ref)


def gen_sels(rng, models):
    n = len(models)
    src = [i for i in range(n) if models[i][1]]
    sels = []
    for _ in range(2):
        k = rng.randrange(0, len(src) + 1)
        s = rng.sample(src, k)
        if rng.random() < 0.15:
            s.append(n + 1)
        if len(src) < n and rng.random() < 0.15:
            # a model of the mapper that is no SourceModel in `sources`: TypeError
            s.insert(rng.randrange(0, len(s) + 1), rng.choice([i for i in range(n) if i not in src]))
        sels.append(s)
    return sels


MALFORMED_FLOAT = [[1.0, 0.0], [1.0, 'x', 2.0], 'abc', [None, 0.0, 2.0, 3.0], [], ['seq1', 0.0, 2.0], [1.0, 0.0, 'arr1'], 'seq2']


def gen_history(rng, kind, length, malformed=False):
    models = gen_models(rng) if kind == 'pmm' else None
    ref = Ref(models)
    ops = []
    def push(op):
        ops.append(op)
        try:
            ref.apply(op)
        except RefErr:
            pass
    while len(ops) < length:
        fl = [p for p in ref.P if not p['fx']]
        fxs = [p for p in ref.P if p['fx']]
        if fl and fxs and rng.random() < 0.12:
            # count-preserving swap: one parameter gets fixed, another one floating (same numbers of fixed / floating)
            a, b = rng.choice(fl), rng.choice(fxs)
            lo, hi = rng.choice(BOUNDS[:3])
            first = ['fix', {a['name']: rng.choice([None, a['val']])}]
            second = ['float', {b['name']: [rng.choice([v for v in VALS if lo <= v <= hi]), lo, hi]}]
            for o in ((first, second) if rng.random() < 0.5 else (second, first)):
                push(o)
            continue
        if fl and rng.random() < 0.15:
            # value setter on a floating parameter, then fix (None / explicit), setter on the now fixed
            # parameter (old initial / fixed value / other), re-float (None / explicit)
            p = rng.choice(fl)
            n, old_ini = p['name'], p['ini']
            inside = [x for x in VALS if p['lo'] <= x <= p['hi'] and x != p['val']] or [p['lo']]
            push(['setv', n, rng.choice(inside)])
            push(['fix', {n: rng.choice([None, None, rng.choice(inside)])}])
            if rng.random() < 0.6:
                push(['setv', n, rng.choice([old_ini, ref.P[ref.names().index(n)]['val'], rng.choice(VALS)])])
            if rng.random() < 0.6:
                push(['float', {n: rng.choice([None, None, [None, p['lo'], p['hi']], rng.choice(inside)])}])
            continue
        op = gen_ps_op(rng, ref) if kind == 'ps' else gen_pmm_op(rng, ref)
        if malformed and op[0] == 'float' and rng.random() < 0.6:
            k = rng.choice(sorted(op[1]))
            op[1][k] = rng.choice(MALFORMED_FLOAT)
        push(op)
    case = {'kind': kind, 'ops': ops, 'view_each': True}
    if rng.random() < 0.5:
        # a sparse schedule of the read-only calls: several edits between two calls of the views
        sched = []
        for op in ops:
            sched.append(op)
            if rng.random() < 0.3:
                sched.append(['view'])
        case['ops'] = sched
        case['view_each'] = False
    if kind == 'pmm':
        case['models'] = models
        case['sels'] = gen_sels(rng, models)
        n = len(models)
        r = rng.random()
        if r < 0.5:                              # the int32 index-array form of `sources`: any model indices
            k = rng.choice([0, 1, 2, 3, 5])
            case['idxs'] = [rng.randrange(n + (1 if rng.random() < 0.15 else 0)) for _ in range(k)] if n else []
    return case


def gen_raw_history(rng, kind, length):
    """a history in which change_fixed_value and update_fixed_param_value_cache are called separately"""
    c = gen_history(rng, kind, length)
    ref = Ref(c.get('models'))
    ops = []
    for op in c['ops']:
        ops.append(op)
        try:
            ref.apply(op)
        except RefErr:
            pass
        fx = [p for p in ref.P if p['fx']]
        r = rng.random()
        if fx and r < 0.45:
            ops.append(['chfixraw', rng.choice(fx)['name'], rng.choice(VALS)])
            if rng.random() < 0.5:
                ops.append(['updcache'])
        elif r < 0.6:
            ops.append(['updcache'])
        elif r < 0.65:
            ops.append(['chfixraw', rng.choice(PNAMES + ['zz']), rng.choice(VALS)])
    c['ops'] = ops
    c['raw'] = True
    return c


# ------------------------------------------------------------------------------------------
# worlds: several ParameterSet objects that share Parameter objects (Model/ParamsHeap.lean)

def gen_world(rng, length):
    """ops over registers of ParameterSet objects; union / ParameterSet(params=...) share the objects, copy() does not"""
    regs = [[]]                     # names per register (a guide for the generator only)
    ops = []
    for _ in range(length):
        k = rng.randrange(len(regs))
        r = rng.random()
        if r < 0.3 or not any(regs):
            free = [n for n in PNAMES if n not in regs[k]]
            name = rng.choice(free) if free and rng.random() < 0.9 else rng.choice(PNAMES)
            a = gen_pargs(rng, name)
            ops.append(['wadd', k] + a + [rng.random() < 0.3])
            try:
                ref_param(a)
                if name not in regs[k]:
                    regs[k] = ([name] + regs[k]) if ops[-1][-1] else (regs[k] + [name])
            except RefErr:
                pass
        elif r < 0.45:
            j = rng.randrange(len(regs))
            ops.append(['wunion', k, j])
            regs.append(regs[k] + [n for n in regs[j] if n not in regs[k]])
        elif r < 0.52:
            ops.append(['wctor', k])
            regs.append(list(regs[k]))
        elif r < 0.62:
            ops.append(['wcopy', k])
            regs.append(list(regs[k]))
        elif r < 0.78:
            names = regs[k] or PNAMES
            ops.append(['wfix', k, {rng.choice(names): rng.choice([None, None, rng.choice(VALS)])
                                    for _ in range(rng.choice([1, 1, 2]))}])
        elif r < 0.92:
            names = regs[k] or PNAMES
            ops.append(['wfloat', k, {rng.choice(names): rng.choice([None, [1.0, 0.0, 2.0], [None, -1.0, 5.0], rng.choice(VALS)])
                                      for _ in range(rng.choice([1, 1, 2]))}])
        else:
            names = regs[k] or PNAMES
            ops.append(['wsetv', k, rng.choice(names), rng.choice(VALS)])
    return {'kind': 'world', 'ops': ops}


def world_line(op):
    k = op[0]
    if k == 'wadd':
        return 'wadd %d %s' % (op[1], op_line(['add'] + op[2:])[4:])
    if k == 'wfix':
        return 'wfix %d %s' % (op[1], op_line(['fix', op[2]])[4:])
    if k == 'wfloat':
        return 'wfloat %d %s' % (op[1], op_line(['float', op[2]])[6:])
    if k == 'wsetv':
        return 'wsetv %d %s %s' % (op[1], op[2], f2b(op[3]))
    return ' '.join(str(x) for x in op)


_WORLD_KEYS = ('params', 'names', 'fxn', 'fln', 'fxm', 'flm', 'fxi', 'fli', 'n', 'fxv', 'fxp', 'flp', 'ini', 'bnd', 'fpidx',
               'lpidx', 'has', 'pd', 'fd')


def world_lines(case):
    q = PNAMES + ['zz']
    gs = sl(f2b(x) for x in gvec(4))
    lines, nreg = ['world'], 1
    for op in case['ops']:
        lines.append(world_line(op))
        if op[0] in ('wunion', 'wctor', 'wcopy'):
            nreg += 1                                   # upper bound (a rejected op creates none): extra wviews give ERR
        for k in range(nreg):
            lines.append('wview %d %s %s' % (k, sl(q), gs))
    return lines


def world_check(ctx, case, ans=None):
    """model (heap of Parameter objects + sets referencing them) vs. implementation: the views of *every* set object
    after every op — the stale caches of a set whose objects were edited through another set included. -> None | text"""
    from skyllh.core.parameters import ParameterSet
    q = PNAMES + ['zz']
    g = gvec(4)
    if ans is None:
        ans = ctx.driver('C04', world_lines(case))
    pos = 1
    sets = [ParameterSet()]
    nreg = 1
    forms = Forms({'ops': case['ops'], 'models': None})
    for t, op in enumerate(case['ops']):
        f = forms.at('w', t)
        try:
            k = op[1]
            if op[0] == 'wadd':
                from skyllh.core.parameters import Parameter
                a = op[2:7]
                sets[k].add_param(Parameter(a[0], f.num(a[1]), valmin=f.num(a[2]), valmax=f.num(a[3]), isfixed=a[4]), atfront=op[7])
            elif op[0] == 'wfix':
                sets[k].make_params_fixed(f.mapping({n: f.num(v) for n, v in op[2].items()}))
            elif op[0] == 'wfloat':
                sets[k].make_params_floating(f.mapping({n: (tuple(f.num(x) for x in e) if isinstance(e, list) else f.num(e))
                                                       for n, e in op[2].items()}))
            elif op[0] == 'wsetv':
                for p in sets[k].params:
                    if p.name == op[2]:
                        p.value = f.num(op[3])
                        break
                else:
                    raise KeyError(op[2])
            elif op[0] == 'wunion':
                sets.append(ParameterSet.union(sets[k], sets[op[2]]))
            elif op[0] == 'wctor':
                sets.append(ParameterSet(f.seq(list(sets[k].params))))
            elif op[0] == 'wcopy':
                sets.append(sets[k].copy())
            got = 'ok'
        except Exception as e:  # noqa
            got = 'ERR:' + type(e).__name__
        if coarse(got) != coarse(ans[pos]):
            return 'step %d %r: implementation %s, model %s' % (t, op, got, ans[pos])
        pos += 1
        if op[0] in ('wunion', 'wctor', 'wcopy'):
            nreg += 1
        for k in range(nreg):
            mv = ans[pos]
            pos += 1
            if k >= len(sets):
                if not mv.startswith('ERR'):
                    return 'step %d: the model has a register %d the implementation has not' % (t, k)
                continue
            if mv.startswith('ERR'):
                return 'step %d: the model has no register %d' % (t, k)
            m = parse_views(mv)
            iv = impl_ps_views(sets[k], q, g)
            for key in _WORLD_KEYS:
                if coarse_view(iv.get(key)) != coarse_view(m.get(key)):
                    return ('after step %d %r (history %r): view %s (%s) of set object %d: implementation %r, model %r' % (
                        t, op, case['ops'][:t], key, site_of(key), k, iv.get(key), m.get(key)))
    return None


def o_world(ctx, case):
    return world_check(ctx, _unjson(case))


# fixed alphabets for the bounded-exhaustive part (state independent)
PS_ALPHABET = [
    ['add', 'a', 1.0, 0.0, 2.0, None, False],
    ['add', 'b', 5.0, None, None, None, True],
    ['fix', {'a': 7.0, 'c': None}],
    ['float', {'b': [1.0, 0.0, 2.0], 'a': None}],
    ['union', True, [['c', 2.0, 1.0, 3.0, None], ['b', 4.0, None, None, None]]],
    ['copy'],
    # --- the rest only in the larger alphabet
    ['add', 'b', 5.0, None, None, None, False],
    ['add', 'c', 2.0, 1.0, 3.0, None, True],
    ['fix', {'a': 1.5}],
    ['float', {'b': [1.0, 0.0, 2.0]}],
    ['float', {'a': None}],
    ['fix', {'a': 'abc'}],
    ['fix', {'b': 1.0, 'a': 'seq1'}],
    ['fix', {'b': 3.0}],
    ['float', {'a': [None, 0.0, 2.0], 'b': 9.0}],
    ['setv', 'a', 0.5],
    ['union', False, [['d', 0.0, None, None, None]]],
    # move the value of a floating parameter, then fix it with the None form (initial := value), re-float it
    ['fix', {'a': None}],
    ['setv', 'c', 3.0],
    ['chfix', 'b', 6.0],
    ['setv', 'a', -1.0],
    ['setv', 'a', 5.0],
    ['setv', 'b', 5.000000000000001],       # one ulp above the fixed value of b
    ['float', {'b': [1.0, 0.0]}],
    ['float', {'b': [1.0, 'x', 2.0]}],
    ['union', True, [['c', 2.0, None, None, None], ['c', 3.0, None, None, None]]],
    ['unionN', 1, [[['c', 2.0, 1.0, 3.0, None]], [['b', 4.0, None, None, None], ['d', 0.0, None, None, None]]]],
    ['unionN', 0, []],
]
PS_REDUCED = 6

PMM_CONFIGS = [
    [['d', False], ['s0', True], ['s1', True]],
    [['s0', True], ['d', False], ['s1', True]],
    [['s0', True], ['s1', True]],
    [['d', False], ['e', False], ['s0', True], ['s1', True]],
]


def pmm_alphabet(models):
    n = len(models)
    src = [i for i in range(n) if models[i][1]]
    return [
        ['map', 'a', 2.0, 1.0, 3.0, None, list(src), 'gamma'],
        ['map', 'b', 7.0, None, None, None, None, None],
        ['fix', {'a': 2.5}],
        ['float', {'b': [1.0, 0.0, 2.0]}],
        ['map', 'c', 1.0, None, None, None, [src[-1]], 'gamma'],
        ['fix', {'b': 1.0}],
        # --- larger alphabet
        ['map', 'd', 0.5, 0.0, 2.0, None, [0, src[-1]], ['p%d' % i for i in range(n)]],
        ['map', 'c', 1.0, 0.0, 2.0, None, [src[0]], ['x', 'y']],
        ['float', {'a': None, 'c': [None, 0.0, 0.5]}],
        ['fix', {'a': 9.0, 'd': None}],
        # --- collisions between global names and local aliases (either order, same / different model):
        # global parameter called like the alias 'gamma' of 'a'/'c', mapped without alias
        ['map', 'gamma', 1.5, None, None, None, [src[-1]], None],
        ['map', 'gamma', 1.5, None, None, None, [0], None],
        # un-aliased global 'x' on model 0  vs.  parameter 'e' mapped under the alias 'x' to models 0 and src[0];
        # alias 'b' vs. the un-aliased global 'b' mapped to all models
        ['map', 'x', 0.0, None, None, None, [0], None],
        ['map', 'e', 3.0, 2.0, 5.0, None, [0, src[0]], 'x'],
        ['map', 'f', 3.0, None, None, None, [src[0]], 'b'],
        # value setter on the floating 'a', then the None forms of fix / float
        ['setv', 'a', 1.5],
        ['fix', {'a': None}],
        ['fix', {'a': 'abc'}],
        ['chfix', 'b', 6.0],
    ]


PMM_REDUCED = 5


def enum_histories(alphabet, maxlen):
    for ln in range(1, maxlen + 1):
        for seq in itertools.product(range(len(alphabet)), repeat=ln):
            yield [alphabet[i] for i in seq]


# ------------------------------------------------------------------------------------------

_REPORTED = set()

# every branch of the modelled functions (Model/Params.lean); a branch no history of a run reaches is listed in the
# evidence (`zero_hit_branches`): an un-hit branch of the model is an untied branch
EXPECTED_BRANCHES = [
    'create:fixed-by-default', 'create:floating-by-default', 'create:isfixed=True-with-bounds', 'create:isfixed=False',
    'create:reject-initial-outside', 'create:reject-floating-without-bounds', 'create:one-bound-only',
    'setValue:fixed-same', 'setValue:fixed-different(reject)', 'setValue:floating-below(reject)',
    'setValue:floating-above(reject)', 'setValue:floating-inside', 'setValue:unknown-name(reject)',
    'makeFixed:None', 'makeFixed:value-inside-bounds', 'makeFixed:value-outside(bounds dropped)',
    'fixF:unnamed', 'fixF:already-fixed(reject)', 'fixF:bad(reject)', 'fixF:name-not-in-set',
    'floatF:unnamed', 'floatF:already-floating(reject)', 'floatF:short(reject)', 'floatF:missing-bound(reject)',
    'floatF:bad-item(reject)', 'floatF:outside(reject)', 'floatF:ok-initial-None', 'floatF:ok-initial-given',
    'floatF:ok-bounds-kept', 'floatF:ok-bounds-given',
    'validate:error-at-first-parameter', 'validate:error-at-later-parameter', 'rebuildLoop:named', 'rebuildLoop:unnamed-fixed',
    'rebuildLoop:unnamed-floating',
    'addParam:duplicate(reject)', 'addParam:front-fixed', 'addParam:front-floating', 'addParam:back-fixed', 'addParam:back-floating',
    'addParam:front-fixed-shifts-existing-index', 'addParam:front-floating-shifts-existing-index',
    'union:left', 'union:right', 'union:name-present(skipped)', 'union:name-new(added)', 'union:operand-with-duplicate(reject)',
    'union:operand-ctor-error(reject)', 'unionN:self-only', 'unionN:empty-operand', 'unionN:3+sets', 'unionN:self-not-first',
    'chfix:fixed', 'chfix:floating(reject)', 'chfix:unknown-name(reject)', 'chfixraw', 'updcache:stale-cache-refreshed', 'badArgs',
    'copy',
    'mapParam:models-empty(reject)', 'mapParam:models=None', 'mapParam:subset', 'mapParam:unknown-model', 'mapParam:no-models-in-mapper',
    'mapParam:alias-none', 'mapParam:alias-one', 'mapParam:alias-per-model', 'mapParam:alias-broadcast-1', 'mapParam:alias-wrong-length',
    'mapParam:checkAliases-IndexError', 'mapParam:checkAliases-KeyError', 'mapParam:aliasColumn-ValueError',
    'mapParam:addParam-duplicate(reject)', 'mapParam:ctor-error(reject)', 'mapParam:accepted',
    'srcModelIdxs:all', 'srcModelIdxs:selection', 'srcModelIdxs:unknown-source', 'srcModelIdxs:empty-selection',
    'rowEntries:fixed-mapped', 'rowEntries:fixed-unmapped', 'rowEntries:floating-mapped', 'rowEntries:floating-unmapped',
    'rowEntries:fixed-before-floating', 'recarray:no-source-model', 'recarray:no-field',
    'wrong-length:short', 'wrong-length:long-with-floating', 'wrong-length:long-without-floating(numpy accepts)',
    'tabidx:empty', 'tabidx:repeated', 'tabidx:out-of-range(reject)', 'tabidx:alias-not-a-field(reject)', 'tabidx:accepted',
    'fitparam:floating-not-mapped-to-a-source', 'lpfl:name-of-fixed-only', 'lpfl:name-of-floating', 'mdn:model-dict-by-name',
    # round 7 (Model/ParamsR7.lean)
    'eq:name-differs', 'eq:value-differs', 'eq:isfixed-differs', 'eq:initial-differs', 'eq:valmin-differs', 'eq:valmax-differs',
    'eq:floating-equal', 'eq:fixed-equal', 'eq:fixed-equal-bounds-differ', 'createSome:ok', 'createSome:ctor-error(skipped)',
    'sourcesTypeOk:non-source-model(TypeError)', 'sourcesTypeOk:foreign-source', 'sourcesTypeOk:own-sources',
    'recarrayChecked:TypeError-after-length-check', 'gflpIdx:found', 'gflpIdx:KeyError-fixed-name', 'gflpIdx:KeyError-unknown-name',
    'normIdx:nonneg-in-range', 'normIdx:negative-wrapped', 'normIdx:below(-n)(IndexError)', 'normIdx:above(n-1)(IndexError)',
    'modelParamsDictInt:out-of-range(IndexError)', 'modelParamsDictInt:in-range', 'srcRowsIdxInt:accepted',
    'srcRowsIdxInt:index-error', 'srcRowsIdxInt:alias-not-a-field(reject)', 'getModelParamName:ok', 'getModelParamName:IndexError',
]


# branches of the model that no history can reach through the ParameterSet / mapper API (stated, not tied):
UNREACHABLE_BRANCHES = [
    "makeFixed:value-no-complete-bounds — `match p.valmin, p.valmax with | _, _ => false` needs a *floating* parameter "
    "with a missing bound; fixF calls makeFixed for floating parameters only and those have both bounds (ParamWF, "
    "c04_create_wf / c04_inv_step); reachable only by calling Parameter.make_fixed directly on a fixed parameter",
    "setValue: `valmin = none` / `valmax = none` for a floating parameter (TypeError of `v < None`) after creation — same reason; "
    "the creation-time instance is tied (create:reject-floating-without-bounds)",
    "rebuildLoop: `f p = error` inside the loop, updateFixedValueCache / maskSel IndexError, overwrite IndexError — excluded by "
    "the validation pass / Coherent (c04_reject_leaves_state, c04_update_cache_restores)",
    "neOptV: `none` operands (`None != x`, `None != None`) — reached only when *both* parameters are floating (the kind is "
    "compared first) and a floating Parameter has both bounds (ParamWF, c04_create_wf)",
]


def branch_cover(case, outcomes):
    """branches of the model a history goes through, computed from the reference table in front of every op"""
    br = set()
    kind = case['kind']
    ref = Ref(case.get('models') if kind == 'pmm' else None)

    def ctor(a, pre):
        name, ini, lo, hi, fx = a
        if fx is None:
            br.add(pre + ('floating-by-default' if (lo is not None and hi is not None) else 'fixed-by-default'))
            if (lo is None) != (hi is None):
                br.add(pre + 'one-bound-only')
        elif fx:
            if lo is not None and hi is not None:
                br.add(pre + 'isfixed=True-with-bounds')
        else:
            br.add(pre + 'isfixed=False')
        try:
            ref_param(a)
            return True
        except RefErr as e:
            br.add(pre + ('reject-floating-without-bounds' if e.cls == 'TypeError' else 'reject-initial-outside'))
            return False
    for t, op in enumerate(case['ops']):
        k = op[0]
        P = ref.P
        names = [p['name'] for p in P]
        byname = dict((p['name'], p) for p in P)
        if k == 'add':
            if ctor(op[1:6], 'create:'):
                if op[1] in names:
                    br.add('addParam:duplicate(reject)')
                else:
                    fl = ref_param(op[1:6])['fx'] is False
                    br.add('addParam:%s-%s' % ('front' if op[6] else 'back', 'floating' if fl else 'fixed'))
                    if op[6] and any((not p['fx']) == fl for p in P):
                        br.add('addParam:front-%s-shifts-existing-index' % ('floating' if fl else 'fixed'))
        elif k == 'fix':
            req = op[1]
            for n in req:
                if n not in names:
                    br.add('fixF:name-not-in-set')
            bad_at = [i for i, p in enumerate(P) if p['name'] in req and (p['fx'] or isinstance(req[p['name']], str))]
            for p in P:
                if p['name'] not in req:
                    br.add('fixF:unnamed')
                elif p['fx']:
                    br.add('fixF:already-fixed(reject)')
                elif isinstance(req[p['name']], str):
                    br.add('fixF:bad(reject)')
            if bad_at:
                br.add('validate:error-at-first-parameter' if bad_at[0] == 0 else 'validate:error-at-later-parameter')
            else:
                for p in P:
                    if p['name'] in req:
                        br.add('rebuildLoop:named')
                        v = req[p['name']]
                        if v is None:
                            br.add('makeFixed:None')
                        elif v < p['lo'] or v > p['hi']:
                            br.add('makeFixed:value-outside(bounds dropped)')
                        else:
                            br.add('makeFixed:value-inside-bounds')
                    else:
                        br.add('rebuildLoop:unnamed-fixed' if p['fx'] else 'rebuildLoop:unnamed-floating')
        elif k == 'float':
            req = op[1]
            first_bad = None
            for i, p in enumerate(P):
                if p['name'] not in req:
                    br.add('floatF:unnamed')
                    continue
                e = req[p['name']]
                lab = None
                if not p['fx']:
                    lab = 'floatF:already-floating(reject)'
                else:
                    if e is None:
                        e3 = (None, None, None)
                    elif isinstance(e, (list, tuple)):
                        e3 = tuple(e)[:3]
                    else:
                        e3 = (e, None, None)
                    if len(e3) < 3:
                        lab = 'floatF:short(reject)'
                    elif (e3[1] is None and p['lo'] is None) or (e3[2] is None and p['hi'] is None):
                        lab = 'floatF:missing-bound(reject)'
                    elif any(isinstance(x, str) for x in e3):
                        lab = 'floatF:bad-item(reject)'
                    else:
                        ini = p['val'] if e3[0] is None else e3[0]
                        lo = p['lo'] if e3[1] is None else e3[1]
                        hi = p['hi'] if e3[2] is None else e3[2]
                        if ini < lo or ini > hi:
                            lab = 'floatF:outside(reject)'
                        else:
                            br.add('floatF:ok-initial-None' if e3[0] is None else 'floatF:ok-initial-given')
                            br.add('floatF:ok-bounds-kept' if (e3[1] is None and e3[2] is None) else 'floatF:ok-bounds-given')
                if lab:
                    br.add(lab)
                    if first_bad is None:
                        first_bad = i
            if first_bad is not None:
                br.add('validate:error-at-first-parameter' if first_bad == 0 else 'validate:error-at-later-parameter')
            else:
                for p in P:
                    br.add('rebuildLoop:named' if p['name'] in req else
                           ('rebuildLoop:unnamed-fixed' if p['fx'] else 'rebuildLoop:unnamed-floating'))
        elif k == 'setv':
            p = byname.get(op[1])
            if p is None:
                br.add('setValue:unknown-name(reject)')
            elif p['fx']:
                br.add('setValue:fixed-same' if op[2] == p['ini'] else 'setValue:fixed-different(reject)')
            else:
                br.add('setValue:floating-below(reject)' if op[2] < p['lo'] else
                       'setValue:floating-above(reject)' if op[2] > p['hi'] else 'setValue:floating-inside')
        elif k in ('union', 'unionN'):
            operands = [op[2]] if k == 'union' else op[2]
            ok = True
            for o in operands:
                for a in o:
                    if not ctor(a, 'create:'):
                        br.add('union:operand-ctor-error(reject)')
                        ok = False
                if len(set(a[0] for a in o)) != len(o):
                    br.add('union:operand-with-duplicate(reject)')
                    ok = False
            if k == 'union':
                br.add('union:left' if op[1] else 'union:right')
            else:
                if not op[2]:
                    br.add('unionN:self-only')
                if any(len(o) == 0 for o in op[2]):
                    br.add('unionN:empty-operand')
                if len(op[2]) >= 2:
                    br.add('unionN:3+sets')
                if op[1] > 0:
                    br.add('unionN:self-not-first')
            if ok:
                seen = set(names) if (k == 'unionN' or op[1]) else set()
                allnames = [a[0] for o in operands for a in o] + ([] if (k == 'unionN' or op[1]) else names)
                for n in allnames:
                    br.add('union:name-present(skipped)' if n in seen else 'union:name-new(added)')
                    seen.add(n)
        elif k in ('chfix', 'chfixraw'):
            p = byname.get(op[1])
            br.add('chfix:unknown-name(reject)' if p is None else ('chfix:fixed' if p['fx'] else 'chfix:floating(reject)'))
            if k == 'chfixraw':
                br.add('chfixraw')
        elif k == 'updcache':
            if t and case['ops'][t - 1][0] == 'chfixraw':
                br.add('updcache:stale-cache-refreshed')
        elif k == 'badargs':
            br.add('badArgs')
        elif k == 'copy':
            br.add('copy')
        elif k == 'map':
            n = len(ref.models)
            okc = ctor(op[1:6], 'create:')
            if not okc:
                br.add('mapParam:ctor-error(reject)')
            else:
                models, alias = op[6], op[7]
                br.add('mapParam:alias-' + ('none' if alias is None else 'one' if isinstance(alias, str) else
                                            'per-model' if len(alias) == n else 'broadcast-1' if len(alias) == 1 else 'wrong-length'))
                if n == 0:
                    br.add('mapParam:no-models-in-mapper')
                if models is None:
                    br.add('mapParam:models=None')
                elif any(i >= n for i in models):
                    br.add('mapParam:unknown-model')
                elif models and len(set(models)) < n:
                    br.add('mapParam:subset')
                try:
                    ref.clone().map(op[1:6], models, alias)
                    br.add('mapParam:accepted')
                except RefErr as e:
                    if (n == 0) if models is None else (len(models) == 0):
                        br.add('mapParam:models-empty(reject)')
                    elif e.cls == 'IndexError':
                        br.add('mapParam:checkAliases-IndexError')
                    elif e.cls == 'ValueError':
                        br.add('mapParam:aliasColumn-ValueError')
                    elif op[1] in names and not any(
                            (alias if isinstance(alias, str) else op[1] if alias is None else None) in
                            [x for x in ref.alias[i] if x is not None]
                            for i in range(n) if (models is None or i in models)) and not isinstance(alias, list):
                        br.add('mapParam:addParam-duplicate(reject)')
                    else:
                        br.add('mapParam:checkAliases-KeyError')
        try:
            ref.apply(op)
        except RefErr:
            pass
    # read-only views at the final state
    P = ref.P
    nfl = sum(1 for p in P if not p['fx'])
    qs = []
    for a in eq_others(case):
        try:
            qs.append(ref_param(a))
            br.add('createSome:ok')
        except RefErr:
            br.add('createSome:ctor-error(skipped)')
    for x in P:
        for y in qs:
            for (a, b) in ((x, y), (y, x)):
                if a['name'] != b['name']:
                    br.add('eq:name-differs')
                elif a['val'] != b['val']:
                    br.add('eq:value-differs')
                elif a['fx'] != b['fx']:
                    br.add('eq:isfixed-differs')
                elif a['fx']:
                    br.add('eq:fixed-equal')
                    if (a['lo'], a['hi']) != (b['lo'], b['hi']):
                        br.add('eq:fixed-equal-bounds-differ')
                elif a['ini'] != b['ini']:
                    br.add('eq:initial-differs')
                elif a['lo'] != b['lo']:
                    br.add('eq:valmin-differs')
                elif a['hi'] != b['hi']:
                    br.add('eq:valmax-differs')
                else:
                    br.add('eq:floating-equal')
    if kind == 'pmm':
        fln = [p['name'] for p in P if not p['fx']]
        for nm in query_names(case):
            br.add('gflpIdx:found' if nm in fln else 'gflpIdx:KeyError-fixed-name' if nm in [p['name'] for p in P]
                   else 'gflpIdx:KeyError-unknown-name')
        nm_ = len(ref.models)
        srcs_ = [i for i in range(nm_) if ref.models[i][1]]
        flds_ = set(a for i in srcs_ for a in ref.alias[i] if a is not None)

        def norm(i, length):
            if i >= 0:
                br.add('normIdx:nonneg-in-range' if i < length else 'normIdx:above(n-1)(IndexError)')
                return i if i < length else None
            br.add('normIdx:negative-wrapped' if i + length >= 0 else 'normIdx:below(-n)(IndexError)')
            return i + length if i + length >= 0 else None
        sidx = signed_idxs(case)
        ws = [norm(i, nm_) for i in sidx]
        for i in sidx:
            br.add('modelParamsDictInt:in-range' if 0 <= i < nm_ else 'modelParamsDictInt:out-of-range(IndexError)')
        if any(w is None for w in ws):
            br.add('srcRowsIdxInt:index-error')
        elif any(a is not None and a not in flds_ for w in ws for a in ref.alias[w]):
            br.add('srcRowsIdxInt:alias-not-a-field(reject)')
        else:
            br.add('srcRowsIdxInt:accepted')
        for (i, j) in signed_pairs(case):
            wi, wj = norm(i, nm_), norm(j, len(P))
            br.add('getModelParamName:IndexError' if (wi is None or wj is None) else 'getModelParamName:ok')
        for sel in selections(case):
            if sel is None:
                continue
            if any(i < nm_ and not ref.models[i][1] for i in sel):
                br.add('sourcesTypeOk:non-source-model(TypeError)')
                br.add('recarrayChecked:TypeError-after-length-check')
            else:
                if any(i >= nm_ for i in sel):
                    br.add('sourcesTypeOk:foreign-source')
                if any(i < nm_ for i in sel):
                    br.add('sourcesTypeOk:own-sources')
    if kind == 'pmm':
        n = len(ref.models)
        src = [i for i in range(n) if ref.models[i][1]]
        for sel in selections(case):
            if sel is None:
                br.add('srcModelIdxs:all')
            elif not sel:
                br.add('srcModelIdxs:empty-selection')
            else:
                br.add('srcModelIdxs:selection')
                if any(i >= n for i in sel):
                    br.add('srcModelIdxs:unknown-source')
        if not src:
            br.add('recarray:no-source-model')
        fields = set(a for i in src for a in ref.alias[i] if a is not None)
        if src and not fields:
            br.add('recarray:no-field')
        for i in range(n):
            seen_fixed = False
            for j, p in enumerate(P):
                a = ref.alias[i][j]
                br.add('rowEntries:%s-%s' % ('fixed' if p['fx'] else 'floating', 'mapped' if a is not None else 'unmapped'))
                if p['fx'] and a is not None:
                    seen_fixed = True
                if (not p['fx']) and a is not None and seen_fixed:
                    br.add('rowEntries:fixed-before-floating')
        if P or True:
            if nfl:
                br.add('wrong-length:short')
                br.add('wrong-length:long-with-floating')
            elif n:
                br.add('wrong-length:long-without-floating(numpy accepts)')
        idxs = idx_array(case)
        if not idxs:
            br.add('tabidx:empty')
        elif any(i >= n for i in idxs):
            br.add('tabidx:out-of-range(reject)')
        elif any(a is not None and a not in fields for i in idxs for a in ref.alias[i]):
            br.add('tabidx:alias-not-a-field(reject)')
        else:
            br.add('tabidx:accepted')
            if len(set(idxs)) < len(idxs):
                br.add('tabidx:repeated')
        flidx = [j for j, p in enumerate(P) if not p['fx']]
        if any(all(ref.alias[i][j] is None for i in src) for j in flidx):
            br.add('fitparam:floating-not-mapped-to-a-source')
        for a in set(x for row in ref.alias for x in row if x is not None):
            js = [j for i in range(n) for j, x in enumerate(ref.alias[i]) if x == a]
            br.add('lpfl:name-of-floating' if any(not P[j]['fx'] for j in js) else 'lpfl:name-of-fixed-only')
        if n:
            br.add('mdn:model-dict-by-name')
    return br


def classify(case, outcomes):
    """classes named in the property's quantifier (and the error paths) this history exercises"""
    cl = set()
    ops = case['ops']
    if case['kind'] == 'pmm':
        ms = case['models']
        cl.add('models=%d' % len(ms))
        flags = [m[1] for m in ms]
        if flags and not flags[0] and any(flags):
            cl.add('non-source-model-before-source')
        if any(not a and b for a, b in zip(flags[1:], flags[2:])) or (True in flags and False in flags[flags.index(True):]):
            cl.add('non-source-model-after-source')
        if flags and not any(flags):
            cl.add('no-source-model')
    names = set()
    for t, op in enumerate(ops):
        k = op[0]
        rej = outcomes.get(t, 'ok') != 'ok'
        if k in ('add', 'map'):
            names.add(op[1])
            fl = (op[5] is False) or (op[5] is None and op[3] is not None and op[4] is not None)
            if k == 'add':
                cl.add('add-%s-%s' % ('front' if op[6] else 'back', 'floating' if fl else 'fixed'))
            else:
                n = len(case['models'])
                cl.add('map-%s' % ('floating' if fl else 'fixed'))
                cl.add('map-models:' + ('all' if op[6] is None else 'empty' if not op[6] else
                                        'unknown-model' if any(i >= n for i in op[6]) else
                                        'subset' if len(op[6]) < n else 'all-listed'))
                al = op[7]
                cl.add('map-alias:' + ('none' if al is None else 'one' if isinstance(al, str) else
                                       'per-model' if len(al) == n else 'broadcast-1' if len(al) == 1 else 'wrong-length'))
        elif k == 'fix':
            for v in op[1].values():
                cl.add('fix:' + ('None' if v is None else ('uncastable-' + v) if isinstance(v, str) else 'value'))
        elif k == 'float':
            for e in op[1].values():
                cl.add('float:' + ('None' if e is None else 'triple' if isinstance(e, (list, tuple)) and len(e) == 3
                                   and not any(isinstance(x, str) for x in e) else
                                   'long-sequence' if isinstance(e, (list, tuple)) and len(e) > 3 else
                                   'scalar' if isinstance(e, (int, float)) else 'malformed'))
        elif k == 'union':
            cl.add('union-%s-%d' % ('left' if op[1] else 'right', len(op[2])))
        elif k == 'unionN':
            cl.add('unionN-%d-sets-self-at-%d' % (len(op[2]) + 1, op[1]))
            if any(len(o) == 0 for o in op[2]):
                cl.add('unionN-empty-operand')
        elif k in ('chfix', 'chfixraw', 'updcache'):
            cl.add(k)
        elif k == 'badargs':
            cl.add('badargs:%s-%s' % (op[1], op[2]))
        elif k in ('copy', 'setv'):
            cl.add(k)
        if rej:
            cl.add('rejected:' + k)
        elif k in ('fix', 'float', 'setv', 'union', 'unionN', 'chfix', 'copy') and t > 0:
            cl.add('interleaved:%s-after-%s' % (k, ops[t - 1][0]))
    cl.add('params<=%d' % min(4, max(1, len(names))))
    if len(ops) >= 5:
        cl.add('length>=5')
    return cl


def _process(ctx, cases, label):
    """correspondence + reference oracle on a batch of histories"""
    all_lines, spans = [], []
    for c in cases:
        lines, marks = ([], []) if c.get('oracle_only') else model_lines(c)
        spans.append((len(all_lines), len(lines), marks))
        all_lines += lines
    answers = ctx.driver('C04', all_lines)
    n_dis = 0
    reported = _REPORTED
    for c, (start, ln, marks) in zip(cases, spans):
        if c.get('raw'):
            # histories with change_fixed_value / update_fixed_param_value_cache called separately: between the two
            # calls the value cache is stale *by contract*; the model mirrors that, the reference table cannot judge it
            ctx.case(nontrivial=True, key=('raw', c['ops']))
            ctx.count('%s:raw-%s' % (label, c['kind']))
            for cl in classify(c, {}):
                ctx.count('class:' + cl)
            for b in branch_cover(c, {}):
                ctx.count('branch:' + b)
            mo, mv, _internal = model_result(c, marks, answers[start:start + ln])
            d = compare(c, (mo, mv, []), impl_result(c))
            if d is not None and ('corr', 'raw') not in reported:
                reported.add(('corr', 'raw'))
                ctx.violation('corr', c, 'model and implementation disagree (%s)' % d, kind='correspondence',
                              relation='op outcomes and every view (stale value cache included)',
                              signature='C04/corr/raw-change_fixed_value', no_failing_input=True)
            continue
        ctx.case(nontrivial=True, key=(c['kind'], c.get('models'), c['ops'], c.get('sels')),
                 desc=c if (ctx.evaluations % 2503 == 0) else None)
        ctx.count('%s:%s' % (label, c['kind']))
        ctx.count('len=%d' % len(c['ops']) if len(c['ops']) < 7 else 'len=7+')
        col = {}
        f = check_history(c, collect=col)
        for o in col['outcomes'].values():
            ctx.count('op-outcome:' + o)
        d = None
        for cl in classify(c, col.get('outcomes', {})):
            ctx.count('class:' + cl)
        for b in branch_cover(c, col.get('outcomes', {})):
            ctx.count('branch:' + b)
        if f is None and not c.get('oracle_only'):
            d = compare(c, model_result(c, marks, answers[start:start + ln]), (col['outcomes'], col['views']))
        if f is not None:
            ctx.count('failing_histories')
            # report every distinct (call site, failure mode) once, with a shrunk history
            while f is not None and len(reported) < 12:
                ign = frozenset(reported)
                reported.add((f.site, f.mode))
                small, fs = shrink(c, lambda x: check_history(x, ign))
                fs = fs or f
                ctx.violation('history', small, fs.text, signature=fs.signature, kind='history')
                reported.add((fs.site, fs.mode))
                f = check_history(c, frozenset(reported))
        elif d is not None:
            n_dis += 1
            if ('corr', c['kind']) in reported:
                continue
            reported.add(('corr', c['kind']))
            # no oracle hit on this history: try its prefixes once more with per-step views
            hit = None
            for k in range(1, len(c['ops']) + 1):
                cand = dict(c, ops=c['ops'][:k], view_each=True)
                hit = check_history(cand)
                if hit is not None:
                    ctx.violation('history', cand, hit.text, signature=hit.signature, kind='history')
                    break
            if hit is None:
                ctx.violation('corr', c, 'model and implementation disagree (%s) but the reference-table oracle passes on this history' % d,
                              kind='correspondence', relation='exact equality of op outcomes and of every view',
                              signature='C04/corr/' + c['kind'], no_failing_input=True)
    ctx.extra['correspondence_disagreements'] = ctx.extra.get('correspondence_disagreements', 0) + n_dis


def run(ctx):
    rng = ctx.rng
    _REPORTED.clear()
    ctx.rule = ('edit histories over {add(front/back), make_params_fixed, make_params_floating, value setter, union(left/right), copy} '
                'on a ParameterSet and over {map_param(model subsets, unknown models, no/one/per-model aliases incl. wrong lengths), '
                'make_params_fixed, make_params_floating, value setter} on a ParameterModelMapper with 0..4 models (source and '
                'non-source in any order), <= 4 parameter names; bounded-exhaustive over fixed alphabets + random histories with '
                'requests built from the current table (valid, rejected and ignored requests); a case is non-trivial when distinct by '
                '(kind, models, ops, selections)')
    ctx.trusted_base += ['correspondence harness harness/props/c04.py (exact comparison of canonical view strings)',
                         'numpy boolean-mask indexing / np.where / np.unique / dict semantics re-implemented in Model/Params.lean',
                         'float comparisons only (<, !=) on non-NaN values; no arithmetic on parameter values']
    ctx.assumptions += ['parameter values and bounds are non-NaN floats', 'model names are unique',
                        'a Parameter object is edited through one container only (union / ParameterSet(params) / map_param store the '
                        'caller\'s objects: open finding C04/shared-parameter-objects/stale-caches, exercised by the oracle `sharing`)',
                        'nobody uses the unguarded public setters Parameter.initial/isfixed/valmin/valmax/name or change_fixed_value '
                        '(+ update_fixed_param_value_cache) and nobody mutates a returned view (the name lists, masks and the value cache '
                        'are returned by reference)',
                        'value vectors have the right length (wrong lengths: create_src_params_recarray / create_model_params_dict must '
                        'reject, checked; get_params_dict truncates like zip, documented)',
                        'global parameters of a mapper are added through map_param only',
                        '`sources` is given as SourceModel objects (not as an int32 index array)']
    cases = []
    # ---- bounded-exhaustive
    l_red, l_full = ctx.n((4, 3), (6, 4))
    seen = set()

    def add_enum(kind, alphabet, maxlen, models=None, sels=None):
        for ops in enum_histories(alphabet, maxlen):
            key = (kind, repr(models), repr(ops))
            if key in seen:
                continue
            seen.add(key)
            if len(ops) >= 3:
                ops = ops[:len(ops) // 2] + [['view']] + ops[len(ops) // 2:]
            c = {'kind': kind, 'ops': ops, 'view_each': False}
            if kind == 'pmm':
                c['models'] = models
                c['sels'] = sels
            cases.append(c)
    add_enum('ps', PS_ALPHABET[:ctx.n(6, PS_REDUCED)], l_red)
    if ctx.thorough:
        add_enum('ps', PS_ALPHABET[:10], 4)
        add_enum('ps', PS_ALPHABET[:16], 3)
        add_enum('ps', PS_ALPHABET, 2)
    else:
        add_enum('ps', PS_ALPHABET[:12], 3)
        add_enum('ps', PS_ALPHABET, 2)
    for ci, models in enumerate(PMM_CONFIGS[:ctx.n(2, 4)]):
        src = [i for i in range(len(models)) if models[i][1]]
        sels = [[src[0]], [src[-1], len(models) + 1]]
        if len(src) < len(models) and ci % 2 == 0:
            sels.append([src[0], [i for i in range(len(models)) if i not in src][0]])
        alpha = pmm_alphabet(models)
        add_enum('pmm', alpha[:ctx.n(4, PMM_REDUCED)], ctx.n(4, 6) if ci < 1 else ctx.n(4 if ci < 2 else 3, 5), models, sels)
        add_enum('pmm', alpha, ctx.n(2, 3 if ci < 2 else 2), models, sels)
    ctx.extra['enumerated_histories'] = len(cases)
    _process(ctx, cases, 'enum')
    # ---- random histories (views after every step)
    cases = []
    for _ in range(ctx.n(200, 3000)):
        kind = rng.choice(['ps', 'pmm'])
        length = rng.choice([1, 2, 3, 4, 5, 6, 6, 8, 10, 12])
        cases.append(gen_history(rng, kind, length))
    for _ in range(ctx.n(40, 400)):
        cases.append(gen_history(rng, rng.choice(['ps', 'pmm']), rng.choice([3, 4, 6, 8]), malformed=True))
    for _ in range(ctx.n(40, 400)):
        cases.append(gen_raw_history(rng, rng.choice(['ps', 'pmm']), rng.choice([3, 4, 6, 8])))
    _process(ctx, cases, 'random')
    # ---- worlds of set objects sharing Parameter objects: model (heap + references) vs. implementation
    wcs = [gen_world(rng, rng.choice([3, 4, 6, 8, 10])) for _ in range(ctx.n(80, 800))]
    wlines, wspans = [], []
    for wc in wcs:
        ls = world_lines(wc)
        wspans.append((len(wlines), len(ls)))
        wlines += ls
    wans = ctx.driver('C04', wlines)
    for wc, (st, ln) in zip(wcs, wspans):
        ctx.case(nontrivial=True, key=('world', wc['ops']))
        ctx.count('world-histories')
        for op in wc['ops']:
            ctx.count('class:world-' + op[0])
        res = world_check(ctx, wc, wans[st:st + ln])
        if res and ('corr', 'world') not in _REPORTED:
            _REPORTED.add(('corr', 'world'))
            ctx.violation('world', wc, res, kind='correspondence', relation='op outcomes and every view of every set object',
                          signature='C04/corr/world-shared-objects')
    # ---- Parameter objects shared between containers (operands of union, ParameterSet(params=other.params), mapper)
    for how in ('union', 'ctor', 'map'):
        for edit in ('fix', 'float'):
            sc = {'how': how, 'edit': edit}
            ctx.case(nontrivial=True, key=('sharing', how, edit))
            ctx.count('class:shared-objects-' + how)
            res = o_sharing(ctx, sc)
            if res:
                ctx.violation('sharing', sc, res, signature='C04/shared-parameter-objects/stale-caches', kind='history')
    zero = [b for b in EXPECTED_BRANCHES if not ctx.counters.get('branch:' + b)]
    unknown = sorted(k[7:] for k in ctx.counters if k.startswith('branch:') and k[7:] not in EXPECTED_BRANCHES)
    ctx.extra['model_branches'] = len(EXPECTED_BRANCHES)
    ctx.extra['zero_hit_branches'] = zero
    ctx.extra['unreachable_model_branches'] = UNREACHABLE_BRANCHES
    if unknown:
        raise MachineryError('branch labels not listed in EXPECTED_BRANCHES: %r' % unknown)
    if zero:
        ctx.note('model branches not reached by any history of this run: %s' % ', '.join(zero))
    # the bounded-exhaustive part is complete for its alphabets, the random part is a sample
    ctx.exhaustive = False


ORACLES['world'] = o_world

MANIFEST = dict(
    text=('Lean theorems (any linear order of values): the five caches of ParameterSet are functions of the parameter list after '
          'every add/fix/float/value/union/copy edit (c04_inv_init, c04_inv_step), every edit produces exactly the parameter list and '
          'outcome of the specification machine Spec.step (c04_simulates), hence for all histories every view equals the view of the '
          'list the specification reaches (c04_refine, c04_refine_spec); map_param appends exactly the requested alias column '
          '(c04_map_result); get_src_model_idxs / the whole record array (c04_src_model_idxs, c04_src_recarray); closed form of the table cell and agreement of table, model dictionary and global dictionary (c04_cell_at, c04_model_dict_cell, c04_table_value_is_global_value); consumers of :gpidx and the floating mask of local names (c04_fitparam_is_local, c04_local_is_floating_mask); change_fixed_value + cache refresh, n-ary union, random initials inside the bounds; object identity: frame property, copy independence, and for sets sharing Parameter objects statement / counterexample / partial (c04_shared_objects_*); rejected edits (bounds, change of a fixed value, duplicate names/aliases) are '
          'rejected and leave the state untouched; the value setter accepts exactly the fixed value / the values inside the bounds (make_fixed(None): initial := value); the per-source table cell of a well-formed mapper is exactly the value of the '
          'parameter mapped under that alias. The executable model (caches, index arithmetic, boolean masks as coded) is compared '
          'exactly with the real Parameter/ParameterSet/ParameterModelMapper on bounded-exhaustive and random edit histories; an '
          'independent plain-Python table searches the implementation for failing histories. Round 7: Parameter.__eq__ in closed form, '
          'an equivalence, equal parameters accept the same values (c04_param_eq_iff/_equiv/_same_setter/_in_set); the TypeError branch of '
          'get_src_model_idxs for non-source models (c04_src_model_idxs_checked, c04_src_recarray_checked); counters / get_gflp_idx / '
          'floating dict of the mapper (c04_mapper_counts_gflp); signed indices: range check of create_model_params_dict vs. numpy '
          'wrap-around of get_model_param_name and of the int32 index array (c04_signed_index, c04_model_dict_int, '
          'c04_src_recarray_idx_signed, c04_get_model_param_name); eleven signature defaults read from the source '
          '(c04_defaults_for_current_source), left-out vs. explicit default arguments are a generated call form.'),
    note=('Model mirrors the code after the fix commits 5913c1e, 747228b, 2813c18, 0849331, dd3a2d6 (known_findings.json), 04cfca6 (branch agent-C04-r3: make_params_fixed casts before mutating) and the gpidx semantics of 134adfc; open finding: shared Parameter objects (union / ParameterSet(params) / map_param) leave the caches of the other container stale; the code before '
          '2813c18 is kept as editAllUnvalidated with a proved counterexample. Values are compared, never computed (no IEEE issue); '
          'NaN values, int32 source-index arrays, edits of union operands after the union (shared Parameter objects) and direct '
          'global_paramset.add_param calls on a mapper are outside the model (stated as assumptions).'),
    design='DESIGN.md section 4 C04',
    technique='Lean 4 proof (state machine with caches, refinement by induction over edit histories) + exact model/implementation correspondence')
