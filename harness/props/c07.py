"""C07 — generating pseudo-data never alters the stored experimental or MC data.

Correspondence: histories of {generate background (every method), generate signal, merge, initialise trial,
evaluate, unblind} on a real LLHRatioAnalysis with stub llhratio/pmm/signal generator vs. Model/PseudoData.lean
(Driver/C07.lean): after every operation the public accessors of data.exp, data.mc, the generated containers,
tdm.events and _cache_mc and the np.shares_memory graph are compared exactly with the heap model.
Property oracles (implementation only): byte-wise snapshots of data.exp / data.mc before and after every
operation (also through Analysis.do_trial), and the scrambling contract (only the documented fields change,
same number of events, right ascension inside the configured range)."""
import numpy as np

from harness import pseudo_fixtures as pf
from harness import store_fixtures as sf
from harness.pseudo_fixtures import IDX, UNIVERSE

MODEL_MODULES = ['SkyllhModel.Model.Store', 'SkyllhModel.Model.StoreIO', 'SkyllhModel.Model.PseudoData', 'SkyllhModel.Model.PseudoDataR7',
                 'SkyllhModel.Generated.C07']

# Python callables that have an executable Lean counterpart which the c07_* theorems are about and which run(ctx) compares with
# the real callable on every run (the random draws / scrambled values / drawn indices are inputs of the model)
_DFRA = 'skyllh/core/storage.py::DataFieldRecordArray.'
_ANA = 'skyllh/core/analysis.py::'
_BG = 'skyllh/core/background_generation.py::'
MODEL_MAP = {
    'skyllh/core/scrambling.py::DataScrambler.scramble_data': ['Pseudo.scrambleData', 'Pseudo.compile7'],
    'skyllh/core/scrambling.py::UniformRAScramblingMethod.scramble': ['Pseudo.uniformRA', 'Pseudo.documented', 'Pseudo.scrSets'],
    'skyllh/core/scrambling.py::UniformRAScramblingMethod.ra_range': ['Pseudo.raRangeOf'],
    'skyllh/core/scrambling.py::TimeScramblingMethod.scramble': ['Pseudo.documented', 'Pseudo.scrSets'],
    'skyllh/i3/scrambling.py::I3TimeScramblingMethod.scramble': ['Pseudo.documented', 'Pseudo.scrSets'],
    'skyllh/i3/scrambling.py::I3SeasonalVariationTimeScramblingMethod.scramble': ['Pseudo.documented', 'Pseudo.scrSets'],
    'skyllh/i3/background_generation.py::FixedScrambledExpDataI3BkgGenMethod.generate_events': ['Pseudo.compile7', 'Pseudo.scrambleData', 'Pseudo.compile'],
    _BG + 'MCDataSamplingBkgGenMethod.generate_events': ['Pseudo.compile', 'Pseudo.cachePlan', 'Pseudo.nBkgRaw', 'Pseudo.nBkgSelected'],
    _BG + 'MCDataSamplingBkgGenMethod.change_shg_mgr': ['Pseudo.compile'],
    _BG + 'CompositeMCDataSamplingBkgGenMethod.generate_events': ['Pseudo.compile', 'Pseudo.compositePlan'],
    _ANA + 'Analysis.generate_signal_events': ['Pseudo.injectPlan', 'Pseudo.compile7'],
    _ANA + 'Analysis.do_trial_with_given_bkg_and_sig_pseudo_data': ['Pseudo.injectPlan', 'Pseudo.compile7', 'Pseudo.gstep7', 'Pseudo.runHE'],
    _ANA + 'Analysis.do_trial': ['Pseudo.doTrial'],
    _ANA + 'LLHRatioAnalysis.unblind': ['Pseudo.compile'],
    'skyllh/core/trialdata.py::TrialDataManager.initialize_trial': ['Pseudo.trialOps', 'Pseudo.sortOps'],
    'skyllh/core/trialdata.py::TrialDataManager.calculate_global_fitparam_data_fields': ['Pseudo.setItems'],
    'skyllh/core/signal_generator.py::MCMultiDatasetSignalGenerator.generate_signal_events': ['Pseudo.compile'],
    # the container operations every history is made of (heap model shared with C16, compared after every operation)
    _DFRA + 'copy': ['Store.copyCols', 'Store.tableOp'],
    _DFRA + 'append': ['Store.appendCol', 'Store.npAppend', 'Store.tableOp'],
    _DFRA + 'get_selection': ['Store.selColE', 'Store.selCol', 'Store.selPositions'],
    _DFRA + 'set_selection': ['Store.srcCol', 'Store.putCol', 'Store.putSel'],
    _DFRA + '__setitem__': ['Store.setItemCol', 'Store.tableOp'],
    _DFRA + 'tidy_up': ['Store.tableOp'],
    _DFRA + 'sort_by_field': ['Store.sortCol', 'Store.isPerm', 'Store.nondecr'],
    _DFRA + 'indices': ['Store.idxUpd'],
}

# ------------------------------------------------------------------------------------------
# tie to the current source (round 7): Generated/C07.lean

SCR_CLASSES = [('uniformRA', 'skyllh/core/scrambling.py', 'UniformRAScramblingMethod', ['ra']),
               ('i3time', 'skyllh/i3/scrambling.py', 'I3TimeScramblingMethod', ['time', 'ra']),
               ('seasonal', 'skyllh/i3/scrambling.py', 'I3SeasonalVariationTimeScramblingMethod', ['time', 'ra']),
               ('time', 'skyllh/core/scrambling.py', 'TimeScramblingMethod', ['time', 'ra', 'dec'])]


def _assigned_fields(relpath, cls):
    """names f of every `data['f'] = …` / `(data['f'], data['g']) = …` / `data['f'] += …` in cls.scramble"""
    import ast
    from harness import extract
    c = extract.find_class(extract.parse(relpath), cls)
    if c is None:
        raise LookupError('class %s not found in %s' % (cls, relpath))
    f = None
    for node in c.body:
        if isinstance(node, ast.FunctionDef) and node.name == 'scramble':
            f = node
    if f is None:
        raise LookupError('%s.scramble not found' % cls)
    names = []

    def targets(t):
        if isinstance(t, (ast.Tuple, ast.List)):
            for e in t.elts:
                targets(e)
        elif isinstance(t, ast.Subscript) and isinstance(t.value, ast.Name) and t.value.id == 'data':
            key = ast.literal_eval(t.slice)
            if not isinstance(key, str):
                raise LookupError('non-literal key in %s.scramble' % cls)
            names.append(key)
    for node in ast.walk(f):
        if isinstance(node, ast.Assign):
            for t in node.targets:
                targets(t)
        elif isinstance(node, (ast.AugAssign, ast.AnnAssign)):
            targets(node.target)
    if not names:
        raise LookupError('no data[...] assignment found in %s.scramble' % cls)
    return names


def _fixed_bkg_copy():
    """the literal of the `copy=` keyword in `self._data_scrambler.scramble_data(...)` of the fixed background generation method"""
    import ast
    from harness import extract
    c = extract.find_class(extract.parse('skyllh/i3/background_generation.py'), 'FixedScrambledExpDataI3BkgGenMethod')
    f = extract.find_func(c, 'generate_events')
    for node in ast.walk(f):
        if isinstance(node, ast.Call) and isinstance(node.func, ast.Attribute) and node.func.attr == 'scramble_data':
            # the keyword decides only when the stored array itself is handed over (`data=data.exp`); a method that scrambles its
            # own copy (`data=exp_events`, copy=False) is equally fine: then nothing is extracted (recorded value, the correspondence decides)
            arg = [k.value for k in node.keywords if k.arg == 'data']
            if not (arg and isinstance(arg[0], ast.Attribute) and arg[0].attr == 'exp' and isinstance(arg[0].value, ast.Name)):
                raise LookupError('the array handed to scramble_data is not literally data.exp: the copy= keyword alone does not decide')
            for k in node.keywords:
                if k.arg == 'copy':
                    v = ast.literal_eval(k.value)
                    if isinstance(v, bool):
                        return v
            raise LookupError('scramble_data call without a literal copy= keyword')
    raise LookupError('no scramble_data call')


def _default_ra_range():
    """the tuple assigned to `ra_range` when the setter of UniformRAScramblingMethod.ra_range gets None"""
    import ast
    from harness import extract
    c = extract.find_class(extract.parse('skyllh/core/scrambling.py'), 'UniformRAScramblingMethod')
    for fn in c.body:
        if isinstance(fn, ast.FunctionDef) and fn.name == 'ra_range':
            for node in ast.walk(fn):
                if isinstance(node, ast.Assign) and any(isinstance(t, ast.Name) and t.id == 'ra_range' for t in node.targets) \
                        and isinstance(node.value, ast.Tuple) and len(node.value.elts) == 2:
                    return tuple(float(extract.literal(e)) for e in node.value.elts)
    raise LookupError('default ra_range tuple not found')


def generated(ctx):
    import math
    from harness import extract
    copy = True
    try:
        copy = _fixed_bkg_copy()
    except Exception as e:  # noqa
        ctx.note('C07: could not extract the copy= keyword of the fixed background generation method (%s); using recorded value True' % e)
        ctx.proof['generated_fallbacks'].append('fixedBkgCopy')
    rng_ = (0.0, 2 * math.pi)
    try:
        rng_ = _default_ra_range()
    except Exception as e:  # noqa
        ctx.note('C07: could not extract the default ra_range (%s); using recorded value (0, 2*pi)' % e)
        ctx.proof['generated_fallbacks'].append('defaultRaRange')
    lines = ['-- generated by harness/props/c07.py from the current skyllh source; do not edit', 'namespace Gen.C07',
             '/-- `copy=` in `FixedScrambledExpDataI3BkgGenMethod.generate_events`: `scramble_data(..., data=data.exp, copy=<this>)` -/',
             'def fixedBkgCopy : Bool := %s' % ('true' if copy else 'false'),
             '/-- the range `UniformRAScramblingMethod` uses for `ra_range=None` -/',
             'def defaultRaLo {F : Type} [OfScientific F] : F := %s' % extract.lean_float(rng_[0]),
             'def defaultRaHi {F : Type} [OfScientific F] : F := %s' % extract.lean_float(rng_[1])]
    for nm, relpath, cls, recorded in SCR_CLASSES:
        names = recorded
        try:
            names = _assigned_fields(relpath, cls)
        except Exception as e:  # noqa
            ctx.note('C07: could not extract the fields assigned by %s.scramble (%s); using recorded value %r' % (cls, e, recorded))
            ctx.proof['generated_fallbacks'].append('assigned ' + nm)
        nums = sorted(set(IDX.get(n, 900 + i) for i, n in enumerate(names)))
        lines += ['/-- the fields (numbers of the harness universe, sorted) `%s.scramble` assigns into `data`: %s -/' % (cls, ', '.join(names)),
                  'def assigned_%s : List Nat := [%s]' % (nm, ', '.join(str(x) for x in nums))]
    lines += ['end Gen.C07', '']
    return '\n'.join(lines)


def usnap(a):
    return sf.snap(a, vals=pf.enc, universe=UNIVERSE)


def idxs(names):
    return sf.il([IDX[n] for n in names if n in IDX])


def bkg_args(op):
    """explicit expected mean (instead of the method's own get_mean_func) and Poisson on/off, as the public API offers"""
    kw = {}
    if op.get('mean') is not None:
        kw['mean_n_bkg_list'] = [float(op['mean'])]
    if op.get('poisson') is False:
        kw['bkg_kwargs'] = {'poisson': False}
    return kw


class Runner:
    """executes one history on the implementation; records request lines for the model and observations"""

    def __init__(self, spec):
        self.w = pf.World(spec)
        self.hs = []                 # generated containers (handles)
        self.kind = []               # 'bkg' (carries every field a scrambling method reads) | 'sig'
        self.cache_built = False
        self.lines = ['reset', 'init %s %s' % (pf.cols_tok((n, self.w.exp[n]) for n in self.w.exp.field_name_list),
                                                 pf.cols_tok((n, self.w.mc[n]) for n in self.w.mc.field_name_list))]
        self.sha0 = (pf.sha(self.w.data.exp), pf.sha(self.w.data.mc))
        self.cols0 = (pf.colshas(self.w.data.exp), pf.colshas(self.w.data.mc))
        self.ids0 = (id(self.w.data.exp), id(self.w.data.mc))

    # the model's TrialCfg for initialize_trial on container e (read before the call)
    def cfg_tokens(self, e):
        tc = self.w.spec['trial']
        n = len(e)
        stub_sel = tc['sel'] is True              # 'all' = the real pass-through selection: no event is rejected
        pre = pf.cols_tok([('pre', e['ra'].astype(np.float64) * 2.0)]) if tc['pre'] else '-'
        sel = ('i:' + sf.il(range(0, n, 2))) if stub_sel else 'N'
        n_ev = len(range(0, n, 2)) if stub_sel else n
        if tc['index'] is not None:
            # the permutation is recovered from the sorted events afterwards (any valid sorting permutation is fine)
            names = list(e.field_name_list)
            step = 2 if stub_sel else 1
            self._pending = (names, [tuple(e[f][i].tobytes() for f in names) for i in range(0, n, step)],
                             np.array(e[tc['index']], copy=True)[::step])
            index = '%d:%%PERM%%' % IDX[tc['index']]
        else:
            self._pending = None
            index = 'N'
        stat = pf.cols_tok([('stat', np.arange(n_ev, dtype=np.float64) + 0.5)]) if tc['stat'] else '-'
        return '%s %s %s %s' % (pre, sel, index, stat)

    def fix_perm(self, lines):
        """replace %PERM% by the permutation the implementation applied (rows matched by content; identical rows are
        interchangeable); falls back to np.argsort of the key if the sorted events are not a permutation of the rows"""
        if not any('%PERM%' in ln for ln in lines):
            return lines
        names, before, key = self._pending
        ev = self.w.tdm.events
        perm = None
        if ev is not None and len(ev) == len(before) and all(f in ev for f in names):
            pool = {}
            for i, r in enumerate(before):
                pool.setdefault(r, []).append(i)
            perm = []
            for j in range(len(ev)):
                r = tuple(ev[f][j].tobytes() for f in names)
                if not pool.get(r):
                    perm = None
                    break
                perm.append(pool[r].pop(0))
        if perm is None:
            perm = [int(i) for i in np.argsort(key)]
        return [ln.replace('%PERM%', sf.il(perm)) for ln in lines]

    def eval_line(self):
        tc = self.w.spec['trial']
        ev = self.w.tdm.events
        if tc.get('gfp') and ev is not None and 'gfp' in ev:
            return 'evaluate ' + pf.cols_tok([('gfp', ev['gfp'])])
        return 'evaluate -'

    def apply(self, op):
        """returns ('ok'|'err', lines for the model, new handle or None)"""
        w, k = self.w, op['op']
        rss = w.RSS(seed=op.get('seed', 1))
        lines, new = [], None
        try:
            if k == 'genFixed':
                w.set_bkg_method(w.fixed[op['scr']])
                (nl, evl) = w.ana.generate_background_events(rss)
                self.last_count = (int(nl[0]), None)
                new = evl[0]
                # round 7: the model takes the copy= keyword of the method from the current source (Generated/C07.lean)
                lines.append('fixedBkg %s %s' % (op['scr'], pf.cols_tok((f, new[f]) for f in pf.DOCUMENTED[op['scr']])))
            elif k == 'genMC':
                mcv = w.spec['mc_variant']
                w.set_bkg_method(w.mc_method)
                (nl, evl) = w.ana.generate_background_events(rss, **bkg_args(op))
                new = evl[0]
                self.last_count = (int(nl[0]), op.get('mean'))
                keep = list(w.exp_field_names()) + list(mcv.get('keep', ['mcweight']))
                cache_uid = sf.ivals(w.mc['uid'][::2] if mcv['presel'] else w.mc['uid'])
                pos = {u: i for i, u in enumerate(cache_uid)}
                draw = [pos[u] for u in sf.ivals(new['uid'])]
                presel = ('i:' + sf.il(range(0, len(w.mc), 2))) if mcv['presel'] else 'N'
                sets = pf.cols_tok((f, new[f]) for f in pf.DOCUMENTED[mcv['scr']]) if mcv['scr'] else '-'
                lines.append('genMC %s %s %s %s %s %s' % (idxs(keep), presel, sf.il(draw), mcv['scr'] or 'N', sets, idxs(w.exp_field_names())))
                self.cache_built = True
            elif k == 'genComp':
                mcv = w.spec['mc_variant']
                keep = list(w.exp_field_names()) + list(mcv.get('keep', ['mcweight']))
                # the per-trial MC copy is a local of the method: rebuild it with the same code and a twin random state
                # (the scrambler is the first consumer of the random stream)
                twin = w.mc.copy(keep_fields=keep)
                if mcv['scr'] is not None:
                    twin = w.DataScrambler(w.scr[mcv['scr']]()).scramble_data(w.RSS(seed=op.get('seed', 1)), w.ds, twin, copy=False)
                w.set_bkg_method(w.comp_method)
                (nl, evl) = w.ana.generate_background_events(rss, **bkg_args(op))
                self.last_count = (int(nl[0]), op.get('mean'))
                new = evl[0]
                sets = pf.cols_tok((f, twin[f]) for f in pf.DOCUMENTED[mcv['scr']]) if mcv['scr'] else '-'
                rates = pf.cols_tok((nm, fn(w.ds, w.data, twin)) for nm, fn in w.comp_rates.items())
                cache_uid = sf.ivals(twin['uid'][::2] if mcv['presel'] else twin['uid'])
                pos = {u: i for i, u in enumerate(cache_uid)}
                draw = [pos[u] for u in sf.ivals(new['uid'])]
                presel = ('i:' + sf.il(range(0, len(w.mc), 2))) if mcv['presel'] else 'N'
                lines.append('genComp %s %s %s %s %s %s %s' % (idxs(keep), mcv['scr'] or 'N', sets, rates, presel, sf.il(draw), idxs(w.exp_field_names())))
            elif k in ('genSigReal', 'genSigRealRanges'):
                # the real MCMultiDatasetSignalGenerator (get_selection on data.mc, post-sampling processing, set_selection)
                if k == 'genSigRealRanges' and (len(w.mc) < 4 or np.count_nonzero(np.abs(w.mc['dec'].astype(np.float64)) < 1.45) < 0.75 * len(w.mc)):
                    # too few valid MC events: the generator would re-draw for ever (not the subject of C07)
                    return ('ok', None, None)
                gen = w.real_signal_generator(valid_ranges=(k == 'genSigRealRanges'))
                (_, d) = gen.generate_signal_events(rss, op['k'], poisson=False)
                new = d.get(0)
                if k == 'genSigRealRanges':
                    lines = None            # (re-drawn events: oracle only)
                elif new is None:
                    lines.append('evaluate -')
                else:
                    pos = {u: i for i, u in enumerate(sf.ivals(w.mc['uid']))}
                    ev_ = [pos[u] for u in sf.ivals(new['uid'])]
                    post = pf.cols_tok((f, new[f]) for f in ('ra', 'dec', 'sin_dec') if f in new)
                    empty = pf.cols_tok((f, np.zeros(len(new), dtype=w.mc[f].dtype)) for f in w.mc.field_name_list)
                    lines.append('genSigMC %s %s %s %s' % (sf.il(ev_), post, empty, sf.il(range(len(new)))))
            elif k == 'genSig':
                (_, _, evl) = w.ana.generate_signal_events(rss, mean_n_sig=op['k'], sig_kwargs={}, n_events_list=[0], events_list=[None])
                new = evl[0]
                if new is None:
                    lines.append('evaluate -')
                else:
                    lines.append('genSig ' + pf.cols_tok((n, new[n]) for n in new.field_name_list))
            elif k == 'sigMerge':
                b = self.hs[op['b']]
                if op['k'] == 0:
                    lines.append('evaluate -')
                else:
                    sig = w.make_signal(w.RSS(seed=op.get('seed', 1)), op['k'])
                    w.sig_uid += op['k']          # the analysis draws the same events again below
                    lines.append('genSigTmp ' + pf.cols_tok((n, sig[n]) for n in sig.field_name_list))
                    lines.append('merge @%d @new' % op['b'])
                w.ana.generate_signal_events(rss, mean_n_sig=op['k'], sig_kwargs={}, n_events_list=[len(b)], events_list=[b])
            elif k == 'trialBkgSig':
                b, s = self.hs[op['b']], self.hs[op['s']]
                lines.append('merge @%d @%d' % (op['b'], op['s']))
                # the configuration of the trial is read after the merge: replay the merge on a copy to know the adopted content
                merged = b.copy()
                merged.append(s)
                lines.append('initTrial @%d %s' % (op['b'], self.cfg_tokens(merged)))
                lines.append('evaluate -')
                w.ana.do_trial_with_given_bkg_and_sig_pseudo_data(
                    seed=1, mean_n_sig=0., n_sig=len(s), n_bkg_events_list=[len(b)], n_sig_events_list=[len(s)],
                    bkg_events_list=[b], sig_events_list=[s], minimizer_rss=rss)
                lines[-1] = self.eval_line()
                lines = self.fix_perm(lines)
            elif k == 'initTrial':
                e = self.hs[op['e']]
                lines.append('initTrial @%d %s' % (op['e'], self.cfg_tokens(e)))
                w.ana.initialize_trial([e])
                lines = self.fix_perm(lines)
            elif k == 'doTrialGiven':
                e = self.hs[op['e']]
                lines.append('initTrial @%d %s' % (op['e'], self.cfg_tokens(e)))
                lines.append('evaluate -')
                w.ana.do_trial_with_given_pseudo_data(seed=1, mean_n_sig=0., n_sig=0, n_events_list=[len(e)], events_list=[e], minimizer_rss=rss)
                lines[-1] = self.eval_line()
                lines = self.fix_perm(lines)
            elif k == 'scrambleGen':
                # DataScrambler.scramble_data called on a generated background, with either value of `copy`
                cands = [i for i, kd in enumerate(self.kind) if kd == 'bkg']
                if not cands:
                    return ('ok', None, None)
                hi = cands[op['h'] % len(cands)]
                e = self.hs[hi]
                before = {n: (e[n].dtype, e[n].tobytes()) for n in e.field_name_list}
                self.last_scr = None
                # the form of the flag (bool / int / numpy bool) is chosen after its value and holds it exactly
                flag = {'bool': bool, 'int': int, 'np': np.bool_}[op.get('copy_form', 'bool')](op['copy'])
                out = w.DataScrambler(w.scr[op['scr']]()).scramble_data(rss, w.ds, e, copy=flag)
                if out is not e:
                    new = out
                self.last_scr = (op['scr'], out, before, e)
                lines.append('scramble @%d %d %s %s' % (hi, 1 if op['copy'] else 0, op['scr'], pf.cols_tok((f, out[f]) for f in pf.DOCUMENTED[op['scr']])))
            elif k == 'inject':
                # Analysis.generate_signal_events on given pseudo data (None | a generated container), mean_n_sig = 0 included
                hi = None if (op['b'] is None or not self.hs) else op['b'] % len(self.hs)
                b = None if hi is None else self.hs[hi]
                if op['k'] == 0:
                    lines.append('inject %s N' % ('N' if hi is None else '@%d' % hi))
                else:
                    sig = w.make_signal(w.RSS(seed=op.get('seed', 1)), op['k'])
                    w.sig_uid += op['k']          # the analysis draws the same events again below
                    lines.append('inject %s %s' % ('N' if hi is None else '@%d' % hi, pf.cols_tok((n, sig[n]) for n in sig.field_name_list)))
                n_before = 0 if b is None else len(b)
                (n_sig, nl, evl) = w.ana.generate_signal_events(rss, mean_n_sig=op['k'], sig_kwargs={}, n_events_list=[n_before], events_list=[b])
                self.last_inject = (n_before, op['k'], int(nl[0]), evl[0], b)
                if b is None and evl[0] is not None:
                    new = evl[0]
            elif k == 'trialBkgSig7':
                # do_trial_with_given_bkg_and_sig_pseudo_data with None background / None signal / both given
                bi = None if (op['b'] is None or not self.hs) else op['b'] % len(self.hs)
                si = None if (op['s'] is None or not self.hs) else op['s'] % len(self.hs)
                b = None if bi is None else self.hs[bi]
                s_ = None if si is None else self.hs[si]
                self._pending = None
                try:
                    if b is not None and s_ is not None:
                        merged = b.copy()
                        merged.append(s_)
                    else:
                        merged = b if b is not None else s_
                    cfg = self.cfg_tokens(merged) if merged is not None else '- N N -'
                except KeyError:
                    cfg = '- N N -'           # the merge raises: the model never reads the trial configuration
                    self._pending = None
                lines.append('trialBkgSig %s %s %s %%EVAL%%' % ('N' if bi is None else '@%d' % bi, 'N' if si is None else '@%d' % si, cfg))
                w.ana.do_trial_with_given_bkg_and_sig_pseudo_data(
                    seed=1, mean_n_sig=0., n_sig=0 if s_ is None else len(s_), n_bkg_events_list=[0 if b is None else len(b)],
                    n_sig_events_list=[0 if s_ is None else len(s_)], bkg_events_list=[b], sig_events_list=[s_], minimizer_rss=rss)
                lines[-1] = lines[-1].replace('%EVAL%', self.eval_line().split(' ', 1)[1])
                lines = self.fix_perm(lines)
            elif k == 'doTrialFixed':
                # Analysis.do_trial end to end with the fixed (scrambled experimental data) method, compared through tdm.events.  The
                # intermediate arrays are locals of the analysis: a twin random state gives the background and the signal it will
                # generate from this seed (the background method, then the stub signal generator, draw from the same stream)
                scr = op['scr']
                w.set_bkg_method(w.fixed[scr])
                rss2 = w.RSS(seed=op.get('seed', 1))
                (_, bkg_t) = w.fixed[scr].generate_events(rss2, w.ds, w.data)
                sets = pf.cols_tok((f, bkg_t[f]) for f in pf.DOCUMENTED[scr])
                if op['k'] > 0:
                    sig_t = w.make_signal(rss2, op['k'])
                    w.sig_uid += op['k']          # the analysis draws the same events again below
                    sigtok = pf.cols_tok((n, sig_t[n]) for n in sig_t.field_name_list)
                    bkg_t.append(sig_t)
                else:
                    sigtok = 'N'
                lines.append('doTrial %s %s %s %s %%EVAL%%' % (scr, sets, sigtok, self.cfg_tokens(bkg_t)))
                w.ana.do_trial(rss, mean_n_sig=op['k'])
                lines[-1] = lines[-1].replace('%EVAL%', self.eval_line().split(' ', 1)[1])
                lines = self.fix_perm(lines)
            elif k == 'changeShg':
                # the real invalidation of the MC cache (MCDataSamplingBkgGenMethod.change_shg_mgr)
                w.mc_method.change_shg_mgr(w.shg)
                lines.append('resetCache')
            elif k == 'evaluate':
                if w.tdm.events is not None:
                    w.ana._llhratio.maximize(rss)
                lines.append(self.eval_line())
            elif k == 'unblind':
                lines.append('unblind ' + self.cfg_tokens(w.data.exp))
                lines.append('evaluate -')
                w.ana.unblind(rss)
                lines[-1] = self.eval_line()
                lines = self.fix_perm(lines)
            elif k == 'doTrial':        # oracle only (the intermediate containers are not observable)
                w.set_bkg_method(w.comp_method if op.get('mc') == 'comp' else w.mc_method if op.get('mc') else w.fixed[op['scr']])
                w.ana.do_trial(rss, mean_n_sig=op['k'])
                lines = None
            else:
                raise AssertionError(k)
        except (KeyError, ValueError, IndexError, TypeError) as e:
            if lines:
                lines = [ln.replace('%EVAL%', '-').replace('%PERM%', '-') for ln in lines]
            return ('err:' + type(e).__name__, lines, None)
        if new is not None:
            self.hs.append(new)
            self.kind.append('bkg' if k in ('genFixed', 'genMC', 'genComp', 'scrambleGen') else 'sig')
        return ('ok', lines, new)

    def observe(self):
        w = self.w
        obs = {'exp': w.data.exp, 'mc': w.data.mc}
        for i, h in enumerate(self.hs):
            obs['h%d' % i] = h
        if w.tdm.events is not None:
            obs['events'] = w.tdm.events
        c = getattr(w.mc_method, '_cache_mc', None)
        if c is not None:
            obs['cache'] = c
        return obs


# ------------------------------------------------------------------------------------------
# generators of histories

def gen_history(rng, length, with_dotrial=False, spec=None):
    scrs = pf.scramblers_for(spec) if spec else pf.SCRAMBLERS
    ops, nh = [], 0
    while len(ops) < length:
        ks = ['genFixed', 'genFixed', 'genMC', 'genMC', 'genMC', 'genComp', 'genComp', 'genSig', 'genSigReal', 'genSigReal', 'unblind', 'evaluate', 'changeShg']
        if with_dotrial:
            ks += ['genSigRealRanges']
        ks += ['inject', 'trialBkgSig7', 'doTrialFixed', 'doTrialFixed']
        if nh:
            ks += ['sigMerge', 'sigMerge', 'initTrial', 'doTrialGiven', 'trialBkgSig', 'trialBkgSig', 'scrambleGen', 'scrambleGen', 'inject',
                   'trialBkgSig7', 'trialBkgSig7']
        if with_dotrial:
            ks += ['doTrial', 'doTrial']
        k = rng.choice(ks)
        op = {'op': k, 'seed': rng.randrange(1, 10**6)}
        if k == 'genFixed':
            op['scr'] = rng.choice(scrs)
            nh += 1
        elif k in ('genMC', 'genComp'):
            if rng.random() < 0.35:
                op['mean'] = rng.choice([87.3, 1000.0 / 7.0, 3.7, 12.0, 0.4, 41.25, 250.4])
            if rng.random() < 0.25:
                op['poisson'] = False
            nh += 1
        elif k == 'genSig':
            op['k'] = rng.choice([1, 2, 3])
            nh += 1
        elif k in ('genSigReal', 'genSigRealRanges'):
            op['k'] = rng.choice([1, 1, 2, 4, 7])
            nh += 1
        elif k == 'sigMerge':
            op['b'] = rng.randrange(nh)
            op['k'] = rng.choice([0, 1, 2])
        elif k == 'doTrialFixed':
            op['scr'] = rng.choice(scrs)
            op['k'] = rng.choice([0, 0, 1, 2, 3])
        elif k == 'scrambleGen':
            op['h'] = rng.randrange(100)
            op['copy'] = rng.random() < 0.5
            op['copy_form'] = rng.choice(['bool', 'bool', 'int', 'np'])
            op['scr'] = rng.choice(scrs)
            nh += 1 if op['copy'] else 0
        elif k == 'inject':
            op['b'] = rng.choice([None, rng.randrange(100)]) if nh else None
            op['k'] = rng.choice([0, 1, 2, 3])
            nh += 1 if (op['b'] is None and op['k']) else 0
        elif k == 'trialBkgSig7':
            op['b'] = rng.choice([None, rng.randrange(100), rng.randrange(100)]) if nh else None
            op['s'] = rng.choice([None, rng.randrange(100), rng.randrange(100)]) if nh else None
        elif k == 'trialBkgSig':
            op['b'], op['s'] = rng.randrange(nh), rng.randrange(nh)
        elif k in ('initTrial', 'doTrialGiven'):
            op['e'] = rng.randrange(nh)
        elif k == 'doTrial':
            op['k'] = rng.choice([0, 2])
            op['mc'] = rng.choice([False, True, 'comp'])
            op['scr'] = rng.choice(scrs)
        ops.append(op)
    return ops


# ------------------------------------------------------------------------------------------
# property oracles (implementation only)

def frame_check(case, counts=None):
    """None | (mode, opname, step, text): byte snapshot of data.exp / data.mc after every operation"""
    r = Runner(case['spec'])
    for k, op in enumerate(case['ops']):
        try:
            res = r.apply(op)
        except IndexError:
            return None       # malformed (shrunk) history: a handle that does not exist
        scr = op.get('scr') if op['op'] in ('genFixed', 'scrambleGen') else (case['spec']['mc_variant']['scr'] if op['op'] in ('genMC', 'genComp') else None)
        if scr is not None and res[0] == 'ok' and res[2] is not None:
            bad = ra_range_check(case['spec'], scr, res[2]['ra'])
            if bad:
                return ('ra-range', op['op'], k, 'step %d (%s): %s' % (k, op['op'], bad))
        bad = r7_check(r, op, res, case['spec'])
        if bad:
            return (bad[0], op['op'], k, 'step %d (%s): %s' % (k, op['op'], bad[1]))
        bad = fieldset_check(r, op, res)
        if bad:
            return ('field-set', op['op'], k, 'step %d (%s): %s' % (k, op['op'], bad))
        bad = count_check(r, op, res, counts)
        if bad:
            return ('event-count', op['op'], k, 'step %d (%s): %s' % (k, op['op'], bad))
        bad = contract_check(r, op, res, scr)
        if bad:
            return ('contract', op['op'], k, 'step %d (%s): %s' % (k, op['op'], bad))
        for which, (a, sha0, cols0, id0) in enumerate(zip((r.w.data.exp, r.w.data.mc), r.sha0, r.cols0, r.ids0)):
            nm = 'data.exp' if which == 0 else 'data.mc'
            if id(a) != id0:
                return ('replaced', op['op'], k, 'step %d (%s): %s is a different object afterwards' % (k, op['op'], nm))
            if pf.sha(a) != sha0:
                now = pf.colshas(a)
                changed = [n for n in cols0 if n in now and now[n] != cols0[n]]
                added = [n for n in now if n not in cols0]
                removed = [n for n in cols0 if n not in now]
                order = list(now) != list(cols0) and not added and not removed
                what = []
                for n in changed:
                    what.append('field %r changed' % n)
                return ('stored-data-changed', op['op'], k,
                        'step %d (%s, result %s): stored %s is altered: changed fields %r, added %r, removed %r%s, length %d' % (
                            k, op['op'], res[0], nm, changed, added, removed, ', field order changed' if order else '', len(a)))
    return None


def r7_check(r, op, res, spec):
    """round 7, implementation only: the contract of DataScrambler.scramble_data for either value of `copy` on a generated
    array, and of the signal-injection loop of Analysis.generate_signal_events (None events, mean_n_sig == 0, append)"""
    if res[0] != 'ok':
        return None
    if op['op'] == 'scrambleGen' and getattr(r, 'last_scr', None):
        scr, out, before, e = r.last_scr
        doc = pf.DOCUMENTED[scr]
        if op['copy'] and out is e:
            return ('contract', 'scramble_data(copy=True) returned the array it was given')
        if not op['copy'] and out is not e:
            return None                 # (an implementation that copies although it need not: not observable through the data)
        bad = ra_range_check(spec, scr, out['ra'])
        if bad:
            return ('ra-range', bad)
        if len(out) != len(e):
            return ('contract', 'scramble_data changed the number of events from %d to %d' % (len(e), len(out)))
        for n, (dt, raw) in before.items():
            if n not in out:
                return ('contract', 'field %r is missing after scramble_data' % n)
            if n not in doc and (out[n].dtype != dt or out[n].tobytes() != raw):
                return ('contract', 'field %r is not documented to change by %s scrambling but differs after scramble_data(copy=%s)' % (n, scr, op['copy']))
            if op['copy']:
                if e[n].dtype != dt or e[n].tobytes() != raw:
                    return ('contract', 'scramble_data(copy=True) altered field %r of the array it was given' % n)
                if out[n].size and np.shares_memory(out[n], e[n]):
                    return ('contract', 'field %r of the scrambled copy shares memory with the array that was given' % n)
    if op['op'] == 'inject' and getattr(r, 'last_inject', None):
        n_before, k, n_after, ev, b = r.last_inject
        if k == 0:
            if ev is not b or n_after != n_before:
                return ('event-count', 'generate_signal_events(mean_n_sig=0) changed the pseudo data (%d -> %d events reported)' % (n_before, n_after))
        elif ev is None or n_after != len(ev) or (b is not None and ev is not b):
            return ('event-count', 'generate_signal_events reports %d events, the pseudo data hold %s (given: %s with %d events)' % (
                n_after, 'None' if ev is None else len(ev), 'None' if b is None else 'an array', n_before))
    return None


def count_check(r, op, res, counts=None):
    """the generated array holds the number of events that is reported: for the scrambled experimental data the number of
    experimental events; for the MC methods n_bkg scaled by the fraction of the expected background that survives the
    pre-selection (exactly n_bkg without pre-selection), rounded; with poisson=False n_bkg is the rounded expected mean.
    `counts` collects (n_bkg, mean_pre_selected, mean, len) for the bit-level comparison with the model."""
    from fractions import Fraction
    new = res[2]
    if res[0] != 'ok' or new is None or op['op'] not in ('genFixed', 'genMC', 'genComp'):
        return None
    (n_bkg, explicit) = r.last_count
    w = r.w
    if op['op'] == 'genFixed':
        if not (n_bkg == len(new) == len(w.data.exp)):
            return 'reported %d background events, the generated array has %d, the experimental data %d' % (n_bkg, len(new), len(w.data.exp))
        return None
    presel = w.spec['mc_variant']['presel']
    m_all = w.mean_func(None, None, w.mc)
    mean = float(explicit) if explicit is not None else m_all
    m_sel = w.mean_func(None, None, w.mc[np.arange(len(w.mc))[::2]]) if presel else mean
    if op.get('poisson') is False and n_bkg != int(np.round(mean, 0)):
        return 'poisson=False: reported n_bkg=%d for the expected mean %r' % (n_bkg, mean)
    if mean == 0:
        return None
    exact = Fraction(n_bkg) * Fraction(m_sel) / Fraction(mean)
    lo = exact.numerator // exact.denominator
    frac = exact - lo
    ok = {lo} if frac < Fraction(1, 2) - Fraction(1, 10**9) else {lo + 1} if frac > Fraction(1, 2) + Fraction(1, 10**9) else {lo, lo + 1}
    if counts is not None:
        counts.append((n_bkg, m_sel, mean, len(new)))
    if len(new) not in ok:
        return ('reported n_bkg=%d background events (expected mean %r%s), the generated array holds %d events instead of %s' % (
            n_bkg, mean, ', pre-selected mean %r' % m_sel if presel else ', no pre-selection', len(new), ' or '.join(str(x) for x in sorted(ok))))
    return None


def contract_check(r, op, res, scr):
    """the scrambling contract inside a history: a generated background differs from its origin (data.exp for the fixed
    method, the drawn rows of data.mc for the MC methods) only in the fields the scrambling method documents; those keep
    the dtype of the stored field where the method promises it (uniform RA); same number of events for the fixed method"""
    new = res[2]
    if res[0] != 'ok' or new is None or op['op'] not in ('genFixed', 'genMC', 'genComp'):
        return None
    doc = pf.DOCUMENTED[scr] if scr else []
    w = r.w
    # every call generates its own sample: the new array is not, and shares no memory with, an earlier generated one
    for i, h in enumerate(r.hs[:-1]):
        if h is new:
            return 'the generated background is the very array object returned as generated array #%d' % i
        for n in new.field_name_list:
            if n in h and new[n].size and np.shares_memory(new[n], h[n]):
                return 'field %r of the generated background shares memory with generated array #%d' % (n, i)
    if op['op'] == 'genFixed':
        if len(new) != len(w.data.exp):
            return 'the scrambled copy has %d events, the experimental data %d' % (len(new), len(w.data.exp))
        origin = w.data.exp
        rows = None
    else:
        origin = w.data.mc
        pos = {u: i for i, u in enumerate(sf.ivals(origin['uid']))}
        try:
            rows = np.array([pos[u] for u in sf.ivals(new['uid'])], dtype=np.int64)
        except KeyError as e:
            return 'generated event with uid %s is no MC event' % e
    for n in new.field_name_list:
        if n not in origin:
            continue
        want = origin[n] if rows is None else origin[n][rows]
        if n in doc:
            if scr in ('uniform', 'uniform_range') and new[n].dtype != origin[n].dtype:
                return 'field %r of the scrambled events has dtype %s, the stored field %s' % (n, new[n].dtype, origin[n].dtype)
            continue
        if new[n].dtype != origin[n].dtype or new[n].tobytes() != np.ascontiguousarray(want).tobytes():
            return 'field %r is not documented to change by %s scrambling but differs from its origin (dtype %s -> %s)' % (
                n, scr, origin[n].dtype, new[n].dtype)
    return None


def fieldset_check(r, op, res):
    """every generated background / pseudo-data array carries every field of the experimental data; a background
    sampled from MC carries exactly the experimental field set (+ the data fields the analysis asks for at
    ANALYSIS_EXP stage when MC has them); no shared memory with the stored data"""
    exp_fields = list(r.cols0[0])
    want = set(exp_fields)
    new = res[2]
    if res[0] == 'ok' and new is not None:
        got = list(new.field_name_list)
        missing = [n for n in exp_fields if n not in got]
        if missing:
            return 'the generated events miss the experimental data field(s) %r (fields %r)' % (missing, got)
        if op['op'] in ('genFixed', 'genMC', 'genComp'):
            allowed = want | (set(r.w.exp_field_names()) & set(r.cols0[1]))
            extra = [n for n in got if n not in allowed]
            if extra:
                return 'the generated background carries the non-experimental field(s) %r' % extra
            for n in got:
                if n not in new:
                    return 'field %r is listed but not stored in the generated background' % n
                if len(new[n]) != len(new):
                    return 'field %r of the generated background has %d rows, the array %d' % (n, len(new[n]), len(new))
    for i, h in enumerate(r.hs):
        missing = [n for n in exp_fields if n not in h.field_name_list]
        if missing:
            return 'generated array #%d misses the experimental data field(s) %r after the operation' % (i, missing)
        for stored, nm in ((r.w.data.exp, 'data.exp'), (r.w.data.mc, 'data.mc')):
            if h is stored:
                return 'generated array #%d is %s itself' % (i, nm)
            for n in h.field_name_list:
                if n in stored and h[n].size and np.shares_memory(h[n], stored[n]):
                    return 'field %r of generated array #%d shares memory with %s' % (n, i, nm)
    ev = r.w.tdm.events
    if ev is not None:
        missing = [n for n in exp_fields if n not in ev.field_name_list]
        if missing:
            return 'the trial data miss the experimental data field(s) %r' % missing
    return None


def o_frame(ctx, case):
    r = frame_check(case)
    return None if r is None else r[3]


def o_scramble(ctx, case, defer=None):
    """scrambling contract on a generated copy: only the documented fields change, same number of events, RA in range
    and (uniform methods) equal to lo + (hi - lo) * u for numpy's deviates.  `defer`: collect the model comparison
    for one driver batch instead of starting a driver here."""
    w = pf.World(case['spec'])
    scr = case['scr']
    rss = w.RSS(seed=case['seed'])
    if case.get('via') == 'scrambler':
        from skyllh.core.scrambling import DataScrambler
        out = DataScrambler(w.scr[scr]()).scramble_data(rss, w.ds, w.data.exp, copy=True)
    else:
        (_, out) = w.fixed[scr].generate_events(rss, w.ds, w.data)
    if out is w.data.exp:
        return 'scramble_data(copy=True) returned the stored container itself'
    if len(out) != len(w.data.exp):
        return '%s: %d events after scrambling %d' % (scr, len(out), len(w.data.exp))
    if list(out.field_name_list) != list(w.data.exp.field_name_list):
        return '%s: fields %r after scrambling %r' % (scr, out.field_name_list, w.data.exp.field_name_list)
    for n in w.data.exp.field_name_list:
        if n in pf.DOCUMENTED[scr]:
            continue
        a, b = out[n], w.data.exp[n]
        if a.dtype != b.dtype or a.tobytes() != b.tobytes():
            return '%s: field %r is not documented to change but differs (dtype %s -> %s)' % (scr, n, b.dtype, a.dtype)
        if a.size and np.shares_memory(a, b):
            return '%s: field %r of the scrambled copy shares memory with the stored data' % (scr, n)
    res = ra_range_check(case['spec'], scr, out['ra'])
    if res:
        return res
    if scr in ('uniform', 'uniform_range'):
        # the implementation's own deviates: uniform(lo, hi) = lo + (hi - lo) * u  (numpy, same stream)
        if defer is not None:
            if len(out):
                defer.append((case, np.array(out['ra'], copy=True)))
        else:
            res = ra_exact_check(ctx, case, out['ra'])
            if res:
                return res
    if pf.sha(w.data.exp) != pf.sha(pf.World(case['spec']).data.exp):
        return '%s: the stored experimental data changed' % scr
    return None


def ra_range_check(spec, scr, ra_arr):
    """right ascension inside the configured range.  The array has the dtype of the stored `ra` field; rounding to
    that dtype is monotone, so x in [lo, hi] implies dtype(x) in [dtype(lo), dtype(hi)] — checked exactly.  The upper
    bound is closed (uniform: float rounding of lo + (hi-lo)*u; time scrambling: np.mod of a tiny negative is 2pi)."""
    lo, hi = pf.ra_range_of(spec, scr)
    ra_arr = np.asarray(ra_arr)
    dt = ra_arr.dtype.type
    lo_d, hi_d = float(dt(lo)), float(dt(hi))
    ra = ra_arr.astype(np.float64)
    if scr in ('i3time', 'seasonal') and len(ra) and np.max(ra) >= pf.TWO_PI:
        # azi_to_ra_transform reduces twice: the result is in the half-open range
        return '%s: right ascension %r is not below 2*pi' % (scr, float(np.max(ra)))
    if len(ra) and (not np.all(np.isfinite(ra)) or np.min(ra) < min(lo, lo_d) or np.max(ra) > max(hi, hi_d)):
        bad = ra[(ra < min(lo, lo_d)) | (ra > max(hi, hi_d)) | ~np.isfinite(ra)]
        return '%s: %d of %d right ascensions outside the configured range [%r, %r] (dtype %s): e.g. %r; min %r max %r' % (
            scr, len(bad), len(ra), lo, hi, ra_arr.dtype, float(bad[0]), float(np.min(ra)), float(np.max(ra)))
    return None


def ra_model_request(case, n):
    """request line for Driver/C07: uniformRA lo hi <the deviates numpy draws for this seed>"""
    from harness.core import f2b, flist
    from skyllh.core.random import RandomStateService
    lo, hi = pf.ra_range_of(case['spec'], case['scr'])
    us = RandomStateService(seed=case['seed']).random.random_sample(n)
    if case['scr'] == 'uniform':
        # ra_range=None: the model takes the default range from the current source (Generated/C07.lean)
        return 'defaultRa %s' % flist(us)
    return 'uniformRA %s %s %s' % (f2b(lo), f2b(hi), flist(us))


def ra_model_compare(case, ra_arr, answer):
    """bit-exact (diagnostic) then 1e-12-relative (verdict level for values) comparison with the model"""
    from harness.core import parse_flist
    ra_arr = np.asarray(ra_arr)
    want64 = np.array(parse_flist(answer), dtype=np.float64)
    want = want64.astype(ra_arr.dtype)
    if len(want) != len(ra_arr):
        return 'uniform RA: %d values, model %d' % (len(ra_arr), len(want))
    if want.tobytes() == ra_arr.tobytes():
        return None
    lo, hi = pf.ra_range_of(case['spec'], case['scr'])
    tol = 1e-12 * (abs(lo) + abs(hi) + 1.0) + (1e-6 * (abs(lo) + abs(hi) + 1.0) if ra_arr.dtype == np.float32 else 0.0)
    d = np.abs(ra_arr.astype(np.float64) - want64)
    if np.all(d <= tol):
        return None
    i = int(np.argmax(d))
    return '%s: scrambled right ascension is not lo + (hi - lo) * u for range (%r, %r): row %d is %r, model %r' % (
        case['scr'], lo, hi, i, float(ra_arr[i]), float(want64[i]))


def ra_exact_check(ctx, case, ra_arr):
    if len(ra_arr) == 0:
        return None
    ans = ctx.driver('C07', [ra_model_request(case, len(ra_arr))])[0]
    return ra_model_compare(case, ra_arr, ans)


# ------------------------------------------------------------------------------------------
# correspondence

DIAG = {'cache_differs_from_model': 0, 'sharing_among_generated_differs': 0}


def parse_head(tok):
    d = dict(x.split('=') for x in tok.split(' '))
    return {k: (None if v == 'N' else int(v)) for k, v in d.items()}


def corr_prepare(case):
    """run the history on the implementation; returns (request lines, plan)"""
    r = Runner(case['spec'])
    lines = list(r.lines)
    plan = []           # per op: (op, impl result, offsets of its lines, new handle?, observation snapshot, sharing)
    for op in case['ops']:
        res, ls, new = r.apply(op)
        obs_c = r.observe()
        obs = {nm: usnap(a) for nm, a in obs_c.items()}
        same = {nm: [n2 for n2, a2 in obs_c.items() if a2 is a] for nm, a in obs_c.items()}
        plan.append((op, res, (len(lines), len(lines) + len(ls or [])), new is not None, obs, sharing_named(obs_c), same))
        lines += (ls or [])
    return lines, plan


def corr_history(ctx, case):
    lines, plan = corr_prepare(case)
    return corr_eval(lines, plan, ctx.driver('C07', lines))


def sharing_named(obs):
    sl = []
    for nm, a in obs.items():
        for f in a.field_name_list:
            try:
                arr = a[f]
            except KeyError:
                continue
            if arr.size:
                sl.append((nm, f, arr))
    out = set()
    for i in range(len(sl)):
        for j in range(i + 1, len(sl)):
            if np.may_share_memory(sl[i][2], sl[j][2]) and np.shares_memory(sl[i][2], sl[j][2]):
                out.add((sl[i][0], sl[i][1], sl[j][0], sl[j][1]))
    return out


def corr_eval(lines, plan, answers):
    hid, nh = {}, 0
    for k, (op, res, (lo, hi), has_new, obs, share, same) in enumerate(plan):
        if hi == lo:
            continue
        errs, new_id, last = 0, None, None
        for ln, last in zip(lines[lo:hi], answers[lo:hi]):
            if last == 'bad-op':
                return 'step %d: driver does not understand %r' % (k, ln)
            head = parse_head(last.split(' | ')[0])
            errs += head['errs']
            if head.get('same') == 0:
                return 'step %d (%s): the model\'s Pseudo.doTrial differs from its staged replay in the driver' % (k, op['op'])
            if ln.startswith(('genFixed', 'genMC', 'genComp', 'genSig ', 'genSigMC', 'fixedBkg', 'scramble ', 'inject ')):
                new_id = head['h']
        mres = 'ok' if errs == 0 else 'err'
        if (res == 'ok') != (mres == 'ok'):
            return 'step %d (%s): implementation %s, model %s (%d failing container operations)' % (k, op['op'], res, mres, errs)
        if has_new:
            hid[nh] = new_id
            nh += 1
        head_tok, hd, td = last.split(' | ')
        head = parse_head(head_tok)
        hs, locs = sf.parse_H(hd, UNIVERSE)
        ts = sf.parse_T(td, UNIVERSE)
        ids = {'exp': 0, 'mc': 1}
        for i, m in hid.items():
            ids['h%d' % i] = m
        if 'events' in obs:
            if head['events'] is None:
                return 'step %d (%s): tdm.events is set, the model has no events container' % (k, op['op'])
            ids['events'] = head['events']
        if 'cache' in obs and head['cache'] is not None:
            ids['cache'] = head['cache']
        for nm, g in obs.items():
            if nm not in ids:
                continue
            for layer, snaps in (('heap model', hs), ('table model', ts)):
                d = sf.snap_diff(g, snaps[ids[nm]])
                if d and nm == 'cache':
                    DIAG['cache_differs_from_model'] += 1      # how the method caches MC is not part of the property
                    break
                if d:
                    return 'step %d (%s): %s differs in %r: implementation %r, %s %r' % (
                        k, op['op'], nm, d, _short(g[d]), layer, _short(snaps[ids[nm]][d]))
        # memory sharing among the observed containers
        name_of = {}
        for nm, m in ids.items():
            name_of.setdefault(m, nm)
        byloc = {}
        for ci, f, loc in locs:
            if ci in name_of:
                byloc.setdefault(loc, set()).add((name_of[ci], f))
        pred = set()
        for v in byloc.values():
            v = sorted(v)
            for i in range(len(v)):
                for j in range(i + 1, len(v)):
                    pred.add((v[i][0], v[i][1], v[j][0], v[j][1]))
        canon = lambda s: set(tuple(sorted([(a, b), (c, d)])) for a, b, c, d in s)   # noqa: E731
        alias = {nm: name_of[ids[nm]] for nm in ids}
        got = set()
        for a, b, c, d in share:
            if a in alias and c in alias and alias[a] != alias[c]:
                got.add((alias[a], b, alias[c], d))
        stored = lambda p_: any(x[0] in ('exp', 'mc') for x in p_)   # noqa: E731
        if canon(got) != canon(pred) and not [p_ for p_ in canon(got) - canon(pred) if stored(p_)]:
            DIAG['sharing_among_generated_differs'] += 1    # only sharing with the stored data is part of the verdict
        elif canon(got) != canon(pred):
            return 'step %d (%s): memory sharing: implementation %r, model %r' % (k, op['op'], sorted(canon(got))[:3], sorted(canon(pred))[:3])
    return None


def _short(x):
    s = repr(x)
    return s if len(s) < 300 else s[:300] + '…'


R7_BRANCHES = ['scrambleData:copy', 'scrambleData:in-place', 'fixedBkg:copy keyword of the source', 'inject:no signal (mean_n_sig=0)',
               'injectPlan:events None -> the signal container', 'injectPlan:append', 'runHE:append raises, call aborted',
               'trial:None,None raises', 'trial:None background, signal adopted', 'trial:no signal', 'trial:merge then trial',
               'trial:merge raises, trial not initialised', 'doTrial:no signal', 'doTrial:signal injected']


def r7_branch(line, answer):
    """which branch of the round-7 model functions a request went through (from the request and the model's answer)"""
    t = line.split(' ')
    ret = ' ret=1 ' in answer.split(' | ')[0] + ' '
    if t[0] == 'scramble':
        return 'scrambleData:copy' if t[2] == '1' else 'scrambleData:in-place'
    if t[0] == 'fixedBkg':
        return 'fixedBkg:copy keyword of the source'
    if t[0] == 'inject':
        if t[2] == 'N':
            return 'inject:no signal (mean_n_sig=0)'
        if t[1] == 'N':
            return 'injectPlan:events None -> the signal container'
        return 'injectPlan:append' if ret else 'runHE:append raises, call aborted'
    if t[0] == 'doTrial':
        return 'doTrial:no signal' if t[3] == 'N' else 'doTrial:signal injected'
    if t[0] == 'trialBkgSig':
        if t[1] == 'N' and t[2] == 'N':
            return 'trial:None,None raises'
        if t[1] == 'N':
            return 'trial:None background, signal adopted'
        if t[2] == 'N':
            return 'trial:no signal'
        return 'trial:merge then trial' if ret else 'trial:merge raises, trial not initialised'
    return None


def directed_r7(rng, i):
    """a history through every branch of scrambleData / injectPlan / compile7 / runHE; odd i: the experimental data lack a field
    the MC background carries, so that appending the stub signal raises"""
    while True:
        spec = pf.gen_spec(rng)
        if (i % 2 == 0) or spec.get('exp_lacks'):
            break
    scrs = pf.scramblers_for(spec)
    sd = lambda: rng.randrange(1, 10**6)    # noqa: E731
    ops = [{'op': 'genMC' if i % 2 else 'genFixed', 'seed': sd(), 'scr': rng.choice(scrs)},
           {'op': 'scrambleGen', 'seed': sd(), 'h': 0, 'copy': True, 'scr': rng.choice(scrs)},
           {'op': 'scrambleGen', 'seed': sd(), 'h': 1, 'copy': False, 'scr': rng.choice(scrs)},
           {'op': 'inject', 'seed': sd(), 'b': None, 'k': 2},
           {'op': 'inject', 'seed': sd(), 'b': 0, 'k': 1},
           {'op': 'inject', 'seed': sd(), 'b': 1, 'k': 0},
           {'op': 'trialBkgSig7', 'seed': sd(), 'b': 0, 's': 2},
           {'op': 'trialBkgSig7', 'seed': sd(), 'b': None, 's': 2},
           {'op': 'trialBkgSig7', 'seed': sd(), 'b': 1, 's': None},
           {'op': 'trialBkgSig7', 'seed': sd(), 'b': None, 's': None}]
    return {'spec': spec, 'ops': ops}


def o_corr(ctx, case):
    return corr_history(ctx, case)


def ra_class(r):
    lo, hi = r
    if lo == hi:
        return 'zero-width'
    if hi - lo <= 1e-6:
        return 'tiny'
    if hi <= 0:
        return 'below-0'
    if lo >= pf.TWO_PI:
        return 'above-2pi'
    if lo < 0 and hi > pf.TWO_PI:
        return 'wide'
    if lo < 0:
        return 'straddles-0'
    if hi > pf.TWO_PI:
        return 'straddles-2pi'
    return 'inside'


def scr_signature(case, res):
    mode = 'ra-range' if 'outside the configured range' in res else 'ra-value' if 'is not lo +' in res else 'contract'
    return 'C07/scramble/%s/%s' % (case['scr'], mode)


def o_ra_corner(ctx, case):
    """directed corner of skyllh.i3.coords.azi_to_ra_transform: an azimuth one float above the local sidereal angle makes
    the first np.mod return exactly 2*pi; the transform must still answer inside [0, 2*pi)"""
    from skyllh.i3.utils.coords import azi_to_ra_transform
    mjd = np.array(case['mjds'], dtype=np.float64)
    base = azi_to_ra_transform(np.zeros_like(mjd), mjd)       # = angle(mjd) mod 2*pi, the value the azimuth is subtracted from
    for ulps in case['ulps']:
        azi = base.copy()
        for _ in range(abs(ulps)):
            azi = np.nextafter(azi, np.inf if ulps > 0 else -np.inf)
        for a in (azi, np.mod(azi, pf.TWO_PI)):
            ra = azi_to_ra_transform(a, mjd)
            if not np.all((ra >= 0) & (ra < pf.TWO_PI)):
                i = int(np.argmax(~((ra >= 0) & (ra < pf.TWO_PI))))
                return 'azi_to_ra_transform(azi=%r, mjd=%r) = %r is outside [0, 2*pi)' % (float(a[i]), float(mjd[i]), float(ra[i]))
    return None


def o_count_model(ctx, case):
    """the recorded number of events of a generated background vs. the executable model nBkgSelected"""
    from harness.core import f2b
    ans = ctx.driver('C07', ['nbkg %d %s %s' % (case['n_bkg'], f2b(case['mean_pre_selected']), f2b(case['mean']))])[0]
    if int(ans) != case['len']:
        return 'the implementation drew %d events, the model around(n_bkg*mean_pre_selected/mean) gives %s (n_bkg=%d, mean_pre_selected=%r, mean=%r)' % (
            case['len'], ans, case['n_bkg'], case['mean_pre_selected'], case['mean'])
    return None


def o_scramble_corner(ctx, case):
    """directed 2*pi corner of the time scrambling *methods* (not only of the coordinate transform) on data sets with narrow
    dtypes: the azimuths are crafted for the times the method generates with this seed (learnt from a first run with a twin
    random state: the times depend on the random stream and the number of events only), so that the scrambled right ascension
    lands a few 1e-8 below 2*pi; whatever dtype the method gives the generated `ra` field, its values must lie in [0, 2*pi)."""
    from skyllh.core.scrambling import DataScrambler
    from skyllh.i3.utils.coords import azi_to_ra_transform
    w = pf.World(case['spec'])
    scr = case['scr']
    if len(w.data.exp) == 0:
        return None
    first = DataScrambler(w.scr[scr]()).scramble_data(w.RSS(seed=case['seed']), w.ds, w.data.exp, copy=True)
    times = np.asarray(first['time'], dtype=np.float64)
    base = azi_to_ra_transform(np.zeros_like(times), times)        # the angle the azimuth is subtracted from, in [0, 2*pi)
    deltas = np.resize(np.array(case['deltas'], dtype=np.float64), len(times))
    azi = base + deltas                                              # scrambled ra = mod(base - azi) = 2*pi - delta
    azi = np.where((azi >= 0) & (azi < pf.TWO_PI), azi, base)
    w.exp['azi'] = azi.astype(np.float64 if case.get('azi64') else w.exp['azi'].dtype)
    stored = pf.sha(w.data.exp)
    out = DataScrambler(w.scr[scr]()).scramble_data(w.RSS(seed=case['seed']), w.ds, w.data.exp, copy=True)
    if not np.array_equal(np.asarray(out['time'], dtype=np.float64), times):
        return None        # (the times depend on the data after all: the corner cannot be placed this way)
    ra = np.asarray(out['ra'])
    ra64 = ra.astype(np.float64)
    bad = ~((ra64 >= 0) & (ra64 < pf.TWO_PI))
    if np.any(bad):
        i = int(np.argmax(bad))
        return ('%s scrambling of a data set with %s ra / %s azi: event %d (azimuth %r, generated time %r) gets the right ascension %r '
                '(dtype %s), which is not inside [0, 2*pi)' % (scr, w.data.exp['ra'].dtype, w.data.exp['azi'].dtype, i,
                                                                 float(w.data.exp['azi'][i]), float(times[i]), float(ra64[i]), ra.dtype))
    if pf.sha(w.data.exp) != stored:
        return '%s: the stored experimental data changed' % scr
    return None


ORACLES = {'scramble_corner': o_scramble_corner, 'count_model': o_count_model, 'ra_corner': o_ra_corner, 'frame': o_frame, 'scramble': o_scramble, 'corr': o_corr}


def shrink(case, mode):
    r = frame_check(case)
    if r is None:
        return case
    ops = list(case['ops'][:r[2] + 1])
    i = len(ops) - 2
    while i >= 0:
        if ops[i]['op'] not in ('genFixed', 'genMC', 'genComp', 'genSig', 'genSigReal', 'genSigRealRanges', 'scrambleGen', 'inject'):       # removing those shifts the handle numbers
            cand = ops[:i] + ops[i + 1:]
            rr = frame_check({'spec': case['spec'], 'ops': cand})
            if rr is not None and rr[0] == mode:
                ops = cand
        i -= 1
    # unreferenced generators at the end of the prefix
    while len(ops) > 1 and ops[0]['op'] in ('genFixed', 'genMC', 'genComp', 'genSig', 'genSigReal', 'genSigRealRanges') and not any(
            o.get('b') is not None or o.get('e') is not None or o.get('s') is not None for o in ops[1:]):
        cand = ops[1:]
        rr = frame_check({'spec': case['spec'], 'ops': cand})
        if rr is not None and rr[0] == mode:
            ops = cand
        else:
            break
    return {'spec': case['spec'], 'ops': ops}


def run(ctx):
    rng = ctx.rng
    ctx.rule = ('histories over {generate background with FixedScrambledExpData x 5 scrambling methods / MCDataSampling and '
                'CompositeMCDataSampling (with and without scrambler and pre-selection, keep_mc_data_fields none / partial / all MC-only / '
                'overlapping experimental fields), generate signal, merge signal into a generated background, initialise a trial on '
                'generated data, do_trial_with_given_(bkg_and_sig_)pseudo_data, evaluate, unblind, do_trial} on synthetic data sets with '
                'extra user fields (int64 id, bool flag) and narrow dtypes (float32, int16), any seed, trial data managers with and without '
                'index field / event selection / static data fields; distinct = distinct (data set spec, history)')
    ctx.trusted_base += ['correspondence harness harness/props/c07.py + harness/pseudo_fixtures.py (exact comparison, values as bit patterns)',
                         'stub llhratio / pmm / test statistic / signal generator / event selection implementing the repository interfaces',
                         'scrambled values, drawn indices and the argsort permutation are inputs of the model (taken from the implementation)']
    ctx.trusted_base += ['do_trial end to end: the background and signal the analysis generates from a seed are obtained from a twin random state '
                         '(background method, then the stub signal generator, on the same stream)']
    ctx.assumptions += ['data-field functions and generators return arrays not referenced by the stored data',
                        'one MCDataSamplingBkgGenMethod instance per history (one _cache_mc)']
    # ---- scrambling contract
    deferred = []
    for i in range(ctx.n(60, 1200)):
        spec = pf.gen_spec(rng)
        case = {'spec': spec, 'scr': rng.choice(pf.scramblers_for(spec) + ['uniform_range', 'uniform_range']), 'seed': rng.randrange(10**6),
                'via': rng.choice(['scrambler', 'bkg'])}
        ctx.count('scramble:' + case['scr'])
        ctx.case(key=('scr', case), desc={'oracle': 'scramble', 'case': case} if i % 199 == 0 else None)
        ctx.count('ra_range:' + ra_class(pf.ra_range_of(spec, case['scr'])) if case['scr'].startswith('uniform') else 'ra_range:[0,2pi)')
        res = o_scramble(ctx, case, defer=deferred)
        if res:
            ctx.violation('scramble', case, res, signature=scr_signature(case, res))
    if deferred:
        answers = ctx.driver('C07', [ra_model_request(c, len(ra)) for c, ra in deferred])
        for (c, ra), ans in zip(deferred, answers):
            ctx.count('ra_model_compared')
            res = ra_model_compare(c, ra, ans)
            if res:
                # look for a failing input with the range oracle first (it already passed above: report the value relation)
                ctx.violation('scramble', c, res, signature=scr_signature(c, res))
    # ---- directed corner of the time scramblers' coordinate transform
    for i in range(ctx.n(20, 200)):
        case = {'mjds': [0.0] + [55000.0 + rng.random() * 3000 for _ in range(30)] + [k * 0.99726956633 for k in range(1, 8)],
                'ulps': [-2, -1, 0, 1, 2, 3]}
        ctx.count('ra_corner')
        ctx.case(key=('corner', case))
        res = o_ra_corner(ctx, case)
        if res:
            ctx.violation('ra_corner', case, res, signature='C07/scramble/azi_to_ra/half-open-range')
    # ---- the 2*pi corner through the time scrambling methods, narrow and wide dtypes
    for i in range(ctx.n(60, 600)):
        spec = pf.gen_spec(rng)
        spec['n_exp'] = rng.choice([3, 8, 13, 30])
        spec['narrow'] = rng.random() < 0.8
        case = {'spec': spec, 'scr': rng.choice(['i3time', 'seasonal']), 'seed': rng.randrange(10**6), 'azi64': rng.random() < 0.5,
                'deltas': [1e-9, 3e-8, 6e-8, 1.2e-7, 4.4e-16, 0.0, 2e-8, -1e-9, 5e-8, 1e-8]}
        ctx.count('scramble_corner:%s:%s' % (case['scr'], 'float32' if spec['narrow'] else 'float64'))
        ctx.case(key=('scrcorner', case), desc={'oracle': 'scramble_corner', 'case': case} if i % 299 == 0 else None)
        res = o_scramble_corner(ctx, case)
        if res:
            ctx.violation('scramble_corner', case, res, signature='C07/scramble/%s/ra-corner' % case['scr'])
    # ---- byte snapshots over histories (incl. Analysis.do_trial)
    counts = []
    maxlen = ctx.n(4, 6)
    for i in range(ctx.n(250, 6000)):
        spec = pf.gen_spec(rng)
        ops = gen_history(rng, rng.randrange(1, maxlen + 1), with_dotrial=True, spec=spec)
        case = {'spec': spec, 'ops': ops}
        ctx.count('class:n_exp=%s' % ('0' if spec['n_exp'] == 0 else '1' if spec['n_exp'] == 1 else '>1'))
        ctx.count('class:exp_lacks=%s' % ('+'.join(spec.get('exp_lacks', [])) or 'nothing'))
        ctx.count('class:%s dtypes' % ('narrow' if spec['narrow'] else 'wide'))
        for op in ops:
            ctx.count('frame-op:' + op['op'])
        ctx.case(key=('frame', case), desc={'oracle': 'frame', 'case': case} if i % 499 == 0 else None)
        r = frame_check(case, counts)
        if r:
            small = shrink(case, r[0])
            r2 = frame_check(small) or r
            ctx.violation('frame', small, r2[3], signature='C07/%s/%s' % (r2[1], r2[0]))
    # ---- the number of drawn events: implementation vs. the executable model nBkgSelected (IEEE, same order of operations)
    if counts:
        from harness.core import f2b
        answers = ctx.driver('C07', ['nbkg %d %s %s' % (n, f2b(ms), f2b(m)) for n, ms, m, _ in counts])
        for (n, ms, m, got), ans in zip(counts, answers):
            ctx.count('count_model_compared')
            ctx.count('class:expected mean %s' % ('integer' if float(m).is_integer() else 'non-integer'))
            if int(ans) != got:
                ctx.violation('count_model', {'n_bkg': n, 'mean_pre_selected': ms, 'mean': m, 'len': got},
                              'number of drawn events: implementation %d, model around(n_bkg*mean_pre_selected/mean) = %s for n_bkg=%d, mean_pre_selected=%r, mean=%r' % (got, ans, n, ms, m),
                              kind='correspondence', relation='exact (IEEE, same order of operations)', signature='C07/corr/event-count', no_failing_input=True)
    # ---- correspondence with the heap model (one driver batch)
    dis = 0
    batch, all_lines = [], []
    n_dir = ctx.n(8, 40)
    for i in range(ctx.n(300, 4500)):
        if i < n_dir:
            case = directed_r7(rng, i)
            ops = case['ops']
            ctx.count('corr-directed-r7')
            r = frame_check(case)
            if r:
                ctx.violation('frame', case, r[3], signature='C07/%s/%s' % (r[1], r[0]))
        else:
            spec = pf.gen_spec(rng)
            ops = gen_history(rng, rng.randrange(1, maxlen + 1), spec=spec)
            case = {'spec': spec, 'ops': ops}
        for op in ops:
            ctx.count('corr-op:' + op['op'])
        ctx.case(key=('corr', case), desc={'correspondence': case} if i % 397 == 0 else None)
        lines, plan = corr_prepare(case)
        batch.append((case, lines, plan, len(all_lines)))
        all_lines += lines
    out = ctx.driver('C07', all_lines)
    hits = {b: 0 for b in R7_BRANCHES}
    for ln, ans in zip(all_lines, out):
        b = r7_branch(ln, ans)
        if b:
            hits[b] += 1
    ctx.extra['r7_model_branches'] = hits
    for b, n in hits.items():
        if n == 0:
            ctx.note('C07: branch %r of the round-7 model was not exercised in this run' % b)
    for case, lines, plan, off in batch:
        d = corr_eval(lines, plan, out[off:off + len(lines)])
        if d:
            dis += 1
            r = frame_check(case)
            if r:
                small = shrink(case, r[0])
                r2 = frame_check(small) or r
                ctx.violation('frame', small, r2[3], signature='C07/%s/%s' % (r2[1], r2[0]))
            else:
                ctx.violation('corr', case, 'model and implementation disagree (%s) but the stored data are byte-identical' % d,
                              kind='correspondence', relation='exact: public accessors (values as bit patterns) + memory sharing, per operation',
                              signature='C07/corr/' + d.split('(')[1].split(')')[0] if '(' in d else 'C07/corr', no_failing_input=True)
    ctx.extra['correspondence_disagreements'] = dis
    ctx.extra['diagnostics'] = dict(DIAG)


MANIFEST = dict(
    text=('Lean theorems on the heap model shared with C16: every pseudo-data operation (all three background generation methods, incl. the composite MC method, with any '
          'scrambling method, signal generation, merge by append, initialize_trial, unblind on a copy, evaluate) is the exact sequence of '
          'container operations of the code; none of them targets the stored containers (c07_compile_targets), hence for every history (the real MC signal generator with its write-through set_selection and the evaluation-time assignments included) '
          'data.exp and data.mc read the same afterwards (c07_frame) and share no location with any generated container '
          '(c07_no_alias_inv); scrambling changes only the assigned fields and keeps the length; the number of drawn MC events is n_bkg (rounded scaling with a pre-selection; executable model compared exactly); RA inside any configured range over the reals (no [0,2pi) assumption); the uniform RA is compared with lo+(hi-lo)u on the deviates numpy draws. The model is '
          'compared after every operation with a real LLHRatioAnalysis (public accessors, bit patterns, np.shares_memory); byte '
          'snapshots of data.exp/data.mc are the failing-input oracle. Round 7: DataScrambler.scramble_data with its copy flag (either value, '
          'on stored or generated containers), the signal-injection loop with None events / None signal, do_trial_with_given_bkg_and_sig_pseudo_data '
          'and Analysis.do_trial end to end are model functions with Python exception semantics for the append that can raise (c07_compile7_targets, '
          'c07_frame7, c07_do_trial_frame, c07_scramble_data_contract); the copy= keyword of the fixed background method, the default RA range and the '
          'fields every scramble method assigns are read from the current source (Generated/C07.lean, *_for_current_source lemmas).'),
    note=('The pre-fix unblind (adopting data.exp itself) is kept in the model as unblindAdopt with a proved counterexample. IEEE corner '
          'cases of the RA range (float32 rounding at the upper bound, np.mod of a tiny negative) are checked on the implementation with a '
          'closed upper bound only. Stub collaborators stand in for llhratio, pmm, signal generator and event selection.'),
    design='DESIGN.md section 4 C07',
    technique='Lean 4 proof (frame property via the C16 refinement, induction over histories) + exact model/implementation correspondence + byte snapshots')
