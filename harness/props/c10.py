"""C10 — every constructed probability density is non-negative and normalised.

Correspondence (model = lean/SkyllhModel/Model/Pdf.lean through Driver/C10.lean):
  * real SignalTimePDF / BackgroundTimePDF (box and gaussian profiles, generated live-times) : `_S` and the
    density at interesting times (edges, float neighbours, gaps, window edges, dense grid), relation
    |Δ| <= 1e-9 * scale (+ the cancellation bound of the erf difference); scipy's erf values are handed to the
    model as a table;  the `_S` cache over histories of set_params / livetime / time_flux_profile assignments;
  * real I3EnergyPDF: the full 2-d density (with and without smoothing), get_pd on events incl. all bin edges,
    the validity decision; relation 1e-9 relative, decisions/exceptions exact;
  * real BackgroundI3SpatialPDF: exp(log-spline) at the bin centres = normalised histogram, raising exact;
  * gaussian / Rayleigh PSF values, 1e-12 relative.
Property oracles (implementation only): quadrature of the returned densities (exact piecewise sums for the box,
Gauss-Legendre for the gaussian, the PSF and the spline), exact `fractions` histogram reference, brute-force
bin search, fresh-object-vs-used-object.
"""
import math
import warnings
from fractions import Fraction

import numpy as np

from harness.core import MachineryError, b2f, f2b, flist, parse_flist, unjson_float
from harness import extract

MODEL_MODULES = ['SkyllhModel.Model.Livetime', 'SkyllhModel.Model.Pdf', 'SkyllhModel.Model.PdfR7']

# which callables of the current source have an executable Lean counterpart that the theorems are about AND that run(ctx) compares
# with the real callable on every run
MODEL_MAP = {
    'skyllh/core/pdf.py::TimePDF._calculate_sum_of_ontime_time_flux_profile_integrals': ['Pdf.timeS', 'Pdf.timeSSpec', 'Pdf.calcS'],
    'skyllh/core/pdf.py::TimePDF._update_time_axis_and_S': ['Pdf.refresh2'],
    'skyllh/core/pdf.py::TimePDF._is_S_up_to_date': ['Pdf.upToDate'],
    'skyllh/core/pdf.py::TimePDF._ensure_S_is_up_to_date': ['Pdf.ensure2'],
    'skyllh/core/pdf.py::TimePDF.assert_is_valid_for_trial_data': ['Pdf.tValid'],
    'skyllh/core/signalpdf.py::SignalTimePDF._calculate_pd': ['Pdf.calcPdRows', 'Pdf.rowPass', 'Pdf.setParamsRow', 'Pdf.calcPdMulti', 'Pdf.timePd'],
    'skyllh/core/signalpdf.py::SignalTimePDF.initialize_for_new_trial': ['Pdf.tInitRows'],
    'skyllh/core/signalpdf.py::SignalTimePDF.get_pd': ['Pdf.tGetRows', 'Pdf.tGet'],
    'skyllh/core/backgroundpdf.py::BackgroundTimePDF.initialize_for_new_trial': ['Pdf.timePd', 'Pdf.trialPd', 'Pdf.bStep'],
    'skyllh/core/backgroundpdf.py::BackgroundTimePDF.get_pd': ['Pdf.bGet'],
    'skyllh/core/pdf.py::PDFProduct.get_pd': ['Pdf.pStep'],
    'skyllh/core/pdf.py::MultiDimGridPDF.get_pd_with_eventdata': ['Pdf.gmEval', 'Pdf.interp2'],
    'skyllh/core/pdf.py::MultiDimGridPDF.get_pd': ['Pdf.gEval'],
    'skyllh/i3/pdf.py::I3EnergyPDF.__init__': ['Pdf.energyBand', 'Pdf.normBand', 'Pdf.smooth', 'Pdf.histAt'],
    'skyllh/i3/pdf.py::I3EnergyPDF.assert_is_valid_for_trial_data': ['Pdf.inRange'],
    'skyllh/i3/pdf.py::I3EnergyPDF.get_pd': ['Pdf.energyPd', 'Pdf.lookup'],
    'skyllh/i3/backgroundpdf.py::BackgroundI3SpatialPDF.__init__': ['Pdf.spatialHist', 'Pdf.spInit'],
    'skyllh/i3/backgroundpdf.py::BackgroundI3SpatialPDF.add_events': ['Pdf.spStep'],
    'skyllh/i3/backgroundpdf.py::BackgroundI3SpatialPDF.reset': ['Pdf.spStep'],
    'skyllh/i3/backgroundpdf.py::BackgroundI3SpatialPDF.get_pd': ['Pdf.spatialPd'],
    'skyllh/core/signalpdf.py::GaussianPSFPointLikeSourceSignalSpatialPDF.get_pd': ['Pdf.psfPd'],
    'skyllh/core/signalpdf.py::RayleighPSFPointSourceSignalSpatialPDF.initialize_for_new_trial': ['Pdf.rayleighPd'],
    'skyllh/core/smoothing.py::NeighboringBinHistSmoothingMethod.smooth': ['Pdf.smooth', 'Pdf.convSame'],
}

REL = 1e-9


# ------------------------------------------------------------------------------------------
# generated constants

def generated(ctx):
    try:
        tol = float(extract.arg_default('skyllh/core/flux_model.py', 'GaussianTimeFluxProfile', '__init__', 'tol'))
    except Exception as e:  # noqa
        tol = 1e-12
        ctx.proof['generated_fallbacks'].append('gaussTol')
        ctx.note('extraction of GaussianTimeFluxProfile tol failed (%s); using recorded value 1e-12' % e)
    try:
        val = float(extract.class_attr('skyllh/core/smoothing.py', 'GaussianSmoothingFilter', 'val'))
    except Exception:  # noqa
        val = None
        try:
            import ast
            f = extract.find_func(extract.find_class(extract.parse('skyllh/core/smoothing.py'), 'GaussianSmoothingFilter'), '__init__')
            for node in ast.walk(f):
                if isinstance(node, ast.Assign) and isinstance(node.targets[0], ast.Name) and node.targets[0].id == 'val':
                    val = float(extract.literal(node.value))
        except Exception:  # noqa
            pass
        if val is None:
            val = 1.6635
            ctx.proof['generated_fallbacks'].append('gaussKernelVal')
    return ('/- generated by harness/props/c10.py from the current skyllh source — do not edit -/\n'
            'namespace Gen.C10\n\n'
            '/-- default of `tol` in `GaussianTimeFluxProfile.__init__` (skyllh/core/flux_model.py) -/\n'
            'def gaussTol {F : Type} [OfScientific F] : F := %s\n\n'
            '/-- `val` in `GaussianSmoothingFilter.__init__` (skyllh/core/smoothing.py) -/\n'
            'def gaussKernelVal {F : Type} [OfScientific F] : F := %s\n\n'
            'end Gen.C10\n') % (extract.lean_float(tol), extract.lean_float(val))


# ------------------------------------------------------------------------------------------
# small helpers

_CFG = None


def cfg():
    global _CFG
    if _CFG is None:
        from skyllh.core.config import Config
        _CFG = Config()
        _CFG['debugging']['enable_tracing'] = False
    return _CFG


class TDM(object):
    """duck-typed TrialDataManager: what the PDFs under test read from it"""

    # data fields an analysis usually carries; a PDF must read only the ones it is documented to need: every field that
    # is not given explicitly is present as a NaN decoy
    DECOYS = ('psi', 'time', 'sin_dec', 'dec', 'ra', 'log_energy', 'ang_err', 'sin_true_dec', 'true_energy')

    def __init__(self, n_sources=1, **fields):
        self.f = {k: np.asarray(v, dtype=np.float64) for k, v in fields.items()}
        n = len(next(iter(self.f.values())))
        for name in self.DECOYS:
            if name not in self.f:
                self.f[name] = np.full(n, np.nan)
        self.n_sources = n_sources
        self.n_selected_events = n
        self.src_evt_idxs = (np.repeat(np.arange(n_sources), n), np.tile(np.arange(n), n_sources))
        self.trial_data_state_id = 1

    def get_data(self, k):
        return self.f[k]

    def __getitem__(self, k):
        return self.f[k]

    def __contains__(self, k):
        return k in self.f

    def get_n_values(self):
        return self.n_sources * self.n_selected_events


_MISSING = {'_S': 0, '_log_spline': 0}


def get_S(pdf):
    """the cached normalisation (private attribute named in the property's anchors); None when it does not exist
    (then only densities are compared and the run says so)"""
    if not hasattr(pdf, '_S'):
        _MISSING['_S'] += 1
        return None
    return pdf._S


# branches of the modelled functions; every correspondence comparison classifies the inputs it sent to the driver
BRANCHES = [
    'timePd:on,S>0', 'timePd:off', 'timePd:on,S<=0',
    'betweenIdx:empty-window', 'betweenIdx:no-on-time', 'betweenIdx:pieces',
    'boxVal:inside', 'boxVal:outside', 'gaussVal:inside', 'gaussVal:outside',
    'lookup:upper-edge', 'lookup:regular', 'lookup:wrap-negative', 'lookup:IndexError',
    'inRange:true', 'inRange:false', 'inRange:nan',
    'histBin:below', 'histBin:above', 'histBin:upper-edge', 'histBin:inner',
    'normBand:empty-band', 'normBand:content', 'physEvents:zero-weight-dropped',
    'energyBand:unsmoothed', 'energyBand:smoothed',
    'spatialHist:zero-total', 'spatialHist:non-positive-bin', 'spatialHist:ok',
    'spStep:addEvents', 'spStep:addEvents-out-of-range', 'spStep:reset',
    'gmEval:cache-off', 'gmEval:miss-new-trial', 'gmEval:hit', 'gmEval:miss-placeholders', 'gmEval:masked', 'gmEval:unmasked',
    'tStep:setParams-same', 'tStep:setParams-new', 'tStep:setLivetime', 'tStep:setProfile',
    'tStep2:checkValid', 'tStep2:setLivetime', 'tStep2:setProfile', 'tStep2:profileMutated', 'tStep2:livetimeMutated', 'tStep2:initTrial',
    'tGet:cached', 'tGet:recomputed',
    'eStep:callerWrites', 'eStep:get', 'eStep:valid', 'pStep:evalProduct', 'pStep:readLeft', 'pStep:readRight',
    'srcPass:own-source', 'srcPass:other-source', 'calcPdMulti:source-without-values',
    'rayleighPd:psi=0', 'rayleighPd:psi>0', 'trialPd:equal-count', 'trialPd:new-count',
    'setParamsRow:empty', 'setParamsRow:same', 'setParamsRow:new', 'rowPass:up-to-date', 'rowPass:stale-refreshed',
    'tGetRows:cached', 'tGetRows:calculated', 'tInitRows', 'bStep:getPd', 'bGet:refuses', 'bGet:answers',
]
_BR = {}


def br(name, k=1):
    if name not in BRANCHES:
        raise MachineryError('unknown model branch %r' % name)
    _BR[name] = _BR.get(name, 0) + k


def fl(xs):
    return [unjson_float(x) for x in xs]


def mk_lt(ivs):
    from skyllh.core.livetime import Livetime
    return Livetime(np.array([[unjson_float(a), unjson_float(b)] for a, b in ivs], dtype=np.float64).reshape((-1, 2)))


def mk_profile(prof):
    from skyllh.core.flux_model import BoxTimeFluxProfile, GaussianTimeFluxProfile, UnityTimeFluxProfile
    if prof['kind'] == 'box':
        return BoxTimeFluxProfile(t0=unjson_float(prof['t0']), tw=unjson_float(prof['tw']), cfg=cfg())
    if prof['kind'] == 'unity':
        return UnityTimeFluxProfile(cfg=cfg())      # window (-inf, +inf)
    kw = {}
    if prof.get('tol') is not None:
        kw['tol'] = unjson_float(prof['tol'])
    return GaussianTimeFluxProfile(t0=unjson_float(prof['t0']), sigma_t=unjson_float(prof['sigma']), cfg=cfg(), **kw)


def mk_timepdf(which, ivs, prof):
    from skyllh.core.signalpdf import SignalTimePDF
    from skyllh.core.backgroundpdf import BackgroundTimePDF
    if which == 'sig':
        return SignalTimePDF(pmm=None, livetime=mk_lt(ivs), time_flux_profile=mk_profile(prof), cfg=cfg())
    return BackgroundTimePDF(livetime=mk_lt(ivs), time_flux_profile=mk_profile(prof), cfg=cfg())


def eval_timepdf(pdf, which, times, params=None):
    """density of the real PDF at `times` (one source); params: dict of local source parameters or None"""
    tdm = TDM(time=times)
    with warnings.catch_warnings():
        warnings.simplefilter('ignore')
        if which == 'sig':
            if params:
                names = sorted(params)
                rec = np.empty((1,), dtype=[(n, np.float64) for n in names])
                for n in names:
                    rec[n] = params[n]
            else:
                rec = np.empty((1,), dtype=[])
            pd, grads = pdf.get_pd(tdm, rec)
        else:
            pdf.initialize_for_new_trial(tdm)
            pd, grads = pdf.get_pd(tdm)
    return np.array(pd, dtype=np.float64)


def ref_is_on(ivs, t):
    return any(a <= t < b for a, b in ivs)


def close(a, b, rel=REL, abs_=0.0):
    if a == b:
        return True
    if not (math.isfinite(a) and math.isfinite(b)):
        return False
    return abs(a - b) <= rel * max(abs(a), abs(b)) + abs_


# ------------------------------------------------------------------------------------------
# generators

def gen_intervals(rng, n=None):
    """1..30 sorted non-overlapping half-open intervals incl. touching ones, tiny and huge gaps."""
    if n is None:
        n = rng.choice([1, 1, 2, 2, 3, 3, 4, 5, 8, 13, 21, 30])
    scale = rng.choice([1.0, 1.0, 1.0, 55000.0, 1e-3])
    mode = rng.choice(['grid', 'float', 'float'])
    t = scale * rng.choice([0.0, 1.0, -3.0, 7.25]) if scale != 55000.0 else 55000.0 + rng.randrange(0, 300)
    unit = 1.0 if scale == 55000.0 else max(scale, 1e-3)
    ivs = []
    for _ in range(n):
        if mode == 'grid':
            gap = rng.choice([0, 0, 1, 1, 2, 5]) * 0.25 * unit
            ln = rng.choice([1, 1, 2, 3, 8]) * 0.25 * unit
        else:
            gap = rng.choice([0.0, rng.random(), rng.random() * 1e-9, rng.random() * 1e3]) * unit
            ln = rng.choice([rng.random(), rng.random(), rng.random() * 1e-6, rng.random() * 10]) * unit
        a = t + gap
        b = a + ln
        ivs.append((a, b))
        t = b
    if rng.random() < 0.1:     # a zero-length interval somewhere
        k = rng.randrange(len(ivs))
        ivs[k] = (ivs[k][0], ivs[k][0])
    return ivs


def gen_profile(rng, ivs):
    lo, hi = ivs[0][0], ivs[-1][1]
    span = max(hi - lo, 1e-6)
    gaps = [(b, c) for (a, b), (c, d) in zip(ivs, ivs[1:]) if c > b]
    kind = rng.choice(['box', 'box', 'gauss'])
    place = rng.choice(['inside', 'inside', 'partly', 'gap', 'outside', 'cover', 'edge'])
    if place == 'inside':
        a, b = rng.choice(ivs)
        t0 = a + rng.random() * (b - a)
        w = rng.random() * span * rng.choice([0.01, 0.1, 0.5])
    elif place == 'partly':
        t0 = rng.choice([lo, hi]) + (rng.random() - 0.5) * span * 0.2
        w = rng.random() * span * 0.5
    elif place == 'gap' and gaps:
        a, b = rng.choice(gaps)
        t0 = 0.5 * (a + b)
        w = (b - a) * rng.choice([0.5, 0.9, 1.0, 1.5])
    elif place == 'outside':
        t0 = rng.choice([lo - span * (0.5 + rng.random()), hi + span * (0.5 + rng.random())])
        w = span * 0.1 * rng.random()
    elif place == 'edge':
        e = rng.choice([x for p in ivs for x in p])
        w = span * 0.1 * rng.random()
        t0 = e + rng.choice([-0.5, 0.5]) * w
    else:
        t0 = 0.5 * (lo + hi)
        w = span * rng.choice([1.0, 1.5, 10.0])
    if kind == 'box':
        r = rng.random()
        if r < 0.05:
            w = 0.0
        elif r < 0.08:
            w = -w          # a negative width: empty window, the density must be zero
        return {'kind': 'box', 't0': float(t0), 'tw': float(w)}
    # gaussian: window half width = 7.43 sigma
    sigma = max(w / 14.0, span * 1e-6) if place != 'cover' else span * rng.choice([0.1, 1.0])
    # keep the profile wide against the float resolution of the time stamps (MJD ~ 5.5e4: ulp 7e-12)
    sigma = max(sigma, 1e6 * float(np.spacing(max(abs(lo), abs(hi), abs(t0)))))
    out = {'kind': 'gauss', 't0': float(t0), 'sigma': float(sigma)}
    if rng.random() < 0.25:
        out['tol'] = rng.choice([1e-3, 1e-6, 1e-9, 0.5])
    return out


def interesting_times(rng, ivs, ts, te, n_rand=6):
    edges = [x for p in ivs for x in p]
    out = list(edges)
    for a, b in ivs:
        out += [(a + b) / 2, np.nextafter(a, -np.inf), np.nextafter(b, -np.inf)]
    for (a, b), (c, d) in zip(ivs, ivs[1:]):
        out.append((b + c) / 2)
    lo, hi = edges[0], edges[-1]
    span = max(hi - lo, 1e-6)
    for w in (ts, te):
        if math.isfinite(w):
            out += [w, np.nextafter(w, -np.inf), np.nextafter(w, np.inf)]
    if math.isfinite(ts) and math.isfinite(te):
        out += [ts + rng.random() * (te - ts) for _ in range(n_rand)]
    out += [lo + rng.random() * span for _ in range(n_rand)]
    # the time axis of the PDF is the live-time window: keep only times accepted by the validity check
    return [float(t) for t in out if lo <= t <= hi]


# ------------------------------------------------------------------------------------------
# time PDFs: correspondence lines

def window_of(pdf):
    p = pdf.time_flux_profile
    return float(p.t_start), float(p.t_stop)


def time_request(ivs, prof_obj, times):
    """model request for the current state of the profile object"""
    from skyllh.core.flux_model import BoxTimeFluxProfile, GaussianTimeFluxProfile, UnityTimeFluxProfile
    ts, te = float(prof_obj.t_start), float(prof_obj.t_stop)
    es = flist([x for p in ivs for x in p])
    if isinstance(prof_obj, (BoxTimeFluxProfile, UnityTimeFluxProfile)):
        # the unity profile is the box over (-inf, +inf)
        return 'tbox %s %s %s %s' % (es, f2b(ts), f2b(te), flist(times))
    if isinstance(prof_obj, GaussianTimeFluxProfile):
        import scipy.special
        sigma = float(prof_obj.sigma_t)
        t0 = 0.5 * (te + ts)
        c2 = np.sqrt(2.0) * sigma
        pts = np.array([x for p in ivs for x in p] + [ts, te], dtype=np.float64)
        with np.errstate(all='ignore'):
            args = (pts - t0) / c2
            vals = scipy.special.erf(args)
        return 'tgauss %s %s %s %s %s %s %s' % (es, f2b(ts), f2b(te), f2b(sigma), flist(args), flist(vals), flist(times))
    raise MachineryError('unsupported profile type %r' % type(prof_obj))


def parse_time_answer(ans):
    d = dict(x.split(':', 1) for x in ans.split(' '))
    S = None if d['S'] == 'ERR' else b2f(d['S'])
    Ss = b2f(d['Ss'])
    pd = None if d['pd'] == 'ERR' else parse_flist(d['pd'])
    return S, Ss, pd


def s_tolerance(ivs, prof_obj):
    """absolute tolerance on S: 1e-9 of the sum of magnitudes of the terms (for the gaussian the terms are
    differences of primitives of magnitude c1 each: cancellation bound)."""
    from skyllh.core.flux_model import GaussianTimeFluxProfile
    n = len(ivs) + 2
    if isinstance(prof_obj, GaussianTimeFluxProfile):
        c1 = math.sqrt(math.pi / 2) * abs(float(prof_obj.sigma_t))
        return 8 * n * 2.3e-16 * c1
    ts, te = float(prof_obj.t_start), float(prof_obj.t_stop)
    mag = max(abs(ts), abs(te), max(abs(x) for p in ivs for x in p))
    if not math.isfinite(mag):
        mag = max(abs(x) for p in ivs for x in p)
    return 8 * n * 2.3e-16 * mag


def compare_time(ivs, prof_obj, times, S_impl, pd_impl, ans):
    """property-level relation between implementation and model; returns None | text"""
    S, Ss, pd = parse_time_answer(ans)
    try:
        from skyllh.core.flux_model import GaussianTimeFluxProfile as _G
        ts_, te_ = float(prof_obj.t_start), float(prof_obj.t_stop)
        br('betweenIdx:empty-window' if te_ <= ts_ else ('betweenIdx:pieces' if on_window_pieces(ivs, ts_, te_) else 'betweenIdx:no-on-time'))
        isg = isinstance(prof_obj, _G)
        for t in times:
            on = ref_is_on(ivs, t)
            br('timePd:off' if not on else ('timePd:on,S>0' if (S is not None and S > 0) else 'timePd:on,S<=0'))
            inside = (ts_ <= t < te_) if isg else (ts_ <= t <= te_)
            br(('gaussVal:' if isg else 'boxVal:') + ('inside' if inside else 'outside'))
    except MachineryError:
        raise
    except Exception:  # noqa
        pass
    if S is None:
        return 'model: get_uptime_intervals_between raises for this window, implementation S=%r' % (S_impl,)
    if S != S and isinstance(S, float):
        raise MachineryError('erf table miss in the model driver (NaN S)')
    tolS = s_tolerance(ivs, prof_obj)
    if not close(S, Ss, REL, tolS):
        return 'index-arithmetic model S=%r differs from specification model S=%r' % (S, Ss)
    if S_impl is not None and not close(float(S_impl), S, REL, tolS):
        return 'S: implementation %r, model %r' % (float(S_impl), S)
    if len(pd) != len(pd_impl):
        return 'pd: %d values from the implementation, %d from the model' % (len(pd_impl), len(pd))
    for t, a, b in zip(times, pd_impl, pd):
        if a != a or math.isinf(a):
            return 'pd(t=%r): implementation %r, model %r' % (t, a, b)
        # a value on the cancellation floor of S may legitimately differ (S itself is uncertain by tolS)
        relS = REL + (tolS / S if S > 0 else 0.0) * 2
        if not close(float(a), b, min(relS, 0.5), 0.0):
            if S > 0 and tolS / S > 0.25:
                continue
            return 'pd(t=%r): implementation %r, model %r' % (t, float(a), b)
    return None


# ------------------------------------------------------------------------------------------
# time PDFs: property oracles

_GL = None


def gl_integrate(f, a, b, n=24):
    global _GL
    if _GL is None or len(_GL[0]) != n:
        _GL = np.polynomial.legendre.leggauss(n)
    x, w = _GL
    t = 0.5 * (b - a) * x + 0.5 * (b + a)
    return 0.5 * (b - a) * float(np.dot(w, f(t)))


def on_window_pieces(ivs, ts, te):
    out = []
    for a, b in ivs:
        lo, hi = max(a, ts), min(b, te)
        if lo < hi:
            out.append((lo, hi))
    return out


def quad_time_pdf(pdf, which, ivs, prof, params=None):
    """∫ pd over the on-time by quadrature of the implementation's own values; returns (integral, tol, S, n)"""
    # evaluate once to bring the profile into the state `params`
    eval_timepdf(pdf, which, [ivs[0][0]], params)
    ts, te = window_of(pdf)
    pieces = on_window_pieces(ivs, ts, te)
    total = 0.0
    npts = 0
    box = prof['kind'] in ('box', 'unity')
    sigma = None if box else abs(float(pdf.time_flux_profile.sigma_t))
    t0 = 0.5 * (ts + te)
    for lo, hi in pieces:
        if box:
            mid = lo + 0.5 * (hi - lo)
            v = eval_timepdf(pdf, which, [mid], params)[0]
            total += float(v) * (hi - lo)
            npts += 1
        else:
            lo2, hi2 = max(lo, t0 - 40 * sigma), min(hi, t0 + 40 * sigma)
            if not lo2 < hi2:
                continue
            k = int(min(400, max(1, math.ceil((hi2 - lo2) / sigma))))
            xs = np.linspace(lo2, hi2, k + 1)
            for u, v in zip(xs[:-1], xs[1:]):
                if not u < v:
                    continue
                total += gl_integrate(lambda t: eval_timepdf(pdf, which, t, params), u, v, 12)
                npts += 12
    # what is outside the window (and on-time) must contribute nothing: sample it
    S = get_S(pdf)
    return total, pieces, S, npts


def o_time_norm(ctx, case):
    """the time PDF is finite, non-negative, zero in off-time and integrates to one over the on-time (S>0)
    resp. is zero everywhere (no on-time inside the window)."""
    ivs = [(unjson_float(a), unjson_float(b)) for a, b in case['ivs']]
    prof = case['prof']
    which = case['which']
    params = case.get('params')
    try:
        pdf = mk_timepdf(which, ivs, prof)
    except Exception as e:  # noqa
        return 'constructing the %s time PDF for profile %r on live-time %r raised %s: %s' % (which, prof, ivs, type(e).__name__, e)
    if which == 'bkg':
        params = None
    try:
        ts_times = fl(case.get('times', []))
        pd = eval_timepdf(pdf, which, ts_times, params) if ts_times else np.array([])
        total, pieces, S, npts = quad_time_pdf(pdf, which, ivs, prof, params)
    except Exception as e:  # noqa
        return 'evaluating the %s time PDF (profile %r, params %r) raised %s: %s' % (which, prof, params, type(e).__name__, e)
    for t, v in zip(ts_times, pd):
        if not math.isfinite(v) or v < 0:
            return '%s time PDF (profile %r, params %r, live-time %r): pd(t=%r) = %r is not a finite non-negative number' % (
                which, prof, params, ivs, t, float(v))
        if not ref_is_on(ivs, t) and v != 0:
            return '%s time PDF: pd(t=%r) = %r in detector off-time (live-time %r)' % (which, t, float(v), ivs)
    ts, te = window_of(pdf)
    overlap = sum(hi - lo for lo, hi in pieces)
    if prof['kind'] in ('box', 'unity'):
        mag = max([abs(x) for p in ivs for x in p] + [abs(w) for w in (ts, te) if math.isfinite(w)])
        mass, tol = overlap, 1e-9 + (8 * (len(ivs) + 2) * float(np.spacing(mag)) / overlap if overlap > 0 else 0.0)
    else:
        sigma = abs(float(pdf.time_flux_profile.sigma_t))
        t0 = 0.5 * (ts + te)
        mass = sum(math.sqrt(math.pi / 2) * sigma * (math.erf((hi - t0) / (math.sqrt(2) * sigma)) - math.erf((lo - t0) / (math.sqrt(2) * sigma)))
                   for lo, hi in pieces)
        c1 = math.sqrt(math.pi / 2) * sigma
        # cancellation bound of the erf differences + resolution of the time stamps against sigma
        res = float(np.spacing(max(abs(x) for p in ivs for x in p))) / sigma
        tol = 1e-7 + (8 * (len(ivs) + 2) * 2.3e-16 * c1 / mass if mass > 0 else 0.0) + 64 * res
    if not math.isfinite(total):
        return '%s time PDF (profile %r, params %r, live-time %r): the integral over the on-time is %r' % (which, prof, params, ivs, total)
    if mass > 0 and tol < 0.25:
        if abs(total - 1.0) > tol:
            return ('%s time PDF (profile %r, params %r) on live-time %r integrates to %r over the on-time, not 1 '
                    '(S=%r, on-time inside the window [%r, %r] = %r)') % (which, prof, params, ivs, total, S, ts, te, overlap)
    elif mass == 0 and total != 0:
        return '%s time PDF: no on-time inside the window [%r, %r] but the density integrates to %r' % (which, ts, te, total)
    return None


def o_time_fresh(ctx, case):
    """a time PDF that went through parameter updates / live-time / profile assignments gives the same density
    as a freshly constructed one for the final live-time and profile."""
    from skyllh.core.flux_model import BoxTimeFluxProfile
    ivs0 = [(unjson_float(a), unjson_float(b)) for a, b in case['ivs']]
    which = case['which']
    try:
        pdf = mk_timepdf(which, ivs0, case['prof'])
        ivs = ivs0
        cur = dict(case['prof'])
        for op in case['ops']:
            if op[0] == 'P':
                if which != 'sig':
                    continue
                params = {k: unjson_float(v) for k, v in op[1].items()}
                eval_timepdf(pdf, which, [ivs[0][0]], params)
                cur.update(params)
                if 'sigma_t' in params:
                    cur['sigma'] = params['sigma_t']
            elif op[0] == 'L':
                ivs = [(unjson_float(a), unjson_float(b)) for a, b in op[1]]
                pdf.livetime = mk_lt(ivs)
            elif op[0] == 'Q':
                cur = dict(op[1])
                pdf.time_flux_profile = mk_profile(cur)
        ts, te = window_of(pdf)
        times = fl(case['times']) + [lo + 0.5 * (hi - lo) for lo, hi in on_window_pieces(ivs, ts, te)] + \
            [a + 0.5 * (b - a) for a, b in ivs]
        times = [t for t in times if ivs[0][0] <= t <= ivs[-1][1]] or [ivs[0][0]]
        got = eval_timepdf(pdf, which, times)
        # a fresh object with exactly the final window
        fresh_prof = type(pdf.time_flux_profile).__new__(type(pdf.time_flux_profile))
        import copy
        fresh_prof = copy.deepcopy(pdf.time_flux_profile)
        from skyllh.core.signalpdf import SignalTimePDF
        from skyllh.core.backgroundpdf import BackgroundTimePDF
        if which == 'sig':
            fresh = SignalTimePDF(pmm=None, livetime=mk_lt(ivs), time_flux_profile=fresh_prof, cfg=cfg())
        else:
            fresh = BackgroundTimePDF(livetime=mk_lt(ivs), time_flux_profile=fresh_prof, cfg=cfg())
        want = eval_timepdf(fresh, which, times)
    except Exception as e:  # noqa
        return 'time PDF history %r raised %s: %s' % (case['ops'], type(e).__name__, e)
    for t, a, b in zip(times, got, want):
        if not close(float(a), float(b), 1e-9) and not (a != a and b != b):
            return ('%s time PDF after the history %r (initial profile %r, live-time %r): pd(t=%r) = %r, a fresh PDF '
                    'for the final live-time %r and window [%r, %r] gives %r (S used %r, fresh %r)') % (
                which, case['ops'], case['prof'], ivs0, t, float(a), ivs, ts, te, float(b),
                get_S(pdf), getattr(fresh, '_S', None))
    return None


def o_time_multi(ctx, case):
    """several sources with different profile parameters in one get_pd call: each source's density equals the
    density of a fresh single-source PDF with that source's parameters."""
    ivs = [(unjson_float(a), unjson_float(b)) for a, b in case['ivs']]
    times = fl(case['times'])
    rows = case['rows']
    names = sorted(rows[0])
    try:
        pdf = mk_timepdf('sig', ivs, case['prof'])
        tdm = TDM(n_sources=len(rows), time=times)
        rec = np.empty((len(rows),), dtype=[(n, np.float64) for n in names])
        for k, r in enumerate(rows):
            for n in names:
                rec[n][k] = unjson_float(r[n])
        with warnings.catch_warnings():
            warnings.simplefilter('ignore')
            pd, _ = pdf.get_pd(tdm, rec)
        pd = np.asarray(pd).reshape((len(rows), len(times)))
        for k, r in enumerate(rows):
            one = mk_timepdf('sig', ivs, case['prof'])
            want = eval_timepdf(one, 'sig', times, {n: unjson_float(r[n]) for n in names})
            win = window_of(one)
            # the window edges are moved by rounded differences (profile.move): they carry an error of a few ulps of
            # the largest time involved.  A time that close to a window edge may fall on either side of the jump, and
            # an overlap with the on-time that small makes S itself a rounding artefact.
            mag = max([abs(t) for t in times] + [abs(unjson_float(v)) for rr in rows for v in rr.values()] +
                      [abs(unjson_float(case['prof']['t0']))] + [abs(x) for p in ivs for x in p])
            eps = 64 * float(np.spacing(mag))
            overlap = sum(hi - lo for lo, hi in on_window_pieces(ivs, *win))
            if 0 < overlap < 1e6 * eps:
                continue
            for t, a, b in zip(times, pd[k], want):
                if any(abs(t - e) <= eps for e in win if math.isfinite(e)):
                    continue
                if not close(float(a), float(b), 1e-9) and not (a != a and b != b):
                    return ('SignalTimePDF.get_pd with sources %r: source %d, pd(t=%r) = %r, a single-source PDF with '
                            'the same parameters gives %r') % (rows, k, t, float(a), float(b))
    except Exception as e:  # noqa
        return 'SignalTimePDF.get_pd with sources %r raised %s: %s' % (rows, type(e).__name__, e)
    return None


def run_trials(case):
    """Several trials on ONE time PDF object.  Yields per trial (times, pd copy, request line for the stateless
    model, S, profile snapshot, ivs)."""
    import copy
    ivs = [(unjson_float(a), unjson_float(b)) for a, b in case['ivs']]
    which, mode = case['which'], case.get('mode', 'direct')
    pdf = mk_timepdf(which, ivs, case['prof'])
    out = []
    for tr in case['trials']:
        times = fl(tr['times'])
        params = tr.get('params') if (which == 'sig' and mode == 'direct') else None
        tdm = TDM(time=times)
        with warnings.catch_warnings():
            warnings.simplefilter('ignore')
            if which == 'bkg':
                pdf.initialize_for_new_trial(tdm)
                pd = pdf.get_pd(tdm)[0]
            else:
                if params:
                    names = sorted(params)
                    rec = np.empty((1,), dtype=[(n, np.float64) for n in names])
                    for n in names:
                        rec[n] = unjson_float(params[n])
                else:
                    rec = np.empty((1,), dtype=[])
                if mode == 'init':
                    pdf.initialize_for_new_trial(tdm)
                pd = pdf.get_pd(tdm, rec)[0]
        pd = np.array(pd, dtype=np.float64, copy=True)
        out.append((times, pd, time_request(ivs, pdf.time_flux_profile, times), get_S(pdf),
                    copy.deepcopy(pdf.time_flux_profile), ivs))
    return out


def o_time_trials(ctx, case):
    """several consecutive trials (equal and different event counts, on/off pattern changing per index, set_params in
    between) on one SignalTimePDF / BackgroundTimePDF object: every returned density is finite, non-negative, zero for
    off-time events and equal to what a fresh object returns for that trial alone."""
    from skyllh.core.signalpdf import SignalTimePDF
    from skyllh.core.backgroundpdf import BackgroundTimePDF
    try:
        res = run_trials(case)
        for k, (times, pd, _req, S, prof, ivs) in enumerate(res):
            if len(pd) != len(times):
                return 'trial %d: %d densities for %d events' % (k, len(pd), len(times))
            if case['which'] == 'sig':
                fresh = SignalTimePDF(pmm=None, livetime=mk_lt(ivs), time_flux_profile=prof, cfg=cfg())
            else:
                fresh = BackgroundTimePDF(livetime=mk_lt(ivs), time_flux_profile=prof, cfg=cfg())
            want = eval_timepdf(fresh, case['which'], times)
            for i, (t, a, b) in enumerate(zip(times, pd, want)):
                if not math.isfinite(a) or a < 0:
                    return '%s time PDF, trial %d of %d on one object: pd[%d](t=%r) = %r is not a finite non-negative number' % (
                        case['which'], k + 1, len(res), i, t, float(a))
                if not ref_is_on(ivs, t) and a != 0:
                    return ('%s time PDF, trial %d of %d on one object (event counts %r): pd[%d](t=%r) = %r for an event in '
                            'detector off-time (live-time %r); a fresh PDF gives %r') % (
                        case['which'], k + 1, len(res), [len(r[0]) for r in res], i, t, float(a), ivs, float(b))
                if not close(float(a), float(b), 1e-12):
                    return ('%s time PDF, trial %d of %d on one object (event counts %r): pd[%d](t=%r) = %r, a fresh PDF for '
                            'the same live-time and profile gives %r') % (
                        case['which'], k + 1, len(res), [len(r[0]) for r in res], i, t, float(a), float(b))
    except Exception as e:  # noqa
        return 'time PDF trials %r raised %s: %s' % ([len(t['times']) for t in case['trials']], type(e).__name__, e)
    return None


def trials_corr(case):
    """requests (one stateless-model request per trial + the as-coded buffer model when the profile never changes)"""
    res = run_trials(case)
    reqs = [r[2] for r in res]
    same = all(not (t.get('params')) for t in case['trials']) or case['which'] == 'bkg' or case.get('mode') == 'init'
    if same and res:
        # ttrials <kind> <edges> <ts> <te> <sigma> <erfx> <erfy> <times>*
        first = reqs[0].split(' ')
        if first[0] == 'tbox':
            head = ['ttrials', 'box', first[1], first[2], first[3], f2b(0.0), '-', '-']
        else:
            head = ['ttrials', 'gauss', first[1], first[2], first[3], first[4], first[5], first[6]]
        reqs.append(' '.join(head + [flist(r[0]) for r in res]))
    return reqs, (res, same)


def compare_trials(case, impl, answers):
    res, same = impl
    for a_, b_ in zip(res, res[1:]):
        br('trialPd:equal-count' if len(a_[0]) == len(b_[0]) else 'trialPd:new-count')
    for k, ((times, pd, _req, S, prof, ivs), ans) in enumerate(zip(res, answers)):
        d = compare_time(ivs, prof, times, S, pd, ans)
        if d:
            return 'trial %d of %d on one object: %s' % (k + 1, len(res), d)
    if same and res:
        a = answers[len(res)]
        if a == 'ERR':
            return 'as-coded trial model: window query raises'
        for k, ((times, pd, _req, S, prof, ivs), m) in enumerate(zip(res, a.split(' '))):
            tolS = s_tolerance(ivs, prof)
            Sm = float(S) if S is not None else 0.0
            relS = min(REL + (tolS / Sm if Sm > 0 else 0.0) * 2, 0.5)
            for t, x, y in zip(times, pd, parse_flist(m)):
                if not close(float(x), y, relS) and not (Sm > 0 and tolS / Sm > 0.25):
                    return 'trial %d of %d on one object, pd(t=%r): implementation %r, as-coded trial model %r' % (
                        k + 1, len(res), t, float(x), y)
    return None


def o_corr_trials(ctx, case):
    try:
        reqs, impl = trials_corr(case)
    except Exception as e:  # noqa
        return 'time PDF trials raised %s: %s' % (type(e).__name__, e)
    return compare_trials(case, impl, ctx.driver('C10', reqs))


def o_rayleigh_trials(ctx, case):
    """RayleighPSFPointSourceSignalSpatialPDF pre-computes its density per trial: consecutive trials on one object
    equal fresh objects."""
    from skyllh.core.signalpdf import RayleighPSFPointSourceSignalSpatialPDF
    pdf = RayleighPSFPointSourceSignalSpatialPDF(cfg=cfg())
    for k, tr in enumerate(case['trials']):
        sig, psi = np.array(fl(tr['sigmas'])), np.array(fl(tr['psis']))
        tdm = TDM(psi=psi, ang_err=sig)
        tdm.src_evt_idxs = (np.zeros(len(psi), dtype=np.int64), np.arange(len(psi)))
        with np.errstate(all='ignore'):
            pdf.initialize_for_new_trial(tdm)
            got = np.array(pdf.get_pd(tdm)[0], copy=True)
        want = rayleigh_values(sig, psi)
        if got.shape != want.shape or not np.array_equal(got, want, equal_nan=True):
            return 'Rayleigh PSF, trial %d on one object: %r, fresh object %r' % (k + 1, got.tolist(), want.tolist())
    return None


# ------------------------------------------------------------------------------------------
# energy histogram PDF

def mk_energy(case):
    from skyllh.core.binning import BinningDefinition
    from skyllh.core.smoothing import BlockSmoothingFilter, GaussianSmoothingFilter
    from skyllh.i3.pdf import I3EnergyPDF
    eE, eD = np.array(fl(case['eE'])), np.array(fl(case['eD']))
    sm = case.get('smooth')
    filt = None
    if sm:
        filt = (BlockSmoothingFilter if sm[0] == 'block' else GaussianSmoothingFilter)(nbins=int(sm[1]))
    with warnings.catch_warnings():
        warnings.simplefilter('ignore')
        pdf = I3EnergyPDF(
            pmm=None,
            data_log10_energy=np.array(fl(case['x']), dtype=np.float64), data_sin_dec=np.array(fl(case['y']), dtype=np.float64),
            data_mcweight=np.array(fl(case['mcw']), dtype=np.float64), data_physicsweight=np.array(fl(case['pw']), dtype=np.float64),
            log10_energy_binning=BinningDefinition('log_energy', eE), sin_dec_binning=BinningDefinition('sin_dec', eD),
            smoothing_filter=filt, cfg=cfg())
    kernel = [] if filt is None else [float(v) for v in filt.axis_kernel_array]
    return pdf, kernel


def ref_bin(edges, x):
    """brute-force bin search: [e_i, e_{i+1}) and the last bin closed; None outside"""
    n = len(edges) - 1
    for i in range(n):
        if edges[i] <= x < edges[i + 1]:
            return i
    if x == edges[-1] and n >= 1:
        return n - 1
    return None


def ref_energy_hist(case):
    """exact (fractions) un-smoothed reference: per band normalised weights histogram; None for an empty band"""
    eE, eD = fl(case['eE']), fl(case['eD'])
    nE, nD = len(eE) - 1, len(eD) - 1
    h = [[Fraction(0)] * nD for _ in range(nE)]
    for x, y, m, p in zip(fl(case['x']), fl(case['y']), fl(case['mcw']), fl(case['pw'])):
        if p == 0:
            continue
        i, j = ref_bin(eE, x), ref_bin(eD, y)
        if i is None or j is None:
            continue
        h[i][j] += Fraction(m) * Fraction(p)
    out = [[Fraction(0)] * nD for _ in range(nE)]
    for j in range(nD):
        s = sum(h[i][j] for i in range(nE))
        for i in range(nE):
            if s != 0:
                out[i][j] = h[i][j] / (s * (Fraction(eE[i + 1]) - Fraction(eE[i])))
    return out


def o_energy_norm(ctx, case):
    """energy PDF: finite, non-negative; un-smoothed: every band integrates to one (or is identically zero when it
    has no content) and equals the exact reference; smoothed with equal bin widths: the band mass lies between the
    extreme column sums of the boundary-renormalised kernel (the documented approximation)."""
    try:
        pdf, kernel = mk_energy(case)
    except Exception as e:  # noqa
        return 'constructing I3EnergyPDF raised %s: %s' % (type(e).__name__, e)
    h = np.asarray(pdf.hist, dtype=np.float64)
    eE, eD = np.array(fl(case['eE'])), np.array(fl(case['eD']))
    dE = np.diff(eE)
    if h.shape != (len(eE) - 1, len(eD) - 1):
        return 'energy PDF histogram has shape %r for %d x %d bins' % (h.shape, len(eE) - 1, len(eD) - 1)
    if not np.all(np.isfinite(h)):
        i, j = [int(v[0]) for v in np.where(~np.isfinite(h))]
        return 'energy PDF histogram bin (%d,%d) is %r (sin(dec) band %d: [%r, %r])' % (i, j, float(h[i, j]), j, eD[j], eD[j + 1])
    if np.any(h < 0):
        return 'energy PDF histogram has negative bins'
    ref = ref_energy_hist(case)
    mass = (h * dE[:, None]).sum(axis=0)
    for j in range(h.shape[1]):
        content = any(ref[i][j] != 0 for i in range(h.shape[0]))
        if not kernel:
            want = 1.0 if content else 0.0
            if abs(mass[j] - want) > 1e-9:
                return 'energy PDF: band %d (sin(dec) in [%r, %r]) integrates to %r over log10(E), expected %r' % (
                    j, eD[j], eD[j + 1], float(mass[j]), want)
            for i in range(h.shape[0]):
                if not close(float(h[i, j]), float(ref[i][j]), 1e-9, 1e-300):
                    return 'energy PDF: bin (%d,%d) = %r, exact reference %r' % (i, j, float(h[i, j]), float(ref[i][j]))
        elif content and np.allclose(dE, dE[0], rtol=1e-12, atol=0):
            k = np.array(kernel)
            n = h.shape[0]
            c = (len(k) - 1) // 2
            K = np.zeros((n, n))
            for i in range(n):
                for jj in range(n):
                    m = i + c - jj
                    if 0 <= m < len(k):
                        K[i, jj] = k[m]
            K = K / K.sum(axis=1)[:, None]
            col = K.sum(axis=0)
            if not (col.min() - 1e-9 <= mass[j] <= col.max() + 1e-9):
                return 'smoothed energy PDF: band %d integrates to %r, outside the kernel bounds [%r, %r]' % (
                    j, float(mass[j]), float(col.min()), float(col.max()))
        elif not content and mass[j] != 0:
            return 'energy PDF: band %d has no content but integrates to %r' % (j, float(mass[j]))
    return None


def o_energy_eval(ctx, case):
    """every event accepted by assert_is_valid_for_trial_data is evaluated by get_pd (no exception), to the finite
    non-negative content of the histogram bin that contains it (outermost upper edges belong to the last bin)."""
    try:
        pdf, kernel = mk_energy(case)
    except Exception as e:  # noqa
        return 'constructing I3EnergyPDF raised %s: %s' % (type(e).__name__, e)
    eE, eD = fl(case['eE']), fl(case['eD'])
    h = np.asarray(pdf.hist)
    for qx, qy in zip(fl(case['qx']), fl(case['qy'])):
        # the trial data carries both the declination and its sine (computed elsewhere: they agree up to rounding)
        with np.errstate(all='ignore'):
            dec = float(np.arcsin(qy)) if -1 <= qy <= 1 else float('nan')
        tdm = TDM(log_energy=[qx], sin_dec=[qy], dec=[dec])
        try:
            pdf.assert_is_valid_for_trial_data(tdm)
            valid = True
        except ValueError:
            valid = False
        inside = eE[0] <= qx <= eE[-1] and eD[0] <= qy <= eD[-1]
        clearly_outside = (qx < eE[0] - 1e-6 or qx > eE[-1] + 1e-6 or qy < eD[0] - 1e-6 or qy > eD[-1] + 1e-6)
        if inside and not valid:
            return 'assert_is_valid_for_trial_data rejects the event log_energy=%r, sin_dec=%r inside the binning range' % (qx, qy)
        if clearly_outside and valid:
            return 'assert_is_valid_for_trial_data accepts the event log_energy=%r, sin_dec=%r outside the binning range' % (qx, qy)
        if not valid:
            continue
        # accepted => evaluable, with the content of the bin that contains the looked-up values
        try:
            with warnings.catch_warnings():
                warnings.simplefilter('ignore')
                pd, _ = pdf.get_pd(tdm)
            v = float(np.asarray(pd)[0])
        except Exception as e:  # noqa
            return ('I3EnergyPDF.get_pd raised %s (%s) for the event log_energy=%r, sin_dec=%r which '
                    'assert_is_valid_for_trial_data accepts (log10(E) edges %r, sin(dec) edges %r)') % (type(e).__name__, e, qx, qy, eE, eD)
        i, j = ref_bin(eE, qx), ref_bin(eD, qy)
        if not math.isfinite(v) or v < 0:
            return 'I3EnergyPDF.get_pd(log_energy=%r, sin_dec=%r) = %r for a valid event (bin (%r,%r))' % (qx, qy, v, i, j)
        if i is None or j is None:
            return ('assert_is_valid_for_trial_data accepts the event log_energy=%r, sin_dec=%r (dec=%r) which lies outside the '
                    'binning (log10(E) edges %r, sin(dec) edges %r); get_pd silently returns %r (bin index wraps around)') % (
                qx, qy, dec, eE, eD, v)
        if v != float(h[i, j]):
            return 'I3EnergyPDF.get_pd(log_energy=%r, sin_dec=%r) = %r, the bin (%d,%d) containing the event holds %r' % (qx, qy, v, i, j, float(h[i, j]))
    return None


def o_smooth_const(ctx, case):
    """smoothing a constant histogram returns the constant (boundary re-normalisation = partition of unity)
    and never produces negative values from non-negative input."""
    from skyllh.core.smoothing import BlockSmoothingFilter, GaussianSmoothingFilter, NeighboringBinHistSmoothingMethod, UNSMOOTH_AXIS
    sm = case['smooth']
    filt = (BlockSmoothingFilter if sm[0] == 'block' else GaussianSmoothingFilter)(nbins=int(sm[1]))
    meth = NeighboringBinHistSmoothingMethod((filt.axis_kernel_array, UNSMOOTH_AXIS))
    n, m = int(case['n']), int(case['m'])
    c = unjson_float(case['c'])
    try:
        out = meth.smooth(np.full((n, m), c))
    except ValueError:
        return None if 2 * int(sm[1]) + 1 > n else 'smooth raised ValueError for a kernel that fits'
    if out.shape != (n, m) or not np.allclose(out, c, rtol=1e-12, atol=0):
        return 'smoothing the constant histogram %r (%dx%d, %r) gives %r' % (c, n, m, sm, out.tolist())
    h = np.array(fl(case['h'])).reshape((n, m))
    out = meth.smooth(h)
    if np.any(out < 0):
        return 'smoothing a non-negative %dx%d histogram (%r) gave %d negative values, min %r' % (
            n, m, sm, int((out < 0).sum()), float(out.min()))
    return None


def o_energy_large(ctx, case):
    """histograms of the size analyses use (e.g. 100x50 bins, block-5 / gaussian-2 smoothing, sparse bands with
    leading empty energy bins): the smoothed density is finite and non-negative in EVERY bin (strictly: no -1e-16),
    bands with content have positive mass, get_pd is non-negative."""
    from skyllh.core.binning import BinningDefinition
    from skyllh.core.smoothing import BlockSmoothingFilter, GaussianSmoothingFilter
    from skyllh.i3.pdf import I3EnergyPDF
    nE, nD, n = int(case['nE']), int(case['nD']), int(case['n'])
    r = np.random.RandomState(int(case['seed']))
    eE, eD = np.linspace(1.0, 9.0, nE + 1), np.linspace(-1.0, 1.0, nD + 1)
    y = r.uniform(-1, 1, n)
    x = 1.0 + 8.0 * (0.3 + 0.7 * r.beta(2, 5, n)) * (0.6 + 0.4 * np.abs(y))     # leading energy bins stay empty
    keep = (np.floor((y + 1) / 2 * nD) % 7) != 3                                   # some empty declination bands
    x, y = x[keep], y[keep]
    w = r.uniform(0.1, 2.0, len(x))
    sm = case['smooth']
    filt = (BlockSmoothingFilter if sm[0] == 'block' else GaussianSmoothingFilter)(nbins=int(sm[1]))
    with warnings.catch_warnings():
        warnings.simplefilter('ignore')
        pdf = I3EnergyPDF(pmm=None, data_log10_energy=x, data_sin_dec=y, data_mcweight=w, data_physicsweight=np.ones(len(x)),
                          log10_energy_binning=BinningDefinition('log_energy', eE), sin_dec_binning=BinningDefinition('sin_dec', eD),
                          smoothing_filter=filt, cfg=cfg())
    h = np.asarray(pdf.hist)
    if not np.all(np.isfinite(h)):
        return 'smoothed %dx%d energy PDF (%r) has non-finite bins' % (nE, nD, sm)
    if np.any(h < 0):
        i, j = np.unravel_index(int(np.argmin(h)), h.shape)
        return ('smoothed %dx%d energy PDF (%r, %d events): %d bins have a negative probability density, min %r in bin (%d,%d)'
                % (nE, nD, sm, len(x), int((h < 0).sum()), float(h.min()), i, j))
    tdm = TDM(log_energy=0.5 * (eE[:-1] + eE[1:]), sin_dec=np.full(nE, 0.5 * (eD[0] + eD[1])), dec=np.zeros(nE))
    pd = np.asarray(pdf.get_pd(tdm)[0])
    if np.any(pd < 0) or not np.all(np.isfinite(pd)):
        return 'smoothed %dx%d energy PDF (%r): get_pd returns negative / non-finite densities, min %r' % (nE, nD, sm, float(np.nanmin(pd)))
    return None


def run_pmm(case):
    """SignalTimePDF driven through the REAL ParameterModelMapper / SourceHypoGroupManager / TrialDataManager
    (event selection => src_evt_idxs with a different event subset per source): global parameter 't0' for all sources,
    one width parameter per source.  mode 'floating': non-constant branch (get_pd computes with the source parameter
    rows of every step); mode 'fixed': constant branch (initialize_for_new_trial pre-calculates from the initial values).
    Returns per step (pd copy, per-source windows, src_idxs, evt_idxs, times of the selected events)."""
    import copy
    from harness import llh_fixtures as fx
    from skyllh.core.signalpdf import SignalTimePDF
    from skyllh.core.parameters import ParameterSet
    c = cfg()
    K = int(case['K'])
    ivs = [(unjson_float(a), unjson_float(b)) for a, b in case['ivs']]
    try:
        return _run_pmm(case, c, K, ivs, fx, copy, SignalTimePDF, ParameterSet)
    except _Fixture as e:
        raise MachineryError('fixture for the real ParameterModelMapper/TrialDataManager failed: %r' % (e.args,))


class _Fixture(Exception):
    pass


def _run_pmm(case, c, K, ivs, fx, copy, SignalTimePDF, ParameterSet):
    try:
        sources = fx.make_sources(K)
    except Exception as e:  # noqa
        raise _Fixture(e)
    shg = fx.make_shg_mgr(c, sources)
    fixed = case['mode'] == 'fixed'
    lo, hi = ivs[0][0], ivs[-1][1]
    span = max(hi - lo, 1e-6)
    init = case['steps'][0]
    p_t0 = fx.make_param('t0', unjson_float(init['t0']), lo - 2 * span, hi + 2 * span, fixed=fixed)
    p_tws = [fx.make_param('tw%d' % k, unjson_float(init['tw'][k]), 0.0, 10 * span, fixed=fixed) for k in range(K)]
    pmm = fx.make_pmm(sources, params=[p_t0] + [(p_tws[k], [sources[k]], ['tw']) for k in range(K)])
    times = np.array(fl(case['times']))
    events = fx.make_events(len(times), time=times)
    mask = np.array(case['mask'], dtype=bool)
    pdf = SignalTimePDF(pmm=pmm, livetime=mk_lt(ivs), time_flux_profile=mk_profile(case['prof']),
                        param_set=ParameterSet([p_t0, fx.make_param('tw', 5 * span, 0.0, 10 * span, fixed=fixed)]), cfg=c)
    out = []
    for trial in range(int(case.get('n_trials', 1))):
        tdm = fx.make_tdm(shg, pmm, events, evt_sel_method=fx.StubEventSelection(shg, mask))
        scratch = copy.deepcopy(pdf.time_flux_profile)
        with warnings.catch_warnings():
            warnings.simplefilter('ignore')
            pdf.initialize_for_new_trial(tdm)
        if fixed and pdf._pd is None:
            return 'constant SignalTimePDF (all parameters fixed) did not pre-calculate its densities'
        if not fixed and getattr(pdf, '_pd', None) is not None:
            return 'SignalTimePDF with floating parameters pre-calculated its densities in initialize_for_new_trial'
        for st in case['steps']:
            if fixed:
                rec = pmm.create_src_params_recarray()
            else:
                vals = fx.fitparam_values(pmm, 1.0, t0=unjson_float(st['t0']), **{'tw%d' % k: unjson_float(st['tw'][k]) for k in range(K)})
                rec = pmm.create_src_params_recarray(vals)
            wins = []
            for row in rec:
                scratch.set_params(dict(zip(rec.dtype.fields.keys(), row)))
                wins.append((float(scratch.t_start), float(scratch.t_stop)))
            with warnings.catch_warnings():
                warnings.simplefilter('ignore')
                pd = np.array(pdf.get_pd(tdm, rec)[0], dtype=np.float64, copy=True)
            (sidx, eidx) = tdm.src_evt_idxs
            out.append((pd, wins, np.array(sidx), np.array(eidx), np.array(tdm.get_data('time'), dtype=np.float64), ivs))
    return out


def o_time_pmm(ctx, case):
    """real ParameterModelMapper + TrialDataManager + event selection: every (source, event) value of SignalTimePDF.get_pd
    is the box density of that source's window at that event: 1 / (on-time inside the window) for on-time events inside
    the window, else 0 (exact interval arithmetic reference), over several minimiser steps and trials."""
    try:
        res = run_pmm(case)
    except MachineryError:
        raise
    except Exception as e:  # noqa
        return 'SignalTimePDF with a real ParameterModelMapper (%s, %d sources) raised %s: %s' % (case['mode'], case['K'], type(e).__name__, e)
    if isinstance(res, str):
        return res
    for n, (pd, wins, sidx, eidx, times, ivs) in enumerate(res):
        if len(pd) != len(sidx):
            return 'get_pd returned %d values for %d (source, event) pairs' % (len(pd), len(sidx))
        mag = max([abs(x) for p in ivs for x in p] + [abs(v) for w in wins for v in w])
        eps = 64 * float(np.spacing(mag))
        for v, (k, e) in enumerate(zip(sidx, eidx)):
            ts, te = wins[k]
            t = float(times[e])
            overlap = sum(hi - lo for lo, hi in on_window_pieces(ivs, ts, te))
            if 0 < overlap < 1e6 * eps or abs(t - ts) <= eps or abs(t - te) <= eps:
                continue
            want = 1.0 / overlap if (overlap > 0 and ref_is_on(ivs, t) and ts <= t <= te) else 0.0
            if not close(float(pd[v]), want, 1e-9):
                return ('SignalTimePDF.get_pd with a real ParameterModelMapper/TrialDataManager (%s parameters, %d sources, evaluation '
                        '%d): value %d (source %d, event time %r) = %r, the box density of that source (window [%r, %r], on-time inside '
                        '%r) is %r') % (case['mode'], case['K'], n + 1, v, k, t, float(pd[v]), ts, te, overlap, want)
    return None


def pmm_corr(case):
    res = run_pmm(case)
    if isinstance(res, str):
        return [], res
    reqs = []
    for (pd, wins, sidx, eidx, times, ivs) in res:
        reqs.append('tmulti %s %s %s %s %s %s' % (flist([x for p in ivs for x in p]), flist([w[0] for w in wins]), flist([w[1] for w in wins]),
                                                flist(times), ','.join(str(int(i)) for i in sidx) or '-', ','.join(str(int(i)) for i in eidx) or '-'))
    return reqs, res


def compare_pmm(case, res, answers):
    if isinstance(res, str):
        return res
    for (pd_, wins_, sidx_, eidx_, times_, ivs_) in res:
        K_ = len(wins_)
        for k_ in range(K_):
            n_own = int(np.sum(sidx_ == k_))
            br('srcPass:own-source', n_own)
            br('srcPass:other-source', len(sidx_) - n_own)
            if n_own == 0:
                br('calcPdMulti:source-without-values')
    for n, ((pd, wins, sidx, eidx, times, ivs), a) in enumerate(zip(res, answers)):
        if a == 'ERR':
            return 'evaluation %d: the model raises (window query / index), the implementation returned values' % (n + 1)
        mv = parse_flist(a)
        if len(mv) != len(pd):
            return 'evaluation %d: %d values, model %d' % (n + 1, len(pd), len(mv))
        mag = max([abs(x) for p in ivs for x in p] + [abs(v) for w in wins for v in w])
        for v, (x, y) in enumerate(zip(pd, mv)):
            ts, te = wins[int(sidx[v])]
            overlap = sum(hi - lo for lo, hi in on_window_pieces(ivs, ts, te))
            rel = 1e-9 + (16 * (len(ivs) + 2) * float(np.spacing(mag)) / overlap if overlap > 0 else 0.0)
            if not close(float(x), y, min(rel, 0.5)) and not (overlap > 0 and rel > 0.25):
                return 'evaluation %d, value %d (source %d): implementation %r, source-loop model %r' % (n + 1, v, int(sidx[v]), float(x), y)
    return None


def o_corr_pmm(ctx, case):
    try:
        reqs, res = pmm_corr(case)
    except MachineryError:
        raise
    except Exception as e:  # noqa
        return 'SignalTimePDF with a real ParameterModelMapper raised %s: %s' % (type(e).__name__, e)
    return compare_pmm(case, res, ctx.driver('C10', reqs) if reqs else [])


def o_ratio_consumer(ctx, case):
    """the real SigOverBkgPDFRatio consuming the pre-calculated arrays handed out by a constant SignalTimePDF and a
    BackgroundTimePDF (real TrialDataManager with event selection): ratio = sig / bkg per (source, event) pair, the same in
    every evaluation, and both densities are unchanged afterwards."""
    from harness import llh_fixtures as fx
    from skyllh.core.signalpdf import SignalTimePDF
    from skyllh.core.backgroundpdf import BackgroundTimePDF
    from skyllh.core.pdfratio import SigOverBkgPDFRatio
    c = cfg()
    try:
        K = int(case['K'])
        ivs = [(unjson_float(a), unjson_float(b)) for a, b in case['ivs']]
        sources = fx.make_sources(K)
        shg = fx.make_shg_mgr(c, sources)
        pmm = fx.make_pmm(sources)
        times = np.array(fl(case['times']))
        events = fx.make_events(len(times), time=times)
        tdm = fx.make_tdm(shg, pmm, events, evt_sel_method=fx.StubEventSelection(shg, np.array(case['mask'], dtype=bool)))
    except Exception as e:  # noqa
        raise MachineryError('fixture for SigOverBkgPDFRatio failed: %s: %s' % (type(e).__name__, e))
    try:
        sig = SignalTimePDF(pmm=pmm, livetime=mk_lt(ivs), time_flux_profile=mk_profile(case['prof']), cfg=c)
        lo, hi = ivs[0][0], ivs[-1][1]
        bkg = BackgroundTimePDF(livetime=mk_lt(ivs), time_flux_profile=mk_profile({'kind': 'unity'}), cfg=c)
        ratio = SigOverBkgPDFRatio(cfg=c, sig_pdf=sig, bkg_pdf=bkg, same_axes=False)
        rec = pmm.create_src_params_recarray()
        with warnings.catch_warnings():
            warnings.simplefilter('ignore')
            ratio.initialize_for_new_trial(tdm)
            s0 = np.array(sig.get_pd(tdm, rec)[0], copy=True)
            b0 = np.array(bkg.get_pd(tdm)[0], copy=True)
            (sidx, eidx) = tdm.src_evt_idxs
            bv = b0[eidx]
            want = np.where(bv > 0, s0 / np.where(bv > 0, bv, 1.0), 1.0)
            for n in range(3):
                r = np.array(ratio.get_ratio(tdm, rec), copy=True)
                if r.shape != want.shape or not all(close(float(a), float(b), 1e-12, 1e-300) for a, b in zip(r, want)):
                    return 'SigOverBkgPDFRatio(time PDFs), evaluation %d: ratio %r, sig/bkg of the densities before the first evaluation %r' % (
                        n + 1, r.tolist()[:6], want.tolist()[:6])
                if not np.array_equal(np.asarray(sig.get_pd(tdm, rec)[0]), s0) or not np.array_equal(np.asarray(bkg.get_pd(tdm)[0]), b0):
                    return 'SigOverBkgPDFRatio(time PDFs): after %d ratio evaluation(s) the densities of its PDFs changed' % (n + 1)
    except Exception as e:  # noqa
        return 'SigOverBkgPDFRatio of time PDFs raised %s: %s' % (type(e).__name__, e)
    return None


def gen_pmm_case(rng):
    ivs = gen_intervals(rng, rng.choice([1, 2, 3, 5, 8]))
    while not any(b > a for a, b in ivs):
        ivs = gen_intervals(rng, rng.choice([1, 2, 3, 5]))
    K = rng.choice([1, 2, 3, 4])
    lo, hi = ivs[0][0], ivs[-1][1]
    span = max(hi - lo, 1e-6)
    pool = interesting_times(rng, ivs, lo, hi, n_rand=8)
    E = rng.choice([0, 1, 3, 6, 10])
    times = [rng.choice(pool) for _ in range(E)]
    mask = [[rng.random() < 0.6 for _e in range(E)] for _k in range(K)]
    if E and rng.random() < 0.3:
        mask[rng.randrange(K)] = [False] * E         # a source without any selected event

    def step():
        return {'t0': lo + span * rng.uniform(-0.2, 1.2), 'tw': [span * rng.choice([0.01, 0.1, 0.5, 1.0, 3.0]) * rng.random() for _k in range(K)]}
    return {'ivs': [list(p) for p in ivs], 'K': K, 'times': times, 'mask': mask, 'mode': rng.choice(['floating', 'floating', 'fixed']),
            'prof': {'kind': 'box', 't0': 0.5 * (lo + hi), 'tw': span}, 'steps': [step() for _ in range(rng.choice([1, 2, 3]))],
            'n_trials': rng.choice([1, 2])}


def run_ext(case):
    """histories on ONE time PDF that change the live-time / profile in every reachable way between
    initialize_for_new_trial and get_pd.  ops: ['I', times] | ['G'] | ['L', ivs] | ['Q', prof] |
    ['M', ivs] (pdf.livetime.uptime_mjd_intervals_arr = ...) | ['X', params] (the shared profile object is changed
    from outside, e.g. by a second PDF).  Returns the list of (trial times, get_pd result | 'RuntimeError', fresh result,
    time axis, live-time window) per G and the model request."""
    import copy
    from skyllh.core.signalpdf import SignalTimePDF
    from skyllh.core.backgroundpdf import BackgroundTimePDF
    which = case['which']
    ivs = [(unjson_float(a), unjson_float(b)) for a, b in case['ivs']]
    prof = mk_profile(case['prof'])
    cls = SignalTimePDF if which == 'sig' else BackgroundTimePDF
    kw = {'pmm': None} if which == 'sig' else {}
    pdf = cls(livetime=mk_lt(ivs), time_flux_profile=prof, cfg=cfg(), **kw)
    table = [window_of(pdf)]
    cur = 0
    toks, outs = [], []
    tdm = None
    rec = np.empty((1,), dtype=[])

    def idx_of_window():
        nonlocal cur
        w = window_of(pdf)
        if w != table[cur]:
            if w in table:
                cur = table.index(w)
            else:
                table.append(w)
                cur = len(table) - 1
        return cur
    with warnings.catch_warnings():
        warnings.simplefilter('ignore')
        for op in case['ops']:
            if op[0] == 'I':
                tdm = TDM(time=fl(op[1]))
                pdf.initialize_for_new_trial(tdm)
                toks.append('I' + flist(fl(op[1])))
            elif op[0] == 'L':
                ivs = [(unjson_float(a), unjson_float(b)) for a, b in op[1]]
                pdf.livetime = mk_lt(ivs)
                toks.append('L' + flist([x for p in ivs for x in p]))
            elif op[0] == 'M':
                ivs = [(unjson_float(a), unjson_float(b)) for a, b in op[1]]
                pdf.livetime.uptime_mjd_intervals_arr = np.array(ivs, dtype=np.float64).reshape((-1, 2))
                toks.append('M' + flist([x for p in ivs for x in p]))
            elif op[0] == 'Q':
                pdf.time_flux_profile = mk_profile(op[1])
                toks.append('Q%d' % idx_of_window())
            elif op[0] == 'X':
                pdf.time_flux_profile.set_params({k: unjson_float(v) for k, v in op[1].items()})
                toks.append('X%d' % idx_of_window())
            elif op[0] == 'V':
                tv = unjson_float(op[1])
                try:
                    pdf.assert_is_valid_for_trial_data(TDM(time=[tv]))
                    okv = True
                except ValueError:
                    okv = False
                outs.append(('V', tv, okv, (ivs[0][0], ivs[-1][1])))
                toks.append('V' + f2b(tv))
            if op[0] in ('L', 'M'):
                # the validity check must follow the live-time at once: its first start and last stop are valid times
                try:
                    pdf.assert_is_valid_for_trial_data(TDM(time=[ivs[0][0], ivs[-1][1]]))
                except ValueError as e:
                    raise _StaleAxis('after %s the validity check rejects the first start / last stop %r of the current live-time: %s' % (
                        'pdf.livetime = ...' if op[0] == 'L' else 'pdf.livetime.uptime_mjd_intervals_arr = ...', (ivs[0][0], ivs[-1][1]), e))
            elif op[0] == 'G':
                if tdm is None:
                    continue
                try:
                    got = np.array(pdf.get_pd(tdm, rec)[0] if which == 'sig' else pdf.get_pd(tdm)[0], dtype=np.float64, copy=True)
                except RuntimeError:
                    got = 'RuntimeError'
                fresh = cls(livetime=mk_lt(ivs), time_flux_profile=copy.deepcopy(pdf.time_flux_profile), cfg=cfg(), **kw)
                want = eval_timepdf(fresh, which, tdm.f['time'])
                axis = pdf.axes['time']
                outs.append((list(tdm.f['time']), got, want, (float(axis.vmin), float(axis.vmax)), (ivs[0][0], ivs[-1][1]),
                             list(ivs), window_of(pdf)))
                toks.append('G')
    ivs0 = [(unjson_float(a), unjson_float(b)) for a, b in case['ivs']]
    req = 'tstate2 %s %s %s 0 %s' % (flist([w[0] for w in table]), flist([w[1] for w in table]),
                                      flist([x for p in ivs0 for x in p]), ' '.join(toks))
    return outs, req.strip()


class _StaleAxis(Exception):
    pass


def o_time_ext(ctx, case):
    """get_pd after live-time / profile changes made in any way (setters, nested interval array, shared profile object)
    between initialize_for_new_trial and get_pd returns what a fresh PDF for the current live-time and profile returns
    (a BackgroundTimePDF may instead refuse with a RuntimeError until it is initialised again), never a stale density;
    the time axis follows the live-time."""
    try:
        outs, _ = run_ext(case)
    except _StaleAxis as e:
        return '%s time PDF, history %r: %s' % (case['which'], [o[0] for o in case['ops']], e)
    except Exception as e:  # noqa
        return 'time PDF history %r raised %s: %s' % ([o[0] for o in case['ops']], type(e).__name__, e)
    for o_ in outs:
        if o_[0] == 'V':
            _v, tv, okv, (lo_, hi_) = o_
            if okv != (lo_ <= tv <= hi_):
                return ('%s time PDF, history %r: assert_is_valid_for_trial_data %s the time %r, the current live-time spans [%r, %r]' % (
                    case['which'], [o[0] for o in case['ops']], 'accepts' if okv else 'rejects', tv, lo_, hi_))
    outs = [o_ for o_ in outs if o_[0] != 'V']
    # which get_pd calls directly follow an initialize_for_new_trial (nothing changed in between): those must answer
    g_clean, clean, seen_i = [], False, False
    for op in case['ops']:
        if op[0] == 'I':
            clean, seen_i = True, True
        elif op[0] in ('L', 'M', 'Q', 'X'):
            clean = False
        elif op[0] == 'G' and seen_i:
            g_clean.append(clean)
    for k, (times, got, want, axis, win, ivs, w) in enumerate(outs):
        hist = [o[0] for o in case['ops']]
        if isinstance(got, str):
            if case['which'] == 'bkg':
                if k < len(g_clean) and g_clean[k]:
                    return ('BackgroundTimePDF, history %r (initial live-time %r, profile %r): get_pd number %d raises RuntimeError although the PDF was '
                            'initialised for its current live-time and profile and nothing was changed since') % (case['ops'], case['ivs'], case['prof'], k + 1)
                continue
            return 'SignalTimePDF.get_pd raised RuntimeError in the history %r' % hist
        for t, a, b in zip(times, got, want):
            if not close(float(a), float(b), 1e-12) or (not ref_is_on(ivs, t) and a != 0):
                return ('%s time PDF, history %r (initial live-time %r, profile %r): get_pd number %d returns pd(t=%r) = %r; for the '
                        'current live-time %r and window %r a fresh PDF gives %r') % (
                    case['which'], case['ops'], case['ivs'], case['prof'], k + 1, t, float(a), ivs, w, float(b))
        if axis != win:
            return ('%s time PDF, history %r: the time axis is %r but the live-time spans %r (validity check uses a stale range)'
                    % (case['which'], hist, axis, win))
    return None


def o_corr_state2(ctx, case):
    try:
        outs, req = run_ext(case)
    except Exception as e:  # noqa
        return 'time PDF history raised %s: %s' % (type(e).__name__, e)
    return compare_state2(case, outs, ctx.driver('C10', [req])[0])


def compare_state2(case, outs, ans):
    dirty = True
    for op in case['ops']:
        if op[0] == 'G':
            br('tGet:recomputed' if dirty else 'tGet:cached')
            dirty = False
        else:
            br({'L': 'tStep2:setLivetime', 'Q': 'tStep2:setProfile', 'X': 'tStep2:profileMutated', 'M': 'tStep2:livetimeMutated',
                'I': 'tStep2:initTrial', 'V': 'tStep2:checkValid'}[op[0]])
            dirty = dirty and op[0] == 'V' or op[0] not in ('I', 'V')
    if not outs:
        return None
    ms = ans.split(' ')
    if len(ms) != len(outs):
        raise MachineryError('tstate2: %d answers for %d get_pd calls' % (len(ms), len(outs)))
    for k, (o_, m) in enumerate(zip(outs, ms)):
        if o_[0] == 'V':
            if m != ('v1' if o_[2] else 'v0'):
                return 'validity check of t=%r: implementation %s, model %s' % (o_[1], 'accepts' if o_[2] else 'rejects', m)
            continue
        (times, got, want, axis, win, ivs, w) = o_
        if isinstance(got, str):
            continue
        if m == 'ERR':
            return 'get_pd number %d: model window query raises, implementation returns values' % (k + 1)
        mag = max([abs(x) for p in ivs for x in p] + [abs(v) for v in w if math.isfinite(v)])
        for t, a, b in zip(times, got, parse_flist(m)):
            overlap = sum(hi - lo for lo, hi in on_window_pieces(ivs, *w))
            rel = 1e-9 + (16 * (len(ivs) + 2) * float(np.spacing(mag)) / overlap if overlap > 0 else 0.0)
            if not close(float(a), b, min(rel, 0.5)) and not (overlap > 0 and rel > 0.25):
                return 'history %r, get_pd number %d, pd(t=%r): implementation %r, model %r' % (
                    [o[0] for o in case['ops']], k + 1, t, float(a), b)
    return None


def o_corr_bkg2(ctx, case):
    try:
        outs, req = run_ext(case)
    except Exception as e:  # noqa
        return 'time PDF history raised %s: %s' % (type(e).__name__, e)
    return compare_bkg2(case, outs, ctx.driver('C10', [req.replace('tstate2', 'tbkg', 1)])[0])


def compare_bkg2(case, outs, ans):
    """BackgroundTimePDF: RuntimeError <=> the model's bGet refuses (exact decision), else the values"""
    if not outs:
        return None
    ms = ans.split(' ')
    if len(ms) != len(outs):
        raise MachineryError('tbkg: %d answers for %d outputs' % (len(ms), len(outs)))
    for k, (o_, m) in enumerate(zip(outs, ms)):
        if o_[0] == 'V':
            if m != ('v1' if o_[2] else 'v0'):
                return 'bkg validity check of t=%r: implementation %s, model %s' % (o_[1], 'accepts' if o_[2] else 'rejects', m)
            continue
        (times, got, want, axis, win, ivs, w) = o_
        br('bStep:getPd')
        br('bGet:refuses' if m == 'RT' else 'bGet:answers')
        if isinstance(got, str) != (m == 'RT'):
            return 'history %r, BackgroundTimePDF.get_pd number %d: implementation %s, model %s' % (
                [o[0] for o in case['ops']], k + 1, 'raises RuntimeError' if isinstance(got, str) else 'returns values',
                'refuses' if m == 'RT' else 'returns values')
        if m == 'RT':
            continue
        mag = max([abs(x) for p in ivs for x in p] + [abs(v) for v in w if math.isfinite(v)])
        overlap = sum(hi - lo for lo, hi in on_window_pieces(ivs, *w))
        rel = 1e-9 + (16 * (len(ivs) + 2) * float(np.spacing(mag)) / overlap if overlap > 0 else 0.0)
        for t, a, b in zip(times, got, parse_flist(m)):
            if not close(float(a), b, min(rel, 0.5)) and not (overlap > 0 and rel > 0.25):
                return 'history %r, BackgroundTimePDF.get_pd number %d, pd(t=%r): implementation %r, model %r' % (
                    [o[0] for o in case['ops']], k + 1, t, float(a), b)
    return None


def gen_ext_history(rng, ivs, prof):
    """box profile; init / get with every kind of change in between"""
    def box():
        p = gen_profile(rng, ivs)
        while p['kind'] != 'box':
            p = gen_profile(rng, ivs)
        return p
    pool = interesting_times(rng, ivs, ivs[0][0], ivs[-1][1], n_rand=6)
    ops = [['I', [rng.choice(pool) for _ in range(rng.choice([1, 2, 4]))]], ['G']]
    for _ in range(rng.choice([1, 2, 3, 4])):
        r = rng.random()
        if r < 0.25:
            ivs = vary_intervals(rng, ivs)
            ops.append(['L', [list(p) for p in ivs]])
        elif r < 0.45:
            ivs = vary_intervals(rng, ivs)
            ops.append(['M', [list(p) for p in ivs]])
        elif r < 0.6:
            ops.append(['Q', box()])
        elif r < 0.8:
            p = box()
            ops.append(['X', rng.choice([{'t0': p['t0']}, {'tw': abs(p['tw'])}, {'t0': p['t0'], 'tw': abs(p['tw'])}])])
        else:
            pool = interesting_times(rng, ivs, ivs[0][0], ivs[-1][1], n_rand=6)
            ops.append(['I', [rng.choice(pool) for _ in range(rng.choice([1, 2, 4]))]])
        if rng.random() < 0.5:
            lo_, hi_ = ivs[0][0], ivs[-1][1]
            ops.append(['V', rng.choice([lo_, hi_, 0.5 * (lo_ + hi_), float(np.nextafter(hi_, np.inf)), float(np.nextafter(lo_, -np.inf)),
                                          hi_ + (hi_ - lo_ + 1e-3)])])
        if rng.random() < 0.7:
            ops.append(['G'])
    ops.append(['G'])
    return ops


# ------------------------------------------------------------------------------------------
# round 7: get_pd with parameter rows after the (shared, public) profile object was changed from outside

X_HOWS = ('t0', 'tw', 'move', 'set_params', 'other')


def run_rows(case):
    """histories on ONE SignalTimePDF (pmm=None) whose TimeFluxProfile object is changed from outside between the
    evaluations.  ops: ['I'] (initialize_for_new_trial, K = 1 only) | ['X', how, {'t0','tw'}] with how = profile.t0 = / profile.tw = /
    profile.move(dt) / profile.set_params / a second SignalTimePDF sharing the profile object evaluates get_pd with that row |
    ['L', ivs] | ['M', ivs] | ['G', rows] with rows = K entries None (empty recarray, dtype=[]) | 'cur' (row carrying the
    profile's current values: set_params reports no change) | {'t0','tw'} (new values).
    Returns per G: (times, [per-source got], [per-source fresh reference], ivs, [window per source]) and the model request."""
    import copy
    from skyllh.core.signalpdf import SignalTimePDF
    ivs = [(unjson_float(a), unjson_float(b)) for a, b in case['ivs']]
    ivs0 = list(ivs)
    K = case['K']
    times = fl(case['times'])
    profile = mk_profile(case['prof'])
    pn = ('t0', 'tw') if case['prof']['kind'] == 'box' else ('t0', 'sigma_t')     # the profile's parameter names
    form = case.get('form', 'plain')
    pmm = None
    if form == 'pmm':
        # the real ParameterModelMapper of K sources without time parameters (constant PDF): its recarray carries ':model_idx'
        from skyllh.core.parameters import ParameterModelMapper
        from skyllh.core.source_model import SourceModel
        pmm = ParameterModelMapper(models=[SourceModel() for _ in range(K)])
    pdf = SignalTimePDF(pmm=pmm, livetime=mk_lt(ivs), time_flux_profile=profile, cfg=cfg())
    other = None
    tdm = TDM(n_sources=K, time=times)
    table = [window_of(pdf)]
    toks, outs = [], []

    def cur_of(prof_obj):
        return tuple(float(getattr(prof_obj, n)) for n in pn)

    def idx(w):
        if w not in table:
            table.append(w)
        return table.index(w)

    def rec_of(rows, prof_obj):
        """(recarray, carries parameter values?)"""
        if all(r is None for r in rows):
            if pmm is not None and len(rows) == K:
                return pmm.create_src_params_recarray(gflp_values=[]), False
            return np.empty((len(rows),), dtype=[]), False
        fields = [(pn[0], np.float64), (pn[1], np.float64)]
        if pmm is not None:
            fields = [(':model_idx', np.int32), (pn[0], np.float64), (pn[0] + ':gpidx', np.int32), (pn[1], np.float64), (pn[1] + ':gpidx', np.int32)]
        rec = np.zeros((len(rows),), dtype=fields)
        if pmm is not None:
            rec[':model_idx'] = np.arange(len(rows))
        cur = cur_of(prof_obj)
        for k, r in enumerate(rows):
            if isinstance(r, dict):
                cur = (unjson_float(r[pn[0]]), unjson_float(r[pn[1]]))
            rec[pn[0]][k], rec[pn[1]][k] = cur
        return rec, True
    with warnings.catch_warnings():
        warnings.simplefilter('ignore')
        for op in case['ops']:
            if op[0] == 'I':
                pdf.initialize_for_new_trial(tdm)
                toks.append('I' + flist(times))
            elif op[0] == 'L':
                ivs = [(unjson_float(a), unjson_float(b)) for a, b in op[1]]
                pdf.livetime = mk_lt(ivs)
                toks.append('L' + flist([x for p in ivs for x in p]))
            elif op[0] == 'M':
                ivs = [(unjson_float(a), unjson_float(b)) for a, b in op[1]]
                pdf.livetime.uptime_mjd_intervals_arr = np.array(ivs, dtype=np.float64).reshape((-1, 2))
                toks.append('M' + flist([x for p in ivs for x in p]))
            elif op[0] == 'C':
                # the history continues on a copy of the PDF object (provenance is no part of the state: no model token)
                import pickle
                if op[1] == 'copy':
                    pdf = copy.copy(pdf)
                elif op[1] == 'deepcopy':
                    pdf = copy.deepcopy(pdf)
                else:
                    try:
                        blob = pickle.dumps(pdf)
                    except Exception:  # noqa  not picklable in this configuration: the history goes on with the original
                        blob = None
                    if blob is not None:
                        pdf = pickle.loads(blob)
                profile = pdf.time_flux_profile
                pmm = pdf.pmm
                other = None
            elif op[0] == 'X':
                how, t0, tw = op[1], unjson_float(op[2][pn[0]]), unjson_float(op[2][pn[1]])
                if how == 't0':
                    profile.t0 = t0
                elif how == 'tw':
                    setattr(profile, pn[1], tw)
                elif how == 'move':
                    profile.move(t0 - float(profile.t0))
                elif how == 'set_params':
                    profile.set_params({pn[0]: t0, pn[1]: tw})
                else:
                    if other is None:
                        other = SignalTimePDF(pmm=None, livetime=mk_lt(ivs0), time_flux_profile=profile, cfg=cfg())
                    orec = np.zeros((1,), dtype=[(pn[0], np.float64), (pn[1], np.float64)])
                    orec[pn[0]], orec[pn[1]] = t0, tw
                    other.get_pd(TDM(time=times[:1]), orec)
                toks.append('X%d' % idx(window_of(pdf)))
            elif op[0] == 'G':
                rows = op[1]
                rec, named = rec_of(rows, profile)
                shadow = copy.deepcopy(profile)
                want, wins, rtoks = [], [], []
                for k, r in enumerate(rows):
                    if named:
                        shadow.set_params({pn[0]: float(rec[pn[0]][k]), pn[1]: float(rec[pn[1]][k])})
                    fresh = SignalTimePDF(pmm=None, livetime=mk_lt(ivs), time_flux_profile=copy.deepcopy(shadow), cfg=cfg())
                    want.append(eval_timepdf(fresh, 'sig', times))
                    w = (float(shadow.t_start), float(shadow.t_stop))
                    wins.append(w)
                    rtoks.append('n' if not named else str(idx(w)))
                got = np.array(pdf.get_pd(tdm, rec)[0], dtype=np.float64, copy=True)
                if len(got) != K * len(times):
                    raise MachineryError('get_pd returned %d values for %d sources x %d events' % (len(got), K, len(times)))
                outs.append((times, [got[k * len(times):(k + 1) * len(times)] for k in range(K)], want, list(ivs), wins))
                toks.append('R%s/%s' % (flist(times), ':'.join(rtoks)))
    req = 'trows %s %s %s 0 0 %s' % (flist([w[0] for w in table]), flist([w[1] for w in table]),
                                       flist([x for p in ivs0 for x in p]), ' '.join(toks))
    return outs, req.strip()


def o_time_rows(ctx, case):
    """after the TimeFluxProfile object of a SignalTimePDF was changed from outside (attribute, move, set_params, another PDF
    sharing it), get_pd / initialize_for_new_trial with an empty parameter row, with rows equal to the profile's current values
    or with new values returns for every source what a fresh PDF for the current live-time and that source's profile state returns
    (density normalised over the on-time of the CURRENT window, never divided by the S of an earlier window)."""
    try:
        outs, _ = run_rows(case)
    except MachineryError:
        raise
    except Exception as e:  # noqa
        return 'SignalTimePDF history %r raised %s: %s' % ([o[:2] for o in case['ops']], type(e).__name__, e)
    for k, (times, got, want, ivs, wins) in enumerate(outs):
        for j, (g, w_) in enumerate(zip(got, want)):
            for t, a, b in zip(times, g, w_):
                if not close(float(a), float(b), 1e-12) or (not ref_is_on(ivs, t) and a != 0):
                    return ('SignalTimePDF (initial live-time %r, profile %r), history %r: get_pd number %d, source %d returns pd(t=%r) = %r; '
                            'for the current live-time %r and profile window %r a fresh PDF gives %r (stale normalisation S)') % (
                        case['ivs'], case['prof'], case['ops'], k + 1, j, t, float(a), ivs, wins[j], float(b))
    return None


def o_corr_rows(ctx, case):
    try:
        outs, req = run_rows(case)
    except MachineryError:
        raise
    except Exception as e:  # noqa
        return 'SignalTimePDF history raised %s: %s' % (type(e).__name__, e)
    return compare_rows(case, outs, ctx.driver('C10', [req])[0])


def compare_rows(case, outs, ans):
    # branches of the model functions of Model/PdfR7.lean (decided by the history alone)
    cached, dirty = False, False
    for op in case['ops']:
        if op[0] == 'I':
            br('tInitRows')
            br('rowPass:stale-refreshed' if dirty else 'rowPass:up-to-date')
            cached, dirty = True, False
        elif op[0] in ('L',):
            cached, dirty = False, False
        elif op[0] in ('M', 'X'):
            dirty = True
        elif op[0] == 'G':
            if cached and not dirty:
                br('tGetRows:cached')
                continue
            br('tGetRows:calculated')
            for r in op[1]:
                br('setParamsRow:empty' if all(x is None for x in op[1]) else 'setParamsRow:same' if not isinstance(r, dict) else 'setParamsRow:new')
                if isinstance(r, dict):
                    dirty = True
                br('rowPass:stale-refreshed' if dirty else 'rowPass:up-to-date')
                if dirty:
                    cached = False
                dirty = False
    if not outs:
        return None
    ms = ans.split(' ')
    if len(ms) != len(outs):
        raise MachineryError('trows: %d answers for %d get_pd calls (%r)' % (len(ms), len(outs), ans[:200]))
    for k, ((times, got, want, ivs, wins), m) in enumerate(zip(outs, ms)):
        parts = m.split('|')
        if len(parts) != len(got):
            return 'get_pd number %d: implementation returns %d sources, model %d' % (k + 1, len(got), len(parts))
        for j, (g, pm, w) in enumerate(zip(got, parts, wins)):
            if pm == 'ERR':
                return 'get_pd number %d source %d: model window query raises, implementation returns values' % (k + 1, j)
            mag = max([abs(x) for p in ivs for x in p] + [abs(v) for v in w if math.isfinite(v)])
            overlap = sum(hi - lo for lo, hi in on_window_pieces(ivs, *w))
            rel = 1e-9 + (16 * (len(ivs) + 2) * float(np.spacing(mag)) / overlap if overlap > 0 else 0.0)
            for t, a, b in zip(times, g, parse_flist(pm)):
                if not close(float(a), b, min(rel, 0.5)) and not (overlap > 0 and rel > 0.25):
                    return 'history %r, get_pd number %d, source %d, pd(t=%r): implementation %r, model %r' % (
                        [o[:2] for o in case['ops']], k + 1, j, t, float(a), b)
    return None


def gen_rows_case(rng, k):
    """directed (template k mod 10, always generated) + random tail.  The outside change always moves the window to one with a
    clearly different on-time overlap, and the trial holds on-time events inside the new window."""
    def overlap(p):
        ts, te = p['t0'] - 0.5 * p['tw'], p['t0'] + 0.5 * p['tw']
        return sum(hi - lo for lo, hi in on_window_pieces(ivs, ts, te))

    def box(avoid=None):
        for _ in range(200):
            p = gen_profile(rng, ivs)
            if p['kind'] != 'box' or not p['tw'] > 0:
                continue
            o = overlap(p)
            if o > 0 and (avoid is None or abs(o - avoid) > 0.05 * max(o, avoid)):
                return p, o
        return None, None
    while True:
        ivs = gen_intervals(rng, rng.choice([1, 2, 3, 3, 5, 8]))
        p1, o1 = box()
        if p1 is None:
            continue
        p2, o2 = box(o1)
        if p2 is None:
            continue
        p3, o3 = box(o2)
        if p3 is None:
            continue
        break
    d2 = {'t0': p2['t0'], 'tw': p2['tw']}
    d3 = {'t0': p3['t0'], 'tw': p3['tw']}
    how = X_HOWS[k % len(X_HOWS)]
    if how == 't0':
        d2 = {'t0': p2['t0'], 'tw': p1['tw']}
    elif how == 'tw':
        d2 = {'t0': p1['t0'], 'tw': p2['tw']}
    elif how == 'move':
        d2 = {'t0': p2['t0'], 'tw': p1['tw']}
    # event times: on-time points of the window the profile is moved to, plus the usual interesting ones
    ts2, te2 = d2['t0'] - 0.5 * d2['tw'], d2['t0'] + 0.5 * d2['tw']
    pool = interesting_times(rng, ivs, ts2, te2, n_rand=6)
    inside = [0.5 * (lo + hi) for lo, hi in on_window_pieces(ivs, ts2, te2)]
    times = (inside[:2] + [rng.choice(pool) for _ in range(rng.choice([1, 2, 4]))]) if inside else [rng.choice(pool) for _ in range(3)]
    tmpl = (k // len(X_HOWS)) % 6
    X = ['X', how, d2]
    K = 1
    if tmpl == 0:      # evaluated, changed from outside, evaluated with the empty row
        ops = [['G', [None]], X, ['G', [None]]]
    elif tmpl == 1:    # changed before the first evaluation; row = the profile's current values
        ops = [X, ['G', ['cur']]]
    elif tmpl == 2:    # pre-calculated, changed, get_pd
        ops = [['I'], ['G', [None]], X, ['G', [None]]]
    elif tmpl == 3:    # changed, then initialize_for_new_trial (empty rows inside) and get_pd
        ops = [['G', [None]], X, ['I'], ['G', [None]]]
    elif tmpl == 4:    # parameters through get_pd, changed from outside, current values again
        ops = [['G', [d3]], X, ['G', ['cur']]]
    else:              # two sources
        K = 2
        ops = [['G', [d3, 'cur']], X, ['G', ['cur', 'cur']], ['G', [d3, dict(d2)]]]
    inited = any(o[0] == 'I' for o in ops)
    if rng.random() < 0.4:
        # the object the history goes on with was obtained through copy / deepcopy / pickle, before or after the outside change
        ops.insert(rng.choice([j for j in range(len(ops) + 0) if ops[j][0] in ('X', 'G')] or [0]) + rng.choice([0, 1]), ['C', rng.choice(['copy', 'deepcopy', 'pickle'])])
    for _ in range(rng.choice([0, 0, 1, 2])):
        r = rng.random()
        if r < 0.2:
            ops.append(['L' if rng.random() < 0.5 else 'M', [list(p) for p in vary_intervals(rng, ivs)]])
        elif r < 0.6:
            pn, _o = box()
            if pn is not None:
                ops.append(['X', rng.choice(['set_params', 'other']), {'t0': pn['t0'], 'tw': pn['tw']}])
        ops.append(['G', [None] * K if inited else [rng.choice([None, 'cur'])] * K if rng.random() < 0.7 else [d3] + ['cur'] * (K - 1)])
    return {'ivs': [list(p) for p in ivs], 'prof': p1, 'K': K, 'times': times, 'ops': ops, 'form': rng.choice(['plain', 'pmm'])}



def gen_rows_case_gauss(rng, k):
    """the same directed templates for a gaussian profile (t0 / sigma_t): oracle only (the `trows` model op is for box windows).
    The profile is moved from the middle of an on-time interval to an interval edge (about half of it in off-time or in the next interval)."""
    while True:
        ivs = gen_intervals(rng, rng.choice([1, 2, 3, 5]))
        good = [(a, b) for a, b in ivs if b - a > 0]
        if good:
            break
    a, b = rng.choice(good)
    sg = (b - a) * rng.choice([0.02, 0.1, 0.3])
    p1 = {'kind': 'gauss', 't0': 0.5 * (a + b), 'sigma': sg, 'tol': None}
    a2, b2 = rng.choice(good)
    sg2 = sg * rng.choice([0.3, 1.0, 3.0])
    how = X_HOWS[k % len(X_HOWS)]
    d2 = {'t0': rng.choice([a2, b2]), 'sigma_t': sg2}
    if how in ('t0', 'move'):
        d2['sigma_t'] = sg
    elif how == 'tw':
        d2 = {'t0': p1['t0'], 'sigma_t': sg * rng.choice([0.2, 5.0, 20.0])}
    d3 = {'t0': a + (b - a) * rng.random(), 'sigma_t': sg * rng.choice([0.5, 2.0])}
    w = 3.0 * d2['sigma_t']
    cand = [d2['t0'] + u * w for u in (-0.5, -0.1, 0.1, 0.5, 0.0)]
    lo, hi = ivs[0][0], ivs[-1][1]
    times = [t for t in cand if lo <= t <= hi and ref_is_on(ivs, t)][:3] + [rng.choice([x for p in ivs for x in p])]
    X = ['X', how, d2]
    tmpl = (k // len(X_HOWS)) % 5
    ops = [[['G', [None]], X, ['G', [None]]],
           [X, ['G', ['cur']]],
           [['I'], ['G', [None]], X, ['G', [None]]],
           [['G', [None]], X, ['I'], ['G', [None]]],
           [['G', [d3]], X, ['G', ['cur']]]][tmpl]
    return {'ivs': [list(p) for p in ivs], 'prof': p1, 'K': 1, 'times': times, 'ops': ops, 'form': rng.choice(['plain', 'pmm'])}


def _caller_arrays(case):
    return {k: np.array(fl(case[k]), dtype=np.float64) for k in ('eE', 'eD', 'x', 'y', 'mcw', 'pw')}


def _scribble(a, how, c):
    """the caller re-uses one of its arrays in place"""
    if how == 'shift':
        a += c
    elif how == 'scale':
        a *= c
    elif how == 'reverse':
        a[:] = a[::-1].copy()
    else:
        a[:] = np.nan


def run_eobj(case):
    """an I3EnergyPDF built from float64 ndarrays the caller keeps (bin edges handed to BinningDefinition as ndarrays, data,
    weights, smoothing kernel) while the caller goes on overwriting these arrays in place; ops W (overwrite) / G (get_pd of
    one event) / V (validity check).  Returns outputs per op and the model request."""
    from skyllh.core.binning import BinningDefinition
    from skyllh.core.smoothing import SmoothingFilter
    from skyllh.i3.pdf import I3EnergyPDF
    A = _caller_arrays(case)
    kernel = [float(v) for v in case.get('kernel') or []]
    karr = np.array(kernel, dtype=np.float64)
    filt = SmoothingFilter(karr) if kernel else None
    if kernel and case.get('kernel_scribbled_before_pdf'):
        _scribble(karr, 'scale', 0.0)
    with warnings.catch_warnings():
        warnings.simplefilter('ignore')
        pdf = I3EnergyPDF(pmm=None, data_log10_energy=A['x'], data_sin_dec=A['y'], data_mcweight=A['mcw'], data_physicsweight=A['pw'],
                          log10_energy_binning=BinningDefinition('log_energy', A['eE']), sin_dec_binning=BinningDefinition('sin_dec', A['eD']),
                          smoothing_filter=filt, cfg=cfg())
    outs, toks = [], []
    for op in case['ops']:
        if op[0] == 'W':
            for name, (how, c) in op[1].items():
                _scribble(A[name], how, c)
            _scribble(karr, 'scale', 0.0) if kernel else None
            outs.append('u')
            toks.append('W%s;%s' % (flist(A['eE']), flist(A['eD'])))
        else:
            qx, qy = unjson_float(op[1]), unjson_float(op[2])
            tdm = TDM(log_energy=[qx], sin_dec=[qy], dec=[0.0])
            if op[0] == 'V':
                try:
                    pdf.assert_is_valid_for_trial_data(tdm)
                    outs.append(True)
                except ValueError:
                    outs.append(False)
            else:
                try:
                    with warnings.catch_warnings():
                        warnings.simplefilter('ignore')
                        outs.append(float(np.asarray(pdf.get_pd(tdm)[0])[0]))
                except IndexError:
                    outs.append('ERR')
            toks.append('%s%s;%s' % (op[0], f2b(qx), f2b(qy)))
    req = 'eobj %s %s %s %s %s %s %s %s' % (flist(kernel), flist(fl(case['eE'])), flist(fl(case['eD'])), flist(fl(case['x'])), flist(fl(case['y'])),
                                           flist(fl(case['mcw'])), flist(fl(case['pw'])), ' '.join(toks))
    return outs, req


def o_inputs_independent(ctx, case):
    """a density object does not depend on what the caller does, AFTER construction, to the arrays it handed in (bin edges given
    as float64 ndarrays, data, weights, grid values, live-time interval array, smoothing kernel): evaluation and validity
    decisions before and after the caller overwrote its arrays in place are identical."""
    kind = case['kind']
    try:
        if kind == 'energy':
            outs, _ = run_eobj(case)
            if case.get('kernel_scribbled_before_pdf'):
                # the caller overwrote its kernel array after creating the SmoothingFilter, before building the PDF with it
                lead = []
                for op in case['ops']:
                    if op[0] == 'W':
                        break
                    lead.append(op)
                twin = dict(case)
                twin.update({'kernel_scribbled_before_pdf': False, 'ops': lead})
                touts, _ = run_eobj(twin)
                for op, a, b in zip(lead, outs, touts):
                    if not (a == b or (a != a and b != b)):
                        return ('I3EnergyPDF built with a SmoothingFilter whose kernel array the caller overwrote (k *= 0) after creating the '
                                'filter: %s(log_energy=%r, sin_dec=%r) = %r, with an untouched kernel array %r') % (
                            'get_pd' if op[0] == 'G' else 'validity', op[1], op[2], a, b)
            first = {}
            for op, o in zip(case['ops'], outs):
                if op[0] == 'W':
                    continue
                key = (op[0], repr(op[1]), repr(op[2]))
                if key in first and not (first[key] == o or (o != o and first[key] != first[key])):
                    return ('I3EnergyPDF built from float64 edge / data arrays: %s for the event (log_energy=%r, sin_dec=%r) was %r, after the '
                            'caller overwrote its own arrays in place (%r) it is %r') % (
                        'get_pd' if op[0] == 'G' else 'the validity decision', op[1], op[2], first[key],
                        [o_[1] for o_ in case['ops'] if o_[0] == 'W'][:2], o)
                first.setdefault(key, o)
            return None
        from skyllh.core.binning import BinningDefinition
        if kind == 'spatial':
            from skyllh.i3.backgroundpdf import BackgroundI3SpatialPDF
            sp = case['spatial']
            arrs = [np.array(fl(sp['edges'])), np.array(fl(sp['x'])), np.array(fl(sp['w']))]
            with warnings.catch_warnings():
                warnings.simplefilter('ignore')
                pdf = BackgroundI3SpatialPDF(data_sin_dec=arrs[1], data_weights=arrs[2], sin_dec_binning=BinningDefinition('sin_dec', arrs[0]),
                                             spline_order_sin_dec=int(sp.get('order', 1)), cfg=cfg())
            pts = 0.5 * (arrs[0][:-1] + arrs[0][1:])
            probe = lambda: (spatial_pd(pdf, pts).copy(), [float(a.vmin) for a in pdf.axes] + [float(a.vmax) for a in pdf.axes])
        elif kind == 'grid':
            from skyllh.core.backgroundpdf import BackgroundMultiDimGridPDF
            g = case['grid']
            arrs = [np.array(fl(g['ey'])), np.array(fl(g['ex'])), np.array(fl(g['grid'])).reshape((len(g['ey']), len(g['ex'])))]
            pdf = BackgroundMultiDimGridPDF(pmm=None, axis_binnings=[BinningDefinition('sin_dec', arrs[0]), BinningDefinition('log_energy', arrs[1])],
                                            pdf_grid_data=arrs[2], cache_pd_values=bool(g['cache']), cfg=cfg())
            ys = np.linspace(arrs[0][0], arrs[0][-1], 5).copy()
            xs = np.linspace(arrs[1][0], arrs[1][-1], 5).copy()
            st = [0]

            def probe():
                st[0] += 1
                tdm = GridTDM(700 + st[0], sin_dec=ys, log_energy=xs)
                try:
                    pdf.assert_is_valid_for_trial_data(tdm)
                    ok = True
                except ValueError:
                    ok = False
                return (np.array(pdf.get_pd(tdm)[0], copy=True), ok)
        else:
            from skyllh.core.livetime import Livetime
            from skyllh.core.signalpdf import SignalTimePDF
            from skyllh.core.backgroundpdf import BackgroundTimePDF
            ivs = [(unjson_float(a), unjson_float(b)) for a, b in case['ivs']]
            arrs = [np.array(ivs, dtype=np.float64).reshape((-1, 2))]
            lt = Livetime(arrs[0])
            if case['which'] == 'sig':
                pdf = SignalTimePDF(pmm=None, livetime=lt, time_flux_profile=mk_profile(case['prof']), cfg=cfg())
            else:
                pdf = BackgroundTimePDF(livetime=lt, time_flux_profile=mk_profile(case['prof']), cfg=cfg())
            ts = [a + 0.5 * (b - a) for a, b in ivs] + [ivs[0][0], ivs[-1][1]]
            probe = lambda: (eval_timepdf(pdf, case['which'], ts).copy(), float(pdf.axes['time'].vmin), float(pdf.axes['time'].vmax))
        before = probe()
        for a in arrs:
            _scribble(a, case['how'], unjson_float(case['c']))
        after = probe()
    except Exception as e:  # noqa
        return '%s PDF built from caller-held arrays raised %s: %s' % (kind, type(e).__name__, e)
    same = all((np.array_equal(np.asarray(x), np.asarray(y), equal_nan=True)) for x, y in zip(before, after))
    if not same:
        return ('%s PDF: after the caller overwrote the arrays it had handed in at construction in place (%s %r) the PDF changed: '
                'before %r, after %r') % (kind, case['how'], case['c'], [np.asarray(v).tolist() for v in before][:2], [np.asarray(v).tolist() for v in after][:2])
    return None


def o_corr_eobj(ctx, case):
    try:
        outs, req = run_eobj(case)
    except Exception as e:  # noqa
        return 'I3EnergyPDF next to a caller overwriting its arrays raised %s: %s' % (type(e).__name__, e)
    return compare_eobj(case, outs, ctx.driver('C10', [req])[0])


def compare_eobj(case, outs, ans):
    ms = ans.split(' ')
    if len(ms) != len(outs):
        raise MachineryError('eobj: %d answers for %d ops' % (len(ms), len(outs)))
    for op, o, m in zip(case['ops'], outs, ms):
        br({'W': 'eStep:callerWrites', 'G': 'eStep:get', 'V': 'eStep:valid'}[op[0]])
        if op[0] == 'W':
            continue
        if op[0] == 'V':
            if m != ('v1' if o else 'v0'):
                return 'validity of (log_energy=%r, sin_dec=%r): implementation %s, object model %s' % (op[1], op[2], o, m)
        else:
            if unjson_float(op[1]) != unjson_float(op[1]) or unjson_float(op[2]) != unjson_float(op[2]):
                continue
            if (o == 'ERR') != (m == 'ERR') or (o != 'ERR' and not close(o, b2f(m), REL, 1e-300)):
                return 'get_pd(log_energy=%r, sin_dec=%r) after %d caller overwrite(s): implementation %r, object model %s' % (
                    op[1], op[2], sum(1 for o_ in case['ops'][:case['ops'].index(op)] if o_[0] == 'W'), o, m if m == 'ERR' else b2f(m))
    return None


def gen_eobj_case(rng, nprng):
    base = gen_energy_case(rng, nprng)
    nE = len(base['eE']) - 1
    kernel = None
    if nE >= 3 and rng.random() < 0.4:
        kernel = [1.0, 1.0, 1.0] if rng.random() < 0.5 else [0.25, 1.0, 0.25]
    qs = list(zip(base['qx'], base['qy']))[:10]
    ops = []
    for _r in range(rng.choice([1, 2, 3])):
        for (qx, qy) in rng.sample(qs, min(len(qs), 4)):
            ops.append([rng.choice(['G', 'G', 'V']), qx, qy])
        w = {}
        for name in rng.sample(['eE', 'eD', 'x', 'y', 'mcw', 'pw'], rng.choice([1, 2, 6])):
            w[name] = [rng.choice(['shift', 'scale', 'reverse', 'nan']), rng.choice([1.0, -0.5, 0.1, 10.0])]
        if rng.random() < 0.7:
            w['eE'] = ['shift', rng.choice([1.0, 0.25])]
            w['eD'] = [rng.choice(['shift', 'scale']), 0.5]
        ops.append(['W', w])
    for (qx, qy) in qs[:6]:
        ops.append(['G', qx, qy])
        ops.append(['V', qx, qy])
    # make every query appear before the first overwrite too
    ops = [[o_[0], o_[1], o_[2]] for o_ in ops if o_[0] != 'W'][:0] + [['G', qx, qy] for (qx, qy) in qs[:6]] + [['V', qx, qy] for (qx, qy) in qs[:6]] + ops
    out = {k: base[k] for k in ('eE', 'eD', 'x', 'y', 'mcw', 'pw')}
    out.update({'kind': 'energy', 'kernel': kernel, 'kernel_scribbled_before_pdf': bool(kernel) and rng.random() < 0.5, 'ops': ops})
    return out


def o_energy_variants(ctx, case):
    """the public subclasses build the same density as the base class from the same numbers: DataBackgroundI3EnergyPDF
    (unit weights) and MCBackgroundI3EnergyPDF (mcweight x sum of the named physics weight fields), data handed in as
    DataFieldRecordArray in any memory layout / dtype (float32 data, non-contiguous views); a smoothing kernel longer than the
    log10(E) axis is refused with a ValueError, a fitting one is not."""
    from skyllh.core.binning import BinningDefinition
    from skyllh.core.smoothing import BlockSmoothingFilter
    from skyllh.core.storage import DataFieldRecordArray
    from skyllh.i3.backgroundpdf import DataBackgroundI3EnergyPDF, MCBackgroundI3EnergyPDF
    from skyllh.i3.pdf import I3EnergyPDF
    eE, eD = np.array(fl(case['eE'])), np.array(fl(case['eD']))
    x, y = np.array(fl(case['x'])), np.array(fl(case['y']))
    mcw, pw = np.array(fl(case['mcw'])), np.array(fl(case['pw']))
    bE, bD = BinningDefinition('log_energy', eE), BinningDefinition('sin_dec', eD)
    layout = case.get('layout', 'plain')

    def arr(a):
        if layout == 'strided':
            b = np.empty(2 * len(a) + 1, dtype=np.float64)
            b[1::2] = a
            return b[1::2]
        if layout == 'fortran2d':
            return np.asfortranarray(np.vstack([a, a]).T)[:, 0]
        return np.array(a)
    try:
        with warnings.catch_warnings():
            warnings.simplefilter('ignore')
            base_d = I3EnergyPDF(pmm=None, data_log10_energy=x, data_sin_dec=y, data_mcweight=np.ones(len(x)), data_physicsweight=np.ones(len(x)),
                                 log10_energy_binning=bE, sin_dec_binning=bD, smoothing_filter=None, cfg=cfg())
            d = DataBackgroundI3EnergyPDF(DataFieldRecordArray({'log_energy': arr(x), 'sin_dec': arr(y)}, copy=False), bE, bD, cfg=cfg())
            if not np.array_equal(np.asarray(base_d.hist), np.asarray(d.hist), equal_nan=True):
                return 'DataBackgroundI3EnergyPDF (%s arrays) differs from I3EnergyPDF with unit weights on the same events' % layout
            w1 = pw * 0.25
            base_m = I3EnergyPDF(pmm=None, data_log10_energy=x, data_sin_dec=y, data_mcweight=mcw, data_physicsweight=w1 + (pw - w1),
                                 log10_energy_binning=bE, sin_dec_binning=bD, smoothing_filter=None, cfg=cfg())
            m = MCBackgroundI3EnergyPDF(DataFieldRecordArray({'log_energy': arr(x), 'sin_dec': arr(y), 'mcweight': arr(mcw), 'wa': arr(w1),
                                                              'wb': arr(pw - w1)}, copy=False), ['wa', 'wb'], bE, bD, cfg=cfg())
            if not np.allclose(np.asarray(base_m.hist), np.asarray(m.hist), rtol=1e-12, atol=0, equal_nan=True):
                return 'MCBackgroundI3EnergyPDF (%s arrays, two physics weight fields) differs from I3EnergyPDF with the summed weights' % layout
            for pdf_ in (d, m):
                h = np.asarray(pdf_.hist)
                if not np.all(np.isfinite(h)) or np.any(h < 0):
                    return '%s histogram has non-finite or negative bins' % type(pdf_).__name__
    except Exception as e:  # noqa
        return 'constructing the I3EnergyPDF subclasses (%s arrays) raised %s: %s' % (layout, type(e).__name__, e)
    for nb in (int(case.get('nb_fit', 1)), (len(eE) - 1) // 2 + 1):
        fits = 2 * nb + 1 <= len(eE) - 1
        try:
            with warnings.catch_warnings():
                warnings.simplefilter('ignore')
                I3EnergyPDF(pmm=None, data_log10_energy=x, data_sin_dec=y, data_mcweight=mcw, data_physicsweight=pw,
                            log10_energy_binning=bE, sin_dec_binning=bD, smoothing_filter=BlockSmoothingFilter(nbins=nb), cfg=cfg())
            raised = False
        except ValueError:
            raised = True
        if raised == fits:
            return 'I3EnergyPDF with a smoothing kernel of %d bins on %d log10(E) bins: %s' % (
                2 * nb + 1, len(eE) - 1, 'raised ValueError although the kernel fits' if raised else 'accepted a kernel longer than the axis')
    return None


def energy_requests(case, kernel):
    k = flist(kernel)
    base = '%s %s %s %s %s %s %s' % (k, flist(fl(case['eE'])), flist(fl(case['eD'])), flist(fl(case['x'])), flist(fl(case['y'])),
                                      flist(fl(case['mcw'])), flist(fl(case['pw'])))
    reqs = ['ehist ' + base, 'epd %s %s %s' % (base, flist(fl(case['qx'])), flist(fl(case['qy'])))]
    if kernel:
        reqs.append('colsum %s %d' % (k, len(case['eE']) - 1))
    return tuple(reqs)


def compare_energy(case, pdf, kernel, ans_hist, ans_pd, ans_col=None):
    h = np.asarray(pdf.hist, dtype=np.float64)
    if ans_col is not None:
        # c10_energy_smoothed_mass_bounds with the model's column sums: mass of every smoothed band with content (equal widths)
        col = parse_flist(ans_col)
        dE_ = np.diff(np.array(fl(case['eE'])))
        if np.allclose(dE_, dE_[0], rtol=1e-12, atol=0):
            ref__ = ref_energy_hist(case)
            for j in range(h.shape[1]):
                if any(ref__[i][j] != 0 for i in range(h.shape[0])):
                    mass = float(np.sum(h[:, j] * dE_))
                    if not (min(col) - 1e-9 <= mass <= max(col) + 1e-9):
                        return 'smoothed energy PDF: band %d integrates to %r, outside the proved bounds [%r, %r] (column sums of the model)' % (
                            j, mass, min(col), max(col))
    model = np.array(parse_flist(ans_hist)).reshape((h.shape[1], h.shape[0])).T if h.size else h
    for (i, j), v in np.ndenumerate(h):
        if not close(float(v), float(model[i, j]), REL, 1e-300):
            return 'energy histogram bin (%d,%d): implementation %r, model %r' % (i, j, float(v), float(model[i, j]))
    mp = ans_pd.split(',') if ans_pd != '-' else []
    eD = fl(case['eD'])
    eE_ = fl(case['eE'])
    br('energyBand:smoothed' if kernel else 'energyBand:unsmoothed')
    for xv, yv, pw in zip(fl(case['x']), fl(case['y']), fl(case['pw'])):
        if pw == 0:
            br('physEvents:zero-weight-dropped')
        for edges, v in ((eE_, xv), (eD, yv)):
            br('histBin:below' if v < edges[0] else 'histBin:above' if v > edges[-1] else 'histBin:upper-edge' if v == edges[-1] else 'histBin:inner')
    ref_ = ref_energy_hist(case)
    for j in range(len(eD) - 1):
        br('normBand:content' if any(ref_[i][j] != 0 for i in range(len(eE_) - 1)) else 'normBand:empty-band')
    for qx_, qy_ in zip(fl(case['qx']), fl(case['qy'])):
        for edges, v in ((eE_, qx_), (eD, qy_)):
            br('inRange:nan' if v != v else 'inRange:true' if edges[0] <= v <= edges[-1] else 'inRange:false')
            if v == v:
                br('lookup:upper-edge' if v == edges[-1] else 'lookup:wrap-negative' if v < edges[0] else 'lookup:IndexError' if v > edges[-1] else 'lookup:regular')
    for qx, qy, m in zip(fl(case['qx']), fl(case['qy']), mp):
        tdm = TDM(log_energy=[qx], sin_dec=[qy], dec=[0.0])
        try:
            with warnings.catch_warnings():
                warnings.simplefilter('ignore')
                v = float(np.asarray(pdf.get_pd(tdm)[0])[0])
            got = v
        except IndexError:
            got = 'ERR'
        if qx != qx or qy != qy:
            continue        # NaN coordinates: rejected by the validity check; the lookup of invalid data is unspecified
        if got == 'ERR' or m == 'ERR':
            if got != m:
                return 'get_pd(log_energy=%r, sin_dec=%r): implementation %r, model %s' % (qx, qy, got, m if m == 'ERR' else b2f(m))
        elif not close(got, b2f(m), REL, 1e-300):
            return 'get_pd(log_energy=%r, sin_dec=%r): implementation %r, model %r' % (qx, qy, got, b2f(m))
    return None


def o_corr_energy(ctx, case):
    pdf, kernel = mk_energy(case)
    return compare_energy(case, pdf, kernel, *ctx.driver('C10', list(energy_requests(case, kernel))))


def gen_energy_case(rng, nprng):
    nE = rng.choice([1, 2, 3, 4, 5, 8])
    nD = rng.choice([1, 2, 3, 4, 6])
    if rng.random() < 0.5:
        eE = np.linspace(1.0, 1.0 + nE * rng.choice([0.5, 1.0, 0.25]), nE + 1)
    else:
        eE = 1.0 + np.cumsum(np.concatenate([[0.0], nprng.uniform(0.1, 1.5, nE)]))
    r = rng.random()
    if r < 0.35:
        eD = np.linspace(-1.0, 1.0, nD + 1)
    elif r < 0.65:
        # a sample covering only part of the sky: outer sin(dec) edges inside (-1, 1)
        lo = rng.choice([-1.0, -0.25, -0.6, -0.3, round(rng.uniform(-0.9, -0.1), 2)])
        hi = rng.choice([1.0, 0.5, 0.3, -0.05, round(rng.uniform(0.0, 0.9), 2)])
        eD = np.linspace(lo, hi, nD + 1)
    else:
        eD = np.sort(np.concatenate([[-1.0], nprng.uniform(-0.9, 0.9, nD - 1), [rng.choice([1.0, 0.5])]]))
        if len(set(eD.tolist())) != len(eD):
            eD = np.linspace(-1.0, 1.0, nD + 1)
    n = rng.choice([0, 1, 3, 10, 40, 120])
    x = nprng.uniform(eE[0] - 0.2, eE[-1] + 0.2, n)
    y = nprng.uniform(eD[0] - 0.1, eD[-1] + 0.1, n)
    # events exactly on edges (outermost and inner)
    for k in range(n):
        r = rng.random()
        if r < 0.08:
            x[k] = rng.choice(eE.tolist())
        elif r < 0.16:
            y[k] = rng.choice(eD.tolist())
        elif r < 0.2:
            x[k], y[k] = eE[-1], eD[-1]
    # empty declination bands: remove all events of some bands
    if nD > 1 and rng.random() < 0.4 and n:
        j = rng.randrange(nD)
        keep = ~((y >= eD[j]) & (y <= eD[j + 1]))
        x, y = x[keep], y[keep]
    n = len(x)
    mcw = nprng.uniform(0.1, 5.0, n) if rng.random() < 0.7 else np.ones(n)
    pw = nprng.uniform(0.0, 2.0, n) if rng.random() < 0.7 else np.ones(n)
    for k in range(n):
        if rng.random() < 0.1:
            pw[k] = 0.0
    sm = None
    if rng.random() < 0.4:
        nb = rng.choice([1, 1, 2])
        if 2 * nb + 1 <= nE:
            sm = [rng.choice(['block', 'gauss']), nb]
    # query events: all edges, midpoints, float neighbours of the outermost edges, outside
    qx = list(eE) + list(0.5 * (eE[:-1] + eE[1:])) + [np.nextafter(eE[-1], -np.inf), np.nextafter(eE[0], np.inf), eE[0] - 0.5, eE[-1] + 0.5]
    qy = list(eD) + list(0.5 * (eD[:-1] + eD[1:])) + [np.nextafter(eD[-1], -np.inf), np.nextafter(eD[0], np.inf)]
    pairs = [(a, b) for a in qx for b in qy]
    rng.shuffle(pairs)
    pairs = pairs[:24] + [(eE[-1], eD[-1]), (eE[0], eD[0]), (eE[-1], eD[0])]
    # values one ulp outside an outer edge (sin_dec and dec = arcsin(sin_dec) then disagree by rounding), NaN
    mid_x, mid_y = float(0.5 * (eE[0] + eE[1])), float(0.5 * (eD[0] + eD[1]))
    pairs += [(mid_x, float(np.nextafter(eD[-1], np.inf))), (mid_x, float(np.nextafter(eD[0], -np.inf))),
              (float(np.nextafter(eE[-1], np.inf)), mid_y), (float(np.nextafter(eE[0], -np.inf)), mid_y)]
    # sin_dec a few ulps outside an outer edge whose declination has sin(dec) back inside the range: the two data
    # fields of the trial data (dec, sin_dec) are inconsistent by rounding
    for e, d in ((float(eD[-1]), np.inf), (float(eD[0]), -np.inf)):
        v = e
        for _k in range(6):
            v = float(np.nextafter(v, d))
            if abs(v) <= 1 and eD[0] <= float(np.sin(np.arcsin(v))) <= eD[-1]:
                pairs.append((mid_x, v))
                break
    if rng.random() < 0.5:
        pairs += [(float('nan'), mid_y), (mid_x, float('nan'))]
    return {'eE': eE.tolist(), 'eD': eD.tolist(), 'x': x.tolist(), 'y': y.tolist(), 'mcw': mcw.tolist(), 'pw': pw.tolist(),
            'smooth': sm, 'qx': [float(p[0]) for p in pairs], 'qy': [float(p[1]) for p in pairs]}


# ------------------------------------------------------------------------------------------
# spatial background PDF

def mk_spatial(case):
    from skyllh.core.binning import BinningDefinition
    from skyllh.i3.backgroundpdf import BackgroundI3SpatialPDF
    with warnings.catch_warnings():
        warnings.simplefilter('ignore')
        return BackgroundI3SpatialPDF(
            data_sin_dec=np.array(fl(case['x']), dtype=np.float64), data_weights=np.array(fl(case['w']), dtype=np.float64),
            sin_dec_binning=BinningDefinition('sin_dec', np.array(fl(case['edges']))),
            spline_order_sin_dec=int(case.get('order', 2)), cfg=cfg())


def spatial_pd(pdf, sin_dec):
    tdm = TDM(sin_dec=sin_dec)
    pdf.initialize_for_new_trial(tdm)
    return np.asarray(pdf.get_pd(tdm)[0], dtype=np.float64)


def o_spatial_norm(ctx, case):
    """spatial background PDF: positive; 2π·pd at the bin centres is the normalised sin(dec) histogram
    (Σ 2π·pd(centre_i)·Δ_i = 1); for well-populated smooth samples the spline density integrates to one over
    the sphere within 10 %; add_events + reset restores the original density."""
    edges = np.array(fl(case['edges']))
    try:
        pdf = mk_spatial(case)
    except ValueError:
        if len(edges) - 1 <= int(case.get('order', 2)):
            return None     # scipy needs more knots than the spline order
        # documented: raises for empty bins / zero total weight
        x, w = np.array(fl(case['x'])), np.array(fl(case['w']))
        h = [sum(wi for xi, wi in zip(x, w) if ref_bin(edges.tolist(), xi) == i) for i in range(len(edges) - 1)]
        if all(v > 0 for v in h):
            return 'BackgroundI3SpatialPDF raised ValueError although every sin(dec) bin has positive content %r' % h
        return None
    except Exception as e:  # noqa
        if len(edges) - 1 <= int(case.get('order', 2)):
            return None     # scipy needs more knots than the spline order
        return 'constructing BackgroundI3SpatialPDF raised %s: %s' % (type(e).__name__, e)
    centres = 0.5 * (edges[:-1] + edges[1:])
    widths = np.diff(edges)
    pd = spatial_pd(pdf, centres)
    if not np.all(np.isfinite(pd)) or np.any(pd <= 0):
        return 'spatial background pd at the bin centres is not positive: %r' % pd.tolist()
    mass = float(np.sum(2 * np.pi * pd * widths))
    if abs(mass - 1.0) > 1e-9:
        return 'spatial background PDF: Σ 2π·pd(centre_i)·Δsin(dec)_i = %r, expected 1 (edges %r)' % (mass, edges.tolist())
    x, w = np.array(fl(case['x'])), np.array(fl(case['w']))
    exact = [Fraction(0)] * (len(edges) - 1)
    for xi, wi in zip(x, w):
        i = ref_bin(edges.tolist(), xi)
        if i is not None:
            exact[i] += Fraction(wi)
    tot = sum(exact)
    for i in range(len(exact)):
        want = float(exact[i] / tot / (Fraction(edges[i + 1]) - Fraction(edges[i]))) / (2 * math.pi)
        if not close(float(pd[i]), want, 1e-9):
            return 'spatial background PDF: pd(centre of bin %d) = %r, normalised histogram / 2π = %r' % (i, float(pd[i]), want)
    if case.get('smooth_sample'):
        total = 0.0
        for a, b in zip(edges[:-1], edges[1:]):
            total += gl_integrate(lambda s: 2 * np.pi * spatial_pd(pdf, s), a, b, 8)
        if abs(total - 1.0) > 0.1:
            return 'spatial background PDF integrates to %r over the sphere (smooth sample, %d events, %d bins)' % (total, len(x), len(edges) - 1)
    # add_events / reset
    before = spatial_pd(pdf, centres)
    from skyllh.core.storage import DataFieldRecordArray
    pdf.add_events(DataFieldRecordArray({'sin_dec': centres[:1].copy()}, copy=True))
    pdf.reset()
    after = spatial_pd(pdf, centres)
    if not np.array_equal(before, after):
        return 'spatial background PDF differs after add_events + reset'
    return None


def o_corr_spatial(ctx, case):
    req, impl = spatial_corr(case)
    return compare_spatial(case, impl, ctx.driver('C10', req))


def spatial_corr(case):
    edges = np.array(fl(case['edges']))
    req = ['shist %s %s %s' % (flist(edges), flist(fl(case['x'])), flist(fl(case['w'])))]
    try:
        pdf = mk_spatial(case)
    except ValueError:
        if len(edges) - 1 <= int(case.get('order', 2)):
            return req, ('SKIP', None, None)
        return req, ('ERR', None, None)
    except Exception:  # noqa  (scipy: not enough knots) -- outside the model
        return req, ('SKIP', None, None)
    centres = 0.5 * (edges[:-1] + edges[1:])
    lsv = np.asarray(pdf._log_spline(centres), dtype=np.float64) if hasattr(pdf, '_log_spline') else None
    if lsv is None:
        _MISSING['_log_spline'] += 1
    pd = spatial_pd(pdf, centres)
    if lsv is not None:
        req.append('spd %s' % flist(lsv))
    return req, ('OK', pd, lsv)


def compare_spatial(case, impl, answers):
    st, pd, lsv = impl
    if st == 'SKIP':
        return None
    a = answers[0]
    if a != 'ERR':
        br('spatialHist:ok')
    else:
        e_ = fl(case['edges'])
        tot_ = sum(w for x, w in zip(fl(case['x']), fl(case['w'])) if ref_bin(e_, x) is not None)
        br('spatialHist:zero-total' if tot_ == 0 else 'spatialHist:non-positive-bin')
    if st == 'ERR' or a == 'ERR':
        if (st == 'ERR') != (a == 'ERR'):
            return 'BackgroundI3SpatialPDF constructor: implementation %s, model %s' % (
                'raises ValueError' if st == 'ERR' else 'succeeds', 'raises' if a == 'ERR' else 'succeeds')
        return None
    hist = parse_flist(a)
    for i, (p, hm) in enumerate(zip(pd, hist)):
        if not close(float(p) * 2 * math.pi, hm, 1e-9):
            return 'spatial PDF bin %d: 2π·pd(centre) = %r, model histogram %r' % (i, float(p) * 2 * math.pi, hm)
    if lsv is not None and len(answers) > 1:
        for i, (p, m) in enumerate(zip(pd, parse_flist(answers[1]))):
            if not close(float(p), m, 1e-12):
                return 'spatial pd(centre %d): implementation %r, model 0.5/π·exp(spline) = %r' % (i, float(p), m)
    return None


def mk_events(xs):
    ev = np.empty((len(xs),), dtype=[('sin_dec', np.float64)])
    ev['sin_dec'] = np.asarray(xs, dtype=np.float64)
    return ev


def spatial_history(case):
    """constructor + add_events / reset ops on ONE object; returns 2π·pd at the bin centres after init and each op
    (None when the constructor raises ValueError)"""
    import copy
    edges = np.array(fl(case['edges']))
    centres = 0.5 * (edges[:-1] + edges[1:])
    try:
        pdf = mk_spatial(case)
    except ValueError:
        if len(edges) - 1 <= int(case.get('order', 2)):
            return 'SKIP'
        return None
    states = []

    def snapshot():
        # evaluate a second, equally long set of points first: the density of the centres must not depend on it
        ref = copy.deepcopy(pdf)
        spatial_pd(pdf, centres - 0.25 * np.diff(edges))
        got = spatial_pd(pdf, centres).copy()
        want = spatial_pd(ref, centres)
        states.append((2 * np.pi * got, np.array_equal(got, want)))
    snapshot()
    for op in case['ops']:
        if op[0] == 'A':
            pdf.add_events(mk_events(fl(op[1])))
        else:
            pdf.reset()
        snapshot()
    return states


def ref_spatial_states(case):
    edges = fl(case['edges'])
    base = [Fraction(0)] * (len(edges) - 1)
    for xi, wi in zip(fl(case['x']), fl(case['w'])):
        i = ref_bin(edges, xi)
        if i is not None:
            base[i] += Fraction(wi)

    def norm(h):
        tot = sum(h)
        return [float(h[i] / tot / (Fraction(edges[i + 1]) - Fraction(edges[i]))) for i in range(len(h))]
    out = [norm(base)]
    for op in case['ops']:
        if op[0] == 'A':
            h = list(base)
            for xi in fl(op[1]):
                i = ref_bin(edges, xi)
                if i is not None:
                    h[i] += 1
            out.append(norm(h))
        else:
            out.append(norm(base))
    return out


def o_spatial_history(ctx, case):
    """BackgroundI3SpatialPDF over add_events / reset histories (binning need not cover [-1,1]; added events inside,
    outside, on the outer edges): after every op 2π·pd at the bin centres is the normalised histogram of
    (original + added in-range events), positive, Σ 2π·pd(centre_i)·Δ_i = 1, and does not depend on earlier evaluations."""
    edges = np.array(fl(case['edges']))
    widths = np.diff(edges)
    try:
        states = spatial_history(case)
    except Exception as e:  # noqa
        return 'spatial background PDF history %r raised %s: %s' % ([o[0] for o in case['ops']], type(e).__name__, e)
    if states is None or states == 'SKIP':
        return None
    ref = ref_spatial_states(case)
    for k, ((h, indep), want) in enumerate(zip(states, ref)):
        what = 'after construction' if k == 0 else 'after op %d (%s) of %r' % (
            k, 'add_events(%r)' % (case['ops'][k - 1][1],) if case['ops'][k - 1][0] == 'A' else 'reset', [o[0] for o in case['ops']])
        if not np.all(np.isfinite(h)) or np.any(h <= 0):
            return 'spatial background PDF %s: density at the bin centres not positive: %r' % (what, h.tolist())
        mass = float(np.sum(h * widths))
        if abs(mass - 1.0) > 1e-9:
            return ('spatial background PDF %s: Σ 2π·pd(centre_i)·Δsin(dec)_i = %r over the covered sky [%r, %r], expected 1 '
                    '(edges %r)') % (what, mass, float(edges[0]), float(edges[-1]), edges.tolist())
        for i, (a, b) in enumerate(zip(h, want)):
            if not close(float(a), b, 1e-9):
                return 'spatial background PDF %s: 2π·pd(centre %d) = %r, normalised histogram %r' % (what, i, float(a), b)
        if not indep:
            return 'spatial background PDF %s: the density of a trial depends on the previously evaluated trial' % what
    return None


def sstate_corr(case):
    toks = ['A' + flist(fl(op[1])) if op[0] == 'A' else 'R' for op in case['ops']]
    req = 'sstate %s %s %s %s' % (flist(fl(case['edges'])), flist(fl(case['x'])), flist(fl(case['w'])), ' '.join(toks))
    return [req.strip()], spatial_history(case)


def compare_sstate(case, impl, ans):
    if impl == 'SKIP':
        return None
    if ans != 'ERR':
        e_ = fl(case['edges'])
        for op in case['ops']:
            if op[0] == 'A':
                br('spStep:addEvents')
                if any(ref_bin(e_, x) is None for x in fl(op[1])):
                    br('spStep:addEvents-out-of-range')
            else:
                br('spStep:reset')
    if impl is None or ans == 'ERR':
        if (impl is None) != (ans == 'ERR'):
            return 'BackgroundI3SpatialPDF constructor: implementation %s, model %s' % (
                'raises ValueError' if impl is None else 'succeeds', 'raises' if ans == 'ERR' else 'succeeds')
        return None
    for k, ((h, _), m) in enumerate(zip(impl, ans.split(' '))):
        for i, (a, b) in enumerate(zip(h, parse_flist(m))):
            if not close(float(a), b, 1e-9):
                return 'spatial histogram after %d ops of %r, bin %d: 2π·pd(centre) = %r, model %r' % (
                    k, [o[0] for o in case['ops']], i, float(a), b)
    return None


def o_corr_sstate(ctx, case):
    try:
        req, impl = sstate_corr(case)
    except Exception as e:  # noqa
        return 'spatial background PDF history raised %s: %s' % (type(e).__name__, e)
    return compare_sstate(case, impl, ctx.driver('C10', req)[0])


def gen_spatial_history(rng, nprng):
    nb = rng.choice([3, 4, 6, 10])
    lo = rng.choice([-1.0, -1.0, -0.2, -0.6])
    hi = rng.choice([1.0, 1.0, 0.2, 0.8])
    if rng.random() < 0.6:
        edges = np.linspace(lo, hi, nb + 1)
    else:
        edges = np.sort(np.concatenate([[lo, hi], nprng.uniform(lo + 0.02, hi - 0.02, nb - 1)]))
    n = rng.choice([10, 30, 60]) * nb
    x = nprng.uniform(edges[0], edges[-1], n)
    w = nprng.uniform(0.1, 3.0, n) if rng.random() < 0.4 else np.ones(n)

    def new_events():
        m = rng.choice([0, 1, 3, 10, 40])
        how = rng.choice(['inside', 'mixed', 'mixed', 'outside', 'edges'])
        if how == 'inside':
            xs = nprng.uniform(edges[0], edges[-1], m)
        elif how == 'outside':
            xs = np.concatenate([nprng.uniform(-1.5, edges[0] - 1e-3, m // 2), nprng.uniform(edges[-1] + 1e-3, 1.5, m - m // 2)])
        elif how == 'edges':
            xs = np.array([rng.choice([edges[0], edges[-1], rng.choice(edges.tolist())]) for _ in range(m)])
        else:
            xs = nprng.uniform(-1.0, 1.0, m)
        return [float(v) for v in xs]
    ops = []
    for _ in range(rng.choice([1, 2, 3, 4])):
        ops.append(['A', new_events()] if rng.random() < 0.7 else ['R'])
    return {'edges': edges.tolist(), 'x': x.tolist(), 'w': w.tolist(), 'order': rng.choice([1, 2] if nb <= 3 else [1, 2, 2, 3]), 'ops': ops}


def gen_spatial_case(rng, nprng, smooth=False):
    nb = rng.choice([3, 4, 6, 10, 15])
    if smooth:
        edges = np.linspace(-1.0, 1.0, nb + 1)
        n = 400 * nb
        u = nprng.uniform(0, 1, n)
        a = rng.uniform(-0.6, 0.6)        # density ∝ 1 + a x on [-1,1]
        x = ((-1 + np.sqrt(np.maximum(0, 1 - 2 * a + a * a + 4 * a * u))) / a) if abs(a) > 1e-3 else 2 * u - 1
        x = np.clip(x, -1, 1)
        w = np.ones(n)
        return {'edges': edges.tolist(), 'x': x.tolist(), 'w': w.tolist(), 'order': 2, 'smooth_sample': True}
    if rng.random() < 0.5:
        edges = np.linspace(-1.0, rng.choice([1.0, 0.2]), nb + 1)
    else:
        edges = np.sort(np.concatenate([[-1.0, 1.0], nprng.uniform(-0.95, 0.95, nb - 1)]))
    n = rng.choice([0, 5, 30, 200])
    x = nprng.uniform(edges[0] - 0.05, edges[-1] + 0.05, n)
    for k in range(n):
        if rng.random() < 0.1:
            x[k] = rng.choice(edges.tolist())
    w = nprng.uniform(0.1, 3.0, n) if rng.random() < 0.5 else np.ones(n)
    return {'edges': edges.tolist(), 'x': x.tolist(), 'w': w.tolist(), 'order': rng.choice([1, 2, 2, 3] if nb > 3 else [1, 2])}


# ------------------------------------------------------------------------------------------
# MultiDimGridPDF (pd cache x norm_factor_func x call sequence) and PDFProduct (factors hand out internal arrays)

def ref_bilinear(ey, ex, grid, y, x):
    """own bilinear interpolation of grid values given at the edges (RegularGridInterpolator(method='linear',
    fill_value=0) semantics), exact rational weights not needed: tolerance 1e-12"""
    out = np.zeros(len(y))
    for n, (yy, xx) in enumerate(zip(y, x)):
        if not (ey[0] <= yy <= ey[-1] and ex[0] <= xx <= ex[-1]):
            continue
        i = min(max(int(np.searchsorted(ey, yy, side='right')) - 1, 0), len(ey) - 2)
        j = min(max(int(np.searchsorted(ex, xx, side='right')) - 1, 0), len(ex) - 2)
        u = (yy - ey[i]) / (ey[i + 1] - ey[i])
        v = (xx - ex[j]) / (ex[j + 1] - ex[j])
        out[n] = ((1 - u) * (1 - v) * grid[i, j] + u * (1 - v) * grid[i + 1, j] +
                  (1 - u) * v * grid[i, j + 1] + u * v * grid[i + 1, j + 1])
    return out


def ref_grid_norm(ey, ex, grid, y):
    """1 / ∫ f(y, x) dx of the bilinear interpolant (piecewise linear in x: trapezoid over the x edges is exact)"""
    out = np.ones(len(y))
    for n, yy in enumerate(y):
        col = ref_bilinear(ey, ex, grid, np.full(len(ex), yy), ex)
        area = float(np.sum(0.5 * (col[1:] + col[:-1]) * np.diff(ex)))
        out[n] = 1.0 / area if area > 0 else 1.0
    return out


class GridTDM(TDM):
    def __init__(self, state_id, **fields):
        TDM.__init__(self, 1, **fields)
        self.trial_data_state_id = state_id


def mk_grid(case, cls=None):
    from skyllh.core.binning import BinningDefinition
    from skyllh.core.backgroundpdf import BackgroundMultiDimGridPDF
    ey, ex = np.array(fl(case['ey'])), np.array(fl(case['ex']))
    grid = np.array(fl(case['grid'])).reshape((len(ey), len(ex)))
    func = None
    if case['norm']:
        def func(pdf, tdm, params_recarray, eventdata, evt_mask=None):
            y = eventdata[0] if evt_mask is None else eventdata[0][evt_mask]
            return ref_grid_norm(ey, ex, grid, y)
    pdf = (cls or BackgroundMultiDimGridPDF)(
        pmm=None, axis_binnings=[BinningDefinition('sin_dec', ey), BinningDefinition('log_energy', ex)],
        pdf_grid_data=grid.copy(), norm_factor_func=func, cache_pd_values=bool(case['cache']), cfg=cfg())
    return pdf, ey, ex, grid


def run_grid(case):
    """evaluation sequence on ONE MultiDimGridPDF; returns per evaluation (trial no, mask, pd copy, reference)"""
    pdf, ey, ex, grid = mk_grid(case)
    out = []
    tdms = {}
    for ev in case['evals']:
        k = int(ev['trial'])
        tr = case['trials'][k]
        y, x = np.array(fl(tr['y'])), np.array(fl(tr['x']))
        if k not in tdms:
            tdms[k] = GridTDM(100 + k, sin_dec=y, log_energy=x)
            pdf.initialize_for_new_trial(tdms[k])
        tdm = tdms[k]
        ref = ref_bilinear(ey, ex, grid, y, x) * (ref_grid_norm(ey, ex, grid, y) if case['norm'] else 1.0)
        mask = None if ev.get('mask') is None else np.array(ev['mask'], dtype=bool)
        if mask is None:
            pd = pdf.get_pd(tdm)[0]
        else:
            pd = pdf.get_pd_with_eventdata(tdm, None, np.array([y, x]), evt_mask=mask)
            ref = ref[mask]
        out.append((k, mask, np.array(pd, dtype=np.float64, copy=True), ref, y, x))
    return out, (ey, ex, grid)


def o_grid_cache(ctx, case):
    """MultiDimGridPDF with / without pd cache and with / without a norm_factor_func, evaluated repeatedly for the
    same trial (every minimiser step), for new trials of equal and different size, and for event subsets: every
    returned density equals interpolated grid value x norm factor (independent bilinear reference) and, for trials that
    scan the energy axis at fixed declination, integrates to one over log10(E) in EVERY evaluation."""
    try:
        res, (ey, ex, grid) = run_grid(case)
    except Exception as e:  # noqa
        return 'MultiDimGridPDF evaluation sequence %r raised %s: %s' % (
            [(e_['trial'], e_.get('mask') is not None) for e_ in case['evals']], type(e).__name__, e)
    seen = {}
    for n, (k, mask, pd, ref, y, x) in enumerate(res):
        seen[k] = seen.get(k, 0) + 1
        what = 'MultiDimGridPDF(cache_pd_values=%s, norm_factor_func=%s), evaluation %d (number %d for trial %d%s)' % (
            bool(case['cache']), 'normaliser' if case['norm'] else 'None', n + 1, seen[k], k, ', event subset' if mask is not None else '')
        if pd.shape != ref.shape:
            return '%s returns %d values for %d requested events' % (what, len(pd), len(ref))
        if not np.all(np.isfinite(pd)) or np.any(pd < 0):
            return '%s returns non-finite or negative densities %r' % (what, pd.tolist()[:6])
        for a, b in zip(pd, ref):
            if not close(float(a), float(b), 1e-12, 1e-300):
                return '%s: density %r, interpolated grid value x norm factor = %r' % (what, float(a), float(b))
        if case['norm'] and mask is None and case['trials'][k].get('scan'):
            mass = float(np.sum(0.5 * (pd[1:] + pd[:-1]) * np.diff(x)))
            if abs(mass - 1.0) > 1e-9:
                return '%s: the density at sin(dec)=%r integrates to %r over log10(E), expected 1' % (what, float(y[0]), mass)
    return None


def grid_corr(case):
    res, (ey, ex, grid) = run_grid(case)
    ks = sorted(set(int(e['trial']) for e in case['evals']))
    tabs = []
    for k in range(max(ks) + 1):
        tr = case['trials'][k]
        y, x = np.array(fl(tr['y'])), np.array(fl(tr['x']))
        tabs += [flist(ref_bilinear(ey, ex, grid, y, x)), flist(ref_grid_norm(ey, ex, grid, y) if case['norm'] else np.ones(len(y)))]
    rq = ','.join('%d:%s' % (int(e['trial']), '*' if e.get('mask') is None else ''.join('1' if b else '0' for b in e['mask']))
                  for e in case['evals'])
    reqs = ['gmcache %d %s %s' % (1 if case['cache'] else 0, rq, ' '.join(tabs))]
    # the interpolation model at the events of every evaluation (incl. points outside the grid: fill value 0)
    for (k, mask, pd, ref, y, x) in res:
        reqs.append('ginterp %s %s %s %s %s' % (flist(ey), flist(ex), flist(grid.ravel()), flist(y), flist(x)))
    if all(e.get('mask') is None for e in case['evals']):
        # the un-masked model (c10_grid_cache_transparent) on the same sequence
        reqs.append('gcache %d %s %s' % (1 if case['cache'] else 0, ','.join(str(int(e['trial'])) for e in case['evals']), ' '.join(tabs)))
    return reqs, res


def compare_grid(case, res, answers):
    ey_, ex_ = np.array(fl(case['ey'])), np.array(fl(case['ex']))
    grid_ = np.array(fl(case['grid'])).reshape((len(ey_), len(ex_)))
    interp_answers = answers[1:1 + len(res)]
    answers = [answers[0]] + list(answers[1 + len(res):])
    for n, ((k, mask, pd, ref, y, x), a) in enumerate(zip(res, interp_answers)):
        mv = np.array(parse_flist(a))
        nrm = ref_grid_norm(ey_, ex_, grid_, y) if case['norm'] else np.ones(len(y))
        want = mv * nrm
        if mask is not None:
            want = want[mask]
        for p_, w_ in zip(pd, want):
            if not close(float(p_), float(w_), 1e-12, 1e-300):
                return 'MultiDimGridPDF evaluation %d: density %r, interpolation model x norm factor %r' % (n + 1, float(p_), float(w_))
    filled = {}
    cur = None
    for e in case['evals']:
        k = int(e['trial'])
        n = len(case['trials'][k]['y'])
        m = [True] * n if e.get('mask') is None else list(e['mask'])
        br('gmEval:unmasked' if e.get('mask') is None else 'gmEval:masked')
        if not case['cache']:
            br('gmEval:cache-off')
            continue
        if cur != k:
            br('gmEval:miss-new-trial')
            cur, filled = k, {k: [False] * n}
            filled[k] = [a or b for a, b in zip(filled[k], m)]
        elif all(f for f, mm in zip(filled[k], m) if mm):
            br('gmEval:hit')
        else:
            br('gmEval:miss-placeholders')
            filled[k] = [a or b for a, b in zip(filled[k], m)]
    for ans in answers:
        d = _compare_grid1(case, res, ans)
        if d:
            return d
    return None


def _compare_grid1(case, res, ans):
    for n, ((k, mask, pd, ref, y, x), m) in enumerate(zip(res, ans.split(' '))):
        mv = parse_flist(m)
        if len(mv) != len(pd):
            return 'MultiDimGridPDF evaluation %d: %d values, model %d' % (n + 1, len(pd), len(mv))
        for a, b in zip(pd, mv):
            if not close(float(a), b, 1e-12, 1e-300):
                return 'MultiDimGridPDF evaluation %d (trial %d): implementation %r, cache model %r' % (n + 1, k, float(a), b)
    return None


def o_corr_gcache(ctx, case):
    try:
        req, res = grid_corr(case)
    except Exception as e:  # noqa
        return 'MultiDimGridPDF evaluation sequence raised %s: %s' % (type(e).__name__, e)
    return compare_grid(case, res, ctx.driver('C10', req))


def gen_grid_case(rng, nprng, masks=True):
    ny, nx = rng.choice([2, 3, 5]), rng.choice([2, 4, 7])
    ey = np.linspace(-1.0, 1.0, ny) if rng.random() < 0.5 else np.sort(np.concatenate([[-1.0, 1.0], nprng.uniform(-0.9, 0.9, ny - 2)]))
    ex = np.linspace(1.0, 5.0, nx) if rng.random() < 0.5 else 1.0 + np.cumsum(np.concatenate([[0.0], nprng.uniform(0.2, 1.5, nx - 1)]))
    grid = nprng.uniform(0.05, 3.0, (len(ey), len(ex)))
    trials = []
    n = rng.choice([1, 3, 6])
    for _ in range(rng.choice([1, 2, 3])):
        if rng.random() < 0.5:
            yy = float(rng.uniform(ey[0], ey[-1]))
            trials.append({'y': [yy] * len(ex), 'x': [float(v) for v in ex], 'scan': True})
        else:
            if rng.random() < 0.4:
                n = rng.choice([1, 3, 6])
            ys_ = [float(v) for v in nprng.uniform(ey[0], ey[-1], n)]
            xs_ = [float(v) for v in nprng.uniform(ex[0], ex[-1], n)]
            for j_ in range(n):
                r_ = rng.random()
                if r_ < 0.1:
                    xs_[j_] = float(rng.choice(ex.tolist()))           # on a knot
                elif r_ < 0.2:
                    ys_[j_] = float(rng.choice(ey.tolist()))
                elif r_ < 0.25:
                    xs_[j_] = float(ex[-1] + 0.5)                       # outside the grid: fill value
            trials.append({'y': ys_, 'x': xs_})
    evals = []
    for _ in range(rng.choice([3, 4, 6])):
        k = rng.randrange(len(trials)) if (not evals or rng.random() < 0.4) else evals[-1]['trial']
        evals.append({'trial': k, 'mask': None})
    # event subsets (as the signal PDF sets request them per source), mixed in any order with requests for all values
    masked = masks and rng.random() < 0.45
    if masked:
        k = rng.randrange(len(trials))
        m = len(trials[k]['y'])
        for _ in range(rng.choice([1, 2, 3])):
            mk = [rng.random() < 0.6 for _j in range(m)]
            if rng.random() < 0.15:
                mk = [False] * m            # an empty subset
            evals.insert(rng.randrange(len(evals) + 1), {'trial': k, 'mask': mk})
    cache = rng.random() < 0.7
    if masks and rng.random() < 0.3:
        # directed: a partly filled cache followed by a request for all values of the same trial
        ks = [k for k, t in enumerate(trials) if len(t['y']) >= 2]
        if ks:
            k = rng.choice(ks)
            m = len(trials[k]['y'])
            mk = [j % 2 == 0 for j in range(m)]
            evals += [{'trial': k, 'mask': mk}, {'trial': k, 'mask': None}, {'trial': k, 'mask': [not b for b in mk]}]
            cache = True
    return {'ey': ey.tolist(), 'ex': ex.tolist(), 'grid': grid.ravel().tolist(), 'norm': rng.random() < 0.7,
            'cache': cache, 'trials': trials, 'evals': evals}


def o_valid_evaluable(ctx, case):
    """the validity checks of the other density classes (TimePDF, SpatialPDF via BackgroundI3SpatialPDF, MultiDimGridPDF):
    values on the outer edges of the valid range are accepted; every accepted value - edges, one ulp outside, NaN, +-inf
    are offered - is evaluated without an exception to a finite non-negative density."""
    kind = case['kind']
    try:
        if kind == 'time':
            ivs = [(unjson_float(a), unjson_float(b)) for a, b in case['ivs']]
            pdf = mk_timepdf(case['which'], ivs, case['prof'])
            lo, hi = ivs[0][0], ivs[-1][1]
            mk = lambda v: TDM(time=[v])
            ev = lambda tdm: eval_timepdf(pdf, case['which'], tdm.f['time'])
        elif kind == 'spatial':
            pdf = mk_spatial(case['spatial'])
            e = fl(case['spatial']['edges'])
            lo, hi = float(np.arcsin(e[0])), float(np.arcsin(e[-1]))
            mk = lambda v: TDM(ra=[1.0], dec=[v], sin_dec=[float(np.sin(v))])
            ev = lambda tdm: spatial_pd(pdf, tdm.f['sin_dec'])
        else:
            pdf, ey, ex, grid = mk_grid(case['grid'])
            lo, hi = float(ey[0]), float(ey[-1])
            xm = float(0.5 * (ex[0] + ex[-1]))
            state = [0]

            def mk(v):
                state[0] += 1
                return GridTDM(900 + state[0], sin_dec=[v], log_energy=[xm])
            ev = lambda tdm: np.asarray(pdf.get_pd(tdm)[0])
    except ValueError:
        return None
    cand = [lo, hi, 0.5 * (lo + hi), float(np.nextafter(lo, -np.inf)), float(np.nextafter(hi, np.inf)),
            float('nan'), float('inf'), float('-inf')]
    for v in cand:
        tdm = mk(v)
        try:
            with warnings.catch_warnings():
                warnings.simplefilter('ignore')
                pdf.assert_is_valid_for_trial_data(tdm)
            ok = True
        except ValueError:
            ok = False
        if v in (lo, hi) and not ok and lo <= hi:
            return '%s PDF: assert_is_valid_for_trial_data rejects the value %r on the edge of its valid range [%r, %r]' % (kind, v, lo, hi)
        if not ok:
            continue
        try:
            with warnings.catch_warnings():
                warnings.simplefilter('ignore')
                pd = ev(tdm)
        except Exception as e:  # noqa
            return '%s PDF: value %r is accepted by assert_is_valid_for_trial_data, the evaluation raised %s: %s' % (kind, v, type(e).__name__, e)
        if not np.all(np.isfinite(pd)) or np.any(pd < 0):
            return ('%s PDF: the value %r is accepted by assert_is_valid_for_trial_data (valid range [%r, %r]) and evaluated to the '
                    'density %r (not a finite non-negative number)') % (kind, v, lo, hi, float(pd[0]))
    return None


class AllTDM(TDM):
    """trial data with every field the factor PDFs of a product read"""
    def __init__(self, state_id, n, nprng, ivs, edges, ex, ey):
        lo, hi = ivs[0][0], ivs[-1][1]
        sd = nprng.uniform(edges[0], edges[-1], n)
        TDM.__init__(self, 1, time=nprng.uniform(lo, hi, n), sin_dec=sd, dec=np.arcsin(np.clip(sd, -1, 1)),
                     ra=nprng.uniform(0, 2 * np.pi, n), log_energy=nprng.uniform(ex[0], ex[-1], n),
                     psi=nprng.uniform(1e-3, 0.5, n), ang_err=nprng.uniform(0.01, 0.2, n))
        self.src_evt_idxs = (np.zeros(n, dtype=np.int64), np.arange(n))
        self.trial_data_state_id = state_id


def run_product(case):
    """ops E (evaluate the product), L / R (read the left / right factor) on ONE PDFProduct over several trials.
    Returns per trial (snapshots of the factor densities taken before the first product evaluation, outputs per op)."""
    from skyllh.core.signalpdf import SignalTimePDF, RayleighPSFPointSourceSignalSpatialPDF
    from skyllh.core.backgroundpdf import BackgroundTimePDF
    ivs = [(unjson_float(a), unjson_float(b)) for a, b in case['ivs']]
    gc = case['grid']

    def factor(name):
        if name == 'time':
            if case['kind'] == 'sig':
                return SignalTimePDF(pmm=None, livetime=mk_lt(ivs), time_flux_profile=mk_profile(case['prof']), cfg=cfg())
            return BackgroundTimePDF(livetime=mk_lt(ivs), time_flux_profile=mk_profile(case['prof']), cfg=cfg())
        if name == 'spatial':
            return mk_spatial(case['spatial'])
        if name == 'grid':
            return mk_grid(gc)[0]
        if name == 'rayleigh':
            return RayleighPSFPointSourceSignalSpatialPDF(cfg=cfg())
        raise MachineryError('unknown factor ' + name)
    fs = [factor(n) for n in case['factors']]
    if len(fs) == 2:
        left, right = fs
    elif case['nest'] == 'right':
        left, right = fs[0], fs[1] * fs[2]
    else:
        left, right = fs[0] * fs[1], fs[2]
    prod = left * right
    rec = np.empty((1,), dtype=[])
    r = np.random.RandomState(int(case['seed']))
    out = []
    n = int(case['n'])
    for t, ops in enumerate(case['ops']):
        if t and case.get('vary_n'):
            n = n + 1
        tdm = AllTDM(500 + t, n, r, ivs, fl(case['spatial']['edges']), fl(gc['ex']), fl(gc['ey']))
        with warnings.catch_warnings():
            warnings.simplefilter('ignore')
            prod.initialize_for_new_trial(tdm)
            snap = (np.array(left.get_pd(tdm, rec)[0], copy=True), np.array(right.get_pd(tdm, rec)[0], copy=True))
            outs = []
            for op in ops:
                obj = {'E': prod, 'L': left, 'R': right}[op]
                outs.append(np.array(obj.get_pd(tdm, rec)[0], dtype=np.float64, copy=True))
        out.append((snap, outs, ops))
    return out


def o_product(ctx, case):
    """PDFProduct (pdf1 * pdf2, also nested) of real time / spline-spatial / grid / Rayleigh factors, several of which
    hand out their internal pre-calculated per-trial array: every evaluation of the product returns pd1 x pd2 of the
    factors' densities, and the factors return the same (normalised) densities before and after any number of
    product evaluations, for consecutive trials of equal and different size."""
    try:
        res = run_product(case)
    except MachineryError:
        raise
    except Exception as e:  # noqa
        return 'PDFProduct of %r raised %s: %s' % (case['factors'], type(e).__name__, e)
    for t, ((s1, s2), outs, ops) in enumerate(res):
        n_eval = 0
        for op, o in zip(ops, outs):
            want = {'E': s1 * s2, 'L': s1, 'R': s2}[op]
            n_eval += op == 'E'
            name = {'E': 'the product', 'L': 'the left factor', 'R': 'the right factor'}[op]
            if o.shape != want.shape or not all(close(float(a), float(b), 1e-12, 1e-300) for a, b in zip(o, want)):
                k = int(np.argmax(np.abs(o - want))) if o.shape == want.shape else 0
                return ('PDFProduct of %r (%s), trial %d, ops %r: after %d product evaluation(s) %s returns %r for event %d; '
                        'the densities of the factors before the first product evaluation were %r and %r (product %r)') % (
                    case['factors'], 'nested ' + str(case.get('nest')) if len(case['factors']) == 3 else 'flat', t + 1, ops,
                    n_eval - (op == 'E'), name, float(o[k]) if o.shape == want.shape else o.shape, k,
                    float(s1[k]), float(s2[k]), float(s1[k] * s2[k]))
    return None


def product_corr(case):
    res = run_product(case)
    reqs = ['pprod %s %s %s' % (flist(s1), flist(s2), ops) for (s1, s2), outs, ops in res]
    return reqs, res


def compare_product(case, res, answers):
    for (_s, _o, ops) in res:
        for op in ops:
            br({'E': 'pStep:evalProduct', 'L': 'pStep:readLeft', 'R': 'pStep:readRight'}[op])
    for t, (((s1, s2), outs, ops), ans) in enumerate(zip(res, answers)):
        for op, o, m in zip(ops, outs, ans.split(' ')):
            mv = parse_flist(m)
            if len(mv) != len(o) or not all(close(float(a), b, 1e-12, 1e-300) for a, b in zip(o, mv)):
                return 'PDFProduct of %r, trial %d, ops %r, op %s: implementation %r, model %r' % (
                    case['factors'], t + 1, ops, op, o.tolist()[:4], mv[:4])
    return None


def o_corr_product(ctx, case):
    try:
        reqs, res = product_corr(case)
    except MachineryError:
        raise
    except Exception as e:  # noqa
        return 'PDFProduct of %r raised %s: %s' % (case['factors'], type(e).__name__, e)
    return compare_product(case, res, ctx.driver('C10', reqs))


def gen_product_case(rng, nprng):
    kind = rng.choice(['bkg', 'bkg', 'sig'])
    names = ['time', 'spatial', 'grid'] if kind == 'bkg' else ['time', 'rayleigh']
    k = rng.choice([2, 2, 3]) if kind == 'bkg' else 2
    factors = rng.sample(names, k)
    ivs = gen_intervals(rng, rng.choice([1, 2, 4]))
    while not any(b > a for a, b in ivs):
        ivs = gen_intervals(rng, rng.choice([1, 2, 4]))
    lo, hi = ivs[0][0], ivs[-1][1]
    prof = {'kind': 'box', 't0': 0.5 * (lo + hi), 'tw': (hi - lo) * rng.choice([0.5, 1.0, 2.0])}
    sp = gen_spatial_history(rng, nprng)
    cen = [0.5 * (a + b) for a, b in zip(sp['edges'][:-1], sp['edges'][1:])]      # every bin populated: the constructor succeeds
    sp = {'edges': sp['edges'], 'x': sp['x'] + cen, 'w': sp['w'] + [1.0] * len(cen), 'order': 1}
    grid = gen_grid_case(rng, nprng, masks=False)
    grid['cache'] = rng.random() < 0.8
    grid['ey'] = np.linspace(sp['edges'][0], sp['edges'][-1], len(grid['ey'])).tolist()
    ops = [''.join(rng.choice('EEELR') for _ in range(rng.choice([2, 3, 5]))) for _t in range(rng.choice([1, 2, 3]))]
    ops[0] = 'E' + ops[0] + 'L'
    return {'kind': kind, 'factors': factors, 'nest': rng.choice(['left', 'right']), 'ivs': [list(p) for p in ivs], 'prof': prof,
            'spatial': sp, 'grid': grid, 'n': rng.choice([1, 3, 7]), 'vary_n': rng.random() < 0.4, 'seed': rng.randrange(10**6), 'ops': ops}


# ------------------------------------------------------------------------------------------
# PSF

def psf_values(sigmas, psis):
    """gaussian PSF of the implementation at separation psi (source at the equator, events along it)"""
    from skyllh.core.signalpdf import GaussianPSFPointLikeSourceSignalSpatialPDF
    pdf = GaussianPSFPointLikeSourceSignalSpatialPDF(cfg=cfg())
    n = len(psis)
    src = np.zeros((1,), dtype=[('ra', np.float64), ('dec', np.float64)])
    src['ra'] = 1.0
    tdm = TDM(ra=1.0 + np.asarray(psis), dec=np.zeros(n), ang_err=np.asarray(sigmas))
    tdm.f['src_array'] = src
    tdm.src_evt_idxs = (np.zeros(n, dtype=np.int64), np.arange(n))
    from skyllh.core.utils.coords import angular_separation
    psi = angular_separation(np.full(n, 1.0), np.zeros(n), tdm.f['ra'], tdm.f['dec'])
    # the trial data of an analysis also carries a 'psi' source-event field, usually defined with a floor value
    # (get_tdm_field_func_psi(psi_floor)): not among the fields this PDF is documented to use
    tdm.f['psi'] = np.maximum(np.asarray(psi, dtype=np.float64), 2.0 * np.asarray(sigmas, dtype=np.float64))
    with np.errstate(all='ignore'):
        return np.asarray(pdf.get_pd(tdm)[0], dtype=np.float64), np.asarray(psi, dtype=np.float64)


def rayleigh_values(sigmas, psis):
    from skyllh.core.signalpdf import RayleighPSFPointSourceSignalSpatialPDF
    pdf = RayleighPSFPointSourceSignalSpatialPDF(cfg=cfg())
    n = len(psis)
    tdm = TDM(psi=np.asarray(psis), ang_err=np.asarray(sigmas))
    tdm.src_evt_idxs = (np.zeros(n, dtype=np.int64), np.arange(n))
    with np.errstate(all='ignore'):
        pdf.initialize_for_new_trial(tdm)
        return np.asarray(pdf.get_pd(tdm)[0], dtype=np.float64)


def o_psf_norm(ctx, case):
    """gaussian PSF: non-negative, ∫_0^R 2πψ·pd dψ = 1 - exp(-R²/2σ²) (→ 1 over the plane);
    Rayleigh PSF: ∫_0^π 2π sinψ·pd dψ = 1 - exp(-π²/2σ²) (the sphere)."""
    sigma = unjson_float(case['sigma'])
    R = min(math.pi, 12 * sigma)
    k = 24
    xs = np.linspace(0, R, k + 1)
    tot_g = tot_r = 0.0
    for a, b in zip(xs[:-1], xs[1:]):
        tot_g += gl_integrate(lambda p: 2 * np.pi * p * psf_values(np.full(len(p), sigma), p)[0], a, b, 12)
        tot_r += gl_integrate(lambda p: 2 * np.pi * np.sin(p) * rayleigh_values(np.full(len(p), sigma), p), a, b, 12)
    want = 1 - math.exp(-R * R / (2 * sigma * sigma))
    if abs(tot_g - want) > 1e-7:
        return 'gaussian PSF (sigma=%r): ∫_0^%r 2πψ·pd dψ = %r, expected %r' % (sigma, R, tot_g, want)
    if abs(tot_r - want) > 1e-7:
        return 'Rayleigh PSF (sigma=%r): ∫_0^%r 2π sinψ·pd dψ = %r, expected %r' % (sigma, R, tot_r, want)
    pts = np.linspace(0, R, 50)
    for name, vals in (('gaussian', psf_values(np.full(50, sigma), pts)[0]), ('Rayleigh', rayleigh_values(np.full(50, sigma), pts))):
        bad = [(float(p), float(v)) for p, v in zip(pts, vals) if not (math.isfinite(v) and v >= 0)]
        if bad:
            return '%s PSF (sigma=%r): density at psi=%r is %r (not a finite non-negative number)' % (name, sigma, bad[0][0], bad[0][1])
    return None


def o_corr_psf(ctx, case):
    sig, psi = np.array(fl(case['sigmas'])), np.array(fl(case['psis']))
    g, psi_used = psf_values(sig, psi)
    r = rayleigh_values(sig, psi)
    a = ctx.driver('C10', ['psf %s %s' % (flist(sig), flist(psi_used)), 'ray %s %s' % (flist(sig), flist(psi))])
    return compare_psf(sig, psi, g, r, a)


def compare_psf(sig, psi, g, r, answers):
    for p_ in psi:
        br('rayleighPd:psi=0' if p_ == 0 else 'rayleighPd:psi>0')
    for name, impl, ans in (('gaussian', g, answers[0]), ('Rayleigh', r, answers[1])):
        for s, p, v, m in zip(sig, psi, impl, parse_flist(ans)):
            if v != v:
                return '%s PSF(sigma=%r, psi=%r) is nan' % (name, float(s), float(p))
            if not close(float(v), m, 1e-12, 1e-300):
                return '%s PSF(sigma=%r, psi=%r): implementation %r, model %r' % (name, float(s), float(p), float(v), m)
    return None


# ------------------------------------------------------------------------------------------
# correspondence of one time case (usable for replay)

def time_impl(case):
    ivs = [(unjson_float(a), unjson_float(b)) for a, b in case['ivs']]
    times = fl(case['times'])
    pdf = mk_timepdf(case['which'], ivs, case['prof'])
    params = case.get('params') if case['which'] == 'sig' else None
    pd = eval_timepdf(pdf, case['which'], times, params)
    return ivs, times, pdf, pd


def o_corr_time(ctx, case):
    try:
        ivs, times, pdf, pd = time_impl(case)
    except Exception as e:  # noqa
        return 'time PDF raised %s: %s' % (type(e).__name__, e)
    ans = ctx.driver('C10', [time_request(ivs, pdf.time_flux_profile, times)])[0]
    return compare_time(ivs, pdf.time_flux_profile, times, get_S(pdf), pd, ans)


def o_corr_state(ctx, case):
    """the cached `_S` after each operation of a history equals the model's"""
    req, impl = state_corr(case)
    if req is None:
        return impl
    return compare_state(case, impl, ctx.driver('C10', [req])[0])


def state_corr(case):
    ivs = [(unjson_float(a), unjson_float(b)) for a, b in case['ivs']]
    try:
        pdf = mk_timepdf('sig', ivs, case['prof'])
        table = [window_of(pdf)]
        cur = 0
        toks = []
        Ss = [get_S(pdf)]
        tols = [s_tolerance(ivs, pdf.time_flux_profile)]
        for op in case['ops']:
            if op[0] == 'P':
                eval_timepdf(pdf, 'sig', [ivs[0][0]], {k: unjson_float(v) for k, v in op[1].items()})
                w = window_of(pdf)
                if w != table[cur]:
                    table.append(w)
                    cur = len(table) - 1
                toks.append('P%d' % cur)
            elif op[0] == 'L':
                ivs = [(unjson_float(a), unjson_float(b)) for a, b in op[1]]
                pdf.livetime = mk_lt(ivs)
                toks.append('L' + flist([x for p in ivs for x in p]))
            else:
                pdf.time_flux_profile = mk_profile(op[1])
                table.append(window_of(pdf))
                cur = len(table) - 1
                toks.append('Q%d' % cur)
            Ss.append(get_S(pdf))
            tols.append(s_tolerance(ivs, pdf.time_flux_profile))
    except Exception as e:  # noqa
        return None, 'time PDF history %r raised %s: %s' % (case['ops'], type(e).__name__, e)
    ivs0 = [(unjson_float(a), unjson_float(b)) for a, b in case['ivs']]
    req = 'tstate %s %s %s 0 %s' % (flist([w[0] for w in table]), flist([w[1] for w in table]),
                                     flist([x for p in ivs0 for x in p]), ' '.join(toks))
    return req.strip(), (Ss, tols)


def compare_state(case, impl, ans):
    Ss, tols = impl
    for op in case['ops']:
        br({'L': 'tStep:setLivetime', 'Q': 'tStep:setProfile'}.get(op[0], 'tStep:setParams-new' if (op[0] == 'P' and op[1]) else 'tStep:setParams-same'))
    ms = ans.split(' ')
    for k, (a, m, tol) in enumerate(zip(Ss, ms, tols)):
        if a is None:
            continue
        if m == 'ERR' or not close(float(a), b2f(m), REL, tol):
            return '_S after %d operations of %r: implementation %r, model %s' % (k, case['ops'], float(a), m if m == 'ERR' else b2f(m))
    return None


ORACLES = {
    'time_norm': o_time_norm, 'time_fresh': o_time_fresh, 'time_multi': o_time_multi,
    'energy_norm': o_energy_norm, 'energy_eval': o_energy_eval, 'smooth_const': o_smooth_const,
    'spatial_norm': o_spatial_norm, 'psf_norm': o_psf_norm,
    'time_trials': o_time_trials, 'rayleigh_trials': o_rayleigh_trials, 'spatial_history': o_spatial_history,
    'corr_time': o_corr_time, 'corr_state': o_corr_state, 'corr_energy': o_corr_energy,
    'corr_spatial': o_corr_spatial, 'corr_psf': o_corr_psf, 'corr_trials': o_corr_trials, 'corr_sstate': o_corr_sstate,
    'energy_large': o_energy_large, 'time_ext': o_time_ext, 'corr_state2': o_corr_state2, 'time_rows': o_time_rows, 'corr_rows': o_corr_rows, 'corr_bkg2': o_corr_bkg2,
    'inputs_independent': o_inputs_independent, 'corr_eobj': o_corr_eobj, 'energy_variants': o_energy_variants, 'ratio_consumer': o_ratio_consumer, 'time_pmm': o_time_pmm, 'corr_pmm': o_corr_pmm, 'valid_evaluable': o_valid_evaluable, 'grid_cache': o_grid_cache, 'corr_gcache': o_corr_gcache, 'product': o_product, 'corr_product': o_corr_product,
}


def _classify(res):
    import re
    m = re.search(r'raised (\w+)', res)
    if m:
        return 'raises-' + m.group(1)
    if re.search(r'(= |is |gives |to )(np\.float64\()?(nan|inf|-inf)\b', res) or 'not a finite' in res:
        return 'not-finite'
    if 'integrates to' in res:
        return 'not-normalised'
    return 'wrong-result'


# ------------------------------------------------------------------------------------------

def vary_intervals(rng, ivs):
    """a related live-time: drop an interval, cut one short, open a gap inside one, append one, or a new one"""
    ivs = [tuple(p) for p in ivs]
    how = rng.choice(['drop', 'cut', 'split', 'append', 'new'])
    if how == 'drop' and len(ivs) > 1:
        ivs.pop(rng.randrange(len(ivs)))
    elif how == 'cut':
        k = rng.randrange(len(ivs))
        a, b = ivs[k]
        ivs[k] = (a, a + (b - a) * rng.random())
    elif how == 'split':
        k = rng.randrange(len(ivs))
        a, b = ivs[k]
        u, v = sorted([a + (b - a) * rng.random(), a + (b - a) * rng.random()])
        ivs[k:k + 1] = [(a, u), (v, b)]
    elif how == 'append':
        b = ivs[-1][1]
        ln = max(b - ivs[0][0], 1e-6)
        ivs.append((b + ln * rng.random() * 0.1, b + ln * (0.1 + rng.random())))
    else:
        ivs = gen_intervals(rng, rng.choice([1, 2, 3, 5]))
    return ivs


def gen_history(rng, ivs, prof):
    ops = []
    for _ in range(rng.choice([1, 2, 3, 4])):
        r = rng.random()
        if r < 0.4 and prof['kind'] == 'box':
            p = gen_profile(rng, ivs)
            while p['kind'] != 'box':
                p = gen_profile(rng, ivs)
            which = rng.choice(['both', 't0', 'tw', 'same'])
            d = {'t0': p['t0'], 'tw': p['tw']}
            if which == 't0':
                d = {'t0': p['t0']}
            elif which == 'tw':
                d = {'tw': p['tw']}
            elif which == 'same':
                d = {}
            ops.append(['P', d])
        elif r < 0.4:
            p = gen_profile(rng, ivs)
            sg = prof['sigma'] * rng.choice([0.3, 2.0])
            ops.append(['P', rng.choice([{'t0': p['t0']}, {'sigma_t': sg}, {'t0': p['t0'], 'sigma_t': sg}])])
        elif r < 0.7:
            ivs = vary_intervals(rng, ivs)
            ops.append(['L', [list(p) for p in ivs]])
        else:
            p = gen_profile(rng, ivs)
            while p['kind'] != prof['kind']:
                p = gen_profile(rng, ivs)
            ops.append(['Q', p])
    return ops


def run(ctx):
    rng, nprng = ctx.rng, ctx.np_rng
    ctx.rule = ('time PDFs: 1..30 sorted intervals (grid / random floats, touching, zero-length, tiny and huge gaps, MJD scale), '
                'box and gaussian profiles with the window inside / partly outside / in a gap / outside / covering the live-time, '
                'times at all edges, float neighbours, window edges, gaps, random; histories of set_params / livetime / profile '
                'assignments; energy PDFs: 1..8 x 1..6 bins (uniform and irregular), 0..120 MC events incl. events on inner and '
                'outermost edges, outside, zero physics weight, empty declination bands, none/block/gaussian smoothing; spatial '
                'PDFs: 3..15 bins, 0..6000 events, spline order 1..3; PSF: sigma 1e-3..1 rad; directed histories get_pd / profile object changed from outside '
                '(attribute, move, set_params, second PDF sharing it) / get_pd or initialize_for_new_trial with empty, current-value and new parameter rows '
                '(plain and ParameterModelMapper recarray forms, 1-2 sources, box and gaussian, object obtained through copy/deepcopy/pickle); distinct by full input')
    ctx.trusted_base += ['correspondence harness harness/props/c10.py (relations: 1e-9 relative + stated cancellation bounds; decisions exact)',
                         'scipy.special.erf (passed to the model as a table; theorem hypothesis: derivative of erf)',
                         'scipy InterpolatedUnivariateSpline, scipy.signal.convolve, numpy.histogram(2d)/digitize semantics re-implemented in Model/Pdf.lean',
                         'IEEE rounding is outside the theorems (statements over ordered fields / ℝ)']
    ctx.assumptions += ['live-time arrays satisfy assert_mjd_intervals_integrity', 'bin edges strictly increasing (BinningDefinition does not check it)',
                        'ang_err / sigma_t > 0, gaussian tol in (0, 1] (not checked by the code; sigma = 0 gives inf/nan)',
                        'the internal array pdf.livetime.uptime_mjd_intervals_arr is replaced, not edited element-wise in place (the S fingerprint is the array object); arrays of the CALLER may be overwritten freely (generated)',
                        'MC / physics weights non-negative', 'spline and smoothed densities: within approximation only (compared, not proved)']

    oracle_cases = []      # (name, case)
    corr = []              # (oracle name for replay, case, request lines, comparer)
    # ---- time PDFs
    n_time = ctx.n(200, 8000)
    for _ in range(n_time):
        ivs = gen_intervals(rng)
        prof = gen_profile(rng, ivs)
        which = rng.choice(['sig', 'bkg'])
        if which == 'bkg' and rng.random() < 0.15:
            prof = {'kind': 'unity'}           # window (-inf, +inf): the usual background time profile
        ctx.count('time:%s:%s' % (which, prof['kind']))
        if prof.get('tol') is not None:
            ctx.count('time:gauss:non-default-tol')
        if prof['kind'] == 'box' and prof['tw'] < 0:
            ctx.count('time:box:negative-width')
        ctx.count('n_intervals=%s' % (len(ivs) if len(ivs) < 6 else '6+'))
        params = None
        if which == 'sig' and rng.random() < 0.5:
            p2 = gen_profile(rng, ivs)
            if p2['kind'] == prof['kind'] == 'box':
                params = {'t0': p2['t0'], 'tw': p2['tw']}
            elif prof['kind'] == 'gauss':
                sg = prof['sigma'] * rng.choice([0.3, 0.5, 2.0, 3.0])
                params = rng.choice([{'t0': p2['t0']}, {'sigma_t': sg}, {'t0': p2['t0'], 'sigma_t': sg}])
                ctx.count('time:set_params:' + '+'.join(sorted(params)))
            else:
                params = {'t0': p2['t0']}
            ctx.count('time:set_params')
        # the window the evaluation will use (for choosing times) - from a throw-away object
        try:
            tmp = mk_profile(prof)
            if params:
                tmp.set_params(dict(params))
            ts, te = float(tmp.t_start), float(tmp.t_stop)
        except Exception:  # noqa
            ts, te = ivs[0][0], ivs[-1][1]
        pieces = on_window_pieces(ivs, ts, te)
        ctx.count('window:' + ('no-on-time' if not pieces else 'partly-off' if (ts < ivs[0][0] or te > ivs[-1][1] or len(pieces) > 1) else 'inside'))
        times = interesting_times(rng, ivs, ts, te)
        times = rng.sample(times, min(len(times), 40))
        case = {'which': which, 'ivs': [list(p) for p in ivs], 'prof': prof, 'params': params, 'times': times}
        corr.append(('corr_time', case))
        oracle_cases.append(('time_norm', case))
        if prof['kind'] != 'unity' and rng.random() < 0.35:
            ops = gen_history(rng, ivs, prof)
            hc = {'which': which, 'ivs': [list(p) for p in ivs], 'prof': prof, 'ops': ops, 'times': times[:12]}
            oracle_cases.append(('time_fresh', hc))
            for o in ops:
                ctx.count('history-op:' + o[0])
            if prof['kind'] == 'box' and all(o[0] != 'Q' or o[1]['kind'] == 'box' for o in ops):
                corr.append(('corr_state', {'ivs': hc['ivs'], 'prof': prof, 'ops': ops}))
        if prof['kind'] == 'box' and prof['tw'] > 0 and rng.random() < 0.4:
            ec = {'which': which, 'ivs': [list(p) for p in ivs], 'prof': prof, 'ops': gen_ext_history(rng, ivs, prof)}
            for o in ec['ops']:
                ctx.count('ext-op:' + o[0])
            oracle_cases.append(('time_ext', ec))
            if which == 'sig':
                corr.append(('corr_state2', ec))
            else:
                corr.append(('corr_bkg2', ec))
        if rng.random() < 0.45:
            # several trials on one object: equal and different event counts, on/off pattern changing per index
            mode = rng.choice(['direct', 'init']) if which == 'sig' else 'init'
            pool = interesting_times(rng, ivs, ts, te, n_rand=10)
            on_pool = [t for t in pool if ref_is_on(ivs, t)] or pool
            off_pool = [t for t in pool if not ref_is_on(ivs, t)] or pool
            n = rng.choice([1, 2, 3, 5, 8])
            trials = []
            for _k in range(rng.choice([2, 3, 4])):
                if rng.random() < 0.3:
                    n = rng.choice([1, 2, 3, 5, 8])
                tt = [rng.choice(on_pool if rng.random() < 0.5 else off_pool) for _j in range(n)]
                tp = None
                if which == 'sig' and mode == 'direct' and rng.random() < 0.4:
                    p2 = gen_profile(rng, ivs)
                    tp = {'t0': p2['t0'], 'tw': p2['tw']} if (p2['kind'] == prof['kind'] == 'box') else {'t0': p2['t0']}
                trials.append({'times': tt, 'params': tp})
            tc = {'which': which, 'mode': mode, 'ivs': [list(p) for p in ivs], 'prof': prof, 'trials': trials}
            ctx.count('trials:%s:%s' % (which, mode))
            ctx.count('trials:equal-count' if len(set(len(t['times']) for t in trials)) == 1 else 'trials:varying-count')
            oracle_cases.append(('time_trials', tc))
            corr.append(('corr_trials', tc))
        if which == 'sig' and rng.random() < 0.2:
            rows = []
            multi_sig = rng.random() < 0.5
            for _k in range(rng.choice([2, 3])):
                p2 = gen_profile(rng, ivs)
                if prof['kind'] == 'gauss' and multi_sig:
                    rows.append({'t0': p2['t0'], 'sigma_t': prof['sigma'] * rng.choice([0.5, 1.0, 2.0])})
                else:
                    rows.append({'t0': p2['t0']} if prof['kind'] != 'box' or p2['kind'] != 'box' else {'t0': p2['t0'], 'tw': p2['tw']})
            names = set(rows[0])
            rows = [r for r in rows if set(r) == names]
            if len(rows) >= 2:
                if rng.random() < 0.3:
                    rows.append(dict(rows[0]))
                oracle_cases.append(('time_multi', {'ivs': [list(p) for p in ivs], 'prof': prof, 'rows': rows, 'times': times[:10]}))
    # ---- round 7: directed histories "profile object changed from outside, then evaluated" (every template x every way, always)
    for k in range(ctx.n(60, 1200)):
        rc = gen_rows_case(rng, k)
        for o in rc['ops']:
            ctx.count('rows-op:' + o[0] + (':' + o[1] if o[0] in ('X', 'C') else ''))
            if o[0] == 'G':
                for r in o[1]:
                    ctx.count('rows-row:' + ('empty' if r is None else 'current' if r == 'cur' else 'new'))
        ctx.count('rows:K=%d' % rc['K'])
        ctx.count('rows:recarray-form:' + rc['form'])
        oracle_cases.append(('time_rows', rc))
        corr.append(('corr_rows', rc))
    for k in range(ctx.n(25, 500)):
        rc = gen_rows_case_gauss(rng, k)
        ctx.count('rows:gauss:' + rc['ops'][[o[0] for o in rc['ops']].index('X')][1])
        ctx.count('rows:recarray-form:' + rc['form'])
        oracle_cases.append(('time_rows', rc))
    # ---- energy PDFs
    for _ in range(ctx.n(150, 6000)):
        case = gen_energy_case(rng, nprng)
        ctx.count('energy:smooth=%s' % (case['smooth'][0] if case['smooth'] else 'none'))
        ctx.count('energy:events=%s' % ('0' if not case['x'] else '<=10' if len(case['x']) <= 10 else '>10'))
        corr.append(('corr_energy', case))
        oracle_cases.append(('energy_norm', case))
        oracle_cases.append(('energy_eval', case))
        if rng.random() < 0.3:
            vc = dict(case)
            vc['layout'] = rng.choice(['plain', 'strided', 'fortran2d'])
            vc['nb_fit'] = rng.choice([1, 2])
            oracle_cases.append(('energy_variants', vc))
            ctx.count('energy:subclasses:layout=' + vc['layout'])
    for sm, (nE, nD) in [(['block', 5], (100, 50)), (['gauss', 2], (120, 60))] + \
            [([rng.choice(['block', 'gauss']), rng.choice([1, 2, 3, 5, 8])], (rng.choice([60, 100, 150, 200]), rng.choice([30, 50, 60])))
             for _ in range(ctx.n(2, 30))]:
        oracle_cases.append(('energy_large', {'nE': nE, 'nD': nD, 'n': rng.choice([2000, 20000]), 'seed': rng.randrange(10**6), 'smooth': sm}))
        ctx.count('energy:large(>=60x30)')
    for _ in range(ctx.n(10, 200)):
        n, m = rng.choice([3, 5, 8, 100, 200]), rng.choice([1, 3, 50])
        oracle_cases.append(('smooth_const', {'smooth': [rng.choice(['block', 'gauss']), rng.choice([1, 2])], 'n': n, 'm': m,
                                              'c': rng.choice([1.0, 0.25, 3.5]), 'h': nprng.uniform(0, 2, n * m).tolist()}))
    # ---- spatial PDFs
    for k in range(ctx.n(48, 1500)):
        case = gen_spatial_case(rng, nprng, smooth=(k % 6 == 0))
        ctx.count('spatial:%s' % ('smooth-sample' if case.get('smooth_sample') else 'random'))
        corr.append(('corr_spatial', case))
        oracle_cases.append(('spatial_norm', case))
    for _ in range(ctx.n(60, 1500)):
        case = gen_spatial_history(rng, nprng)
        ctx.count('spatial-history:%s' % ('full-range' if (case['edges'][0] == -1.0 and case['edges'][-1] == 1.0) else 'partial-range'))
        for o in case['ops']:
            ctx.count('spatial-op:' + o[0])
        corr.append(('corr_sstate', case))
        oracle_cases.append(('spatial_history', case))
    # ---- real ParameterModelMapper / TrialDataManager, source loop
    for _ in range(ctx.n(30, 500)):
        case = gen_pmm_case(rng)
        ctx.count('pmm:%s:K=%d' % (case['mode'], case['K']))
        if not case['times']:
            ctx.count('pmm:no-events')
        oracle_cases.append(('time_pmm', case))
        corr.append(('corr_pmm', case))
        if case['times'] and rng.random() < 0.4:
            oracle_cases.append(('ratio_consumer', case))
            ctx.count('consumer:SigOverBkgPDFRatio')
    # ---- MultiDimGridPDF cache / PDFProduct
    for _ in range(ctx.n(40, 800)):
        case = gen_grid_case(rng, nprng)
        ctx.count('grid:cache=%s,norm=%s' % (case['cache'], case['norm']))
        ctx.count('grid:repeated-evaluation-of-a-trial', sum(1 for a, b in zip(case['evals'], case['evals'][1:]) if a['trial'] == b['trial']))
        oracle_cases.append(('grid_cache', case))
        corr.append(('corr_gcache', case))
        if any(e['mask'] is not None for e in case['evals']):
            ctx.count('grid:event-subsets')
    for _ in range(ctx.n(30, 500)):
        case = gen_product_case(rng, nprng)
        k = rng.choice(['time', 'spatial', 'grid'])
        oracle_cases.append(('valid_evaluable', {'kind': k, 'which': rng.choice(['sig', 'bkg']), 'ivs': case['ivs'], 'prof': case['prof'],
                                                 'spatial': case['spatial'], 'grid': case['grid']}))
        ctx.count('validity:' + k)
        ctx.count('product:%s:left=%s' % (case['kind'], case['factors'][0] if (len(case['factors']) == 2 or case['nest'] == 'right') else 'product'))
        oracle_cases.append(('product', case))
        corr.append(('corr_product', case))
    # ---- the caller goes on using (overwriting in place) the arrays it handed in
    for _ in range(ctx.n(30, 500)):
        ec = gen_eobj_case(rng, nprng)
        oracle_cases.append(('inputs_independent', ec))
        corr.append(('corr_eobj', ec))
        ctx.count('inputs-overwritten:energy')
        pc = gen_product_case(rng, nprng)
        k = rng.choice(['spatial', 'grid', 'time'])
        oracle_cases.append(('inputs_independent', {'kind': k, 'which': rng.choice(['sig', 'bkg']), 'ivs': pc['ivs'], 'prof': pc['prof'],
                                                    'spatial': pc['spatial'], 'grid': pc['grid'],
                                                    'how': rng.choice(['shift', 'scale', 'reverse', 'nan']), 'c': rng.choice([1.0, -0.5, 0.1, 10.0])}))
        ctx.count('inputs-overwritten:' + k)
    # ---- PSF
    for _ in range(ctx.n(4, 40)):
        n = rng.choice([1, 4, 4, 9])
        trials = []
        for _k in range(rng.choice([2, 3])):
            if rng.random() < 0.3:
                n = rng.choice([1, 4, 9])
            sg = [rng.choice([0.01, 0.1, 0.5]) * (0.5 + rng.random()) for _j in range(n)]
            trials.append({'sigmas': sg, 'psis': [min(3.1, v * 3 * rng.random() + 1e-6) for v in sg]})
        oracle_cases.append(('rayleigh_trials', {'trials': trials}))
    for _ in range(ctx.n(4, 40)):
        oracle_cases.append(('psf_norm', {'sigma': rng.choice([1e-3, 0.01, 0.05, 0.2, 0.5, 1.0]) * (0.5 + rng.random())}))
    for _ in range(ctx.n(6, 100)):
        n = 16
        sig = [rng.choice([1e-3, 0.01, 0.1, 0.5]) * (0.5 + rng.random()) for _ in range(n)]
        psi = [s * rng.choice([0.0, 0.1, 1.0, 3.0, 8.0]) * rng.random() for s in sig]
        psi = [min(p, 3.1) for p in psi]
        corr.append(('corr_psf', {'sigmas': sig, 'psis': psi}))
        ctx.count('psf:batch')

    # ---- run the implementation on the correspondence cases, batch the model requests
    reqs, slots = [], []
    for name, case in corr:
        try:
            if name == 'corr_time':
                ivs, times, pdf, pd = time_impl(case)
                r = [time_request(ivs, pdf.time_flux_profile, times)]
                cmp_ = (lambda a, ivs=ivs, pdf=pdf, times=times, pd=pd:
                        compare_time(ivs, pdf.time_flux_profile, times, get_S(pdf), pd, a[0]))
            elif name == 'corr_state':
                r1, impl = state_corr(case)
                if r1 is None:
                    slots.append((name, case, 0, 0, lambda a, impl=impl: impl))
                    continue
                r = [r1]
                cmp_ = lambda a, case=case, impl=impl: compare_state(case, impl, a[0])
            elif name == 'corr_energy':
                pdf, kernel = mk_energy(case)
                r = list(energy_requests(case, kernel))
                cmp_ = lambda a, case=case, pdf=pdf, kernel=kernel: compare_energy(case, pdf, kernel, *a)
            elif name == 'corr_spatial':
                r, impl = spatial_corr(case)
                cmp_ = lambda a, case=case, impl=impl: compare_spatial(case, impl, a)
            elif name == 'corr_trials':
                r, impl = trials_corr(case)
                cmp_ = lambda a, case=case, impl=impl: compare_trials(case, impl, a)
            elif name == 'corr_eobj':
                outs_, r1 = run_eobj(case)
                r = [r1]
                cmp_ = lambda a, case=case, outs_=outs_: compare_eobj(case, outs_, a[0])
            elif name == 'corr_pmm':
                r, res = pmm_corr(case)
                cmp_ = lambda a, case=case, res=res: compare_pmm(case, res, a)
            elif name == 'corr_gcache':
                r, res = grid_corr(case)
                cmp_ = lambda a, case=case, res=res: compare_grid(case, res, a)
            elif name == 'corr_product':
                r, res = product_corr(case)
                cmp_ = lambda a, case=case, res=res: compare_product(case, res, a)
            elif name == 'corr_state2':
                outs, r1 = run_ext(case)
                r = [r1]
                cmp_ = lambda a, case=case, outs=outs: compare_state2(case, outs, a[0])
            elif name == 'corr_bkg2':
                outs, r1 = run_ext(case)
                r = [r1.replace('tstate2', 'tbkg', 1)]
                cmp_ = lambda a, case=case, outs=outs: compare_bkg2(case, outs, a[0])
            elif name == 'corr_rows':
                outs, r1 = run_rows(case)
                r = [r1]
                cmp_ = lambda a, case=case, outs=outs: compare_rows(case, outs, a[0])
            elif name == 'corr_sstate':
                r, impl = sstate_corr(case)
                cmp_ = lambda a, case=case, impl=impl: compare_sstate(case, impl, a[0])
            else:
                sig, psi = np.array(fl(case['sigmas'])), np.array(fl(case['psis']))
                g, psi_used = psf_values(sig, psi)
                rr = rayleigh_values(sig, psi)
                r = ['psf %s %s' % (flist(sig), flist(psi_used)), 'ray %s %s' % (flist(sig), flist(psi))]
                cmp_ = lambda a, sig=sig, psi=psi, g=g, rr=rr: compare_psf(sig, psi, g, rr, a)
        except MachineryError:
            raise
        except Exception as e:  # noqa  the implementation raised where the model has no notion of raising
            msg = '%s: implementation raised %s: %s' % (name, type(e).__name__, e)
            slots.append((name, case, 0, 0, lambda a, msg=msg: msg))
            continue
        slots.append((name, case, len(reqs), len(r), cmp_))
        reqs += r
    answers = ctx.driver('C10', reqs)
    suspicious = []
    for k, (name, case, start, n, cmp_) in enumerate(slots):
        ctx.case(nontrivial=True, key=(name, case), desc={'corr': name, 'case': _short(case)} if k % 97 == 0 else None)
        ctx.count('corr:' + name)
        d = cmp_(answers[start:start + n])
        if d:
            suspicious.append((name, case, d))

    # ---- property oracles on the implementation
    for k, (name, oc) in enumerate(oracle_cases):
        ctx.case(nontrivial=True, key=(name, oc), desc={'oracle': name, 'case': _short(oc)} if k % 211 == 0 else None)
        ctx.count('oracle:' + name)
        res = ORACLES[name](ctx, oc)
        if res:
            ctx.violation(name, oc, res, signature='C10/%s/%s' % (name + (':' + oc['kind'] if name == 'inputs_independent' else ''), _classify(res)))

    # ---- model/implementation disagreements: look for a failing input with the oracles, else report the relation
    related = {'corr_time': ['time_norm'], 'corr_state': ['time_fresh'], 'corr_energy': ['energy_norm', 'energy_eval'],
               'corr_spatial': ['spatial_norm'], 'corr_psf': ['psf_norm'], 'corr_trials': ['time_trials'], 'corr_sstate': ['spatial_history'], 'corr_state2': ['time_ext'], 'corr_rows': ['time_rows'], 'corr_bkg2': ['time_ext'], 'corr_gcache': ['grid_cache'], 'corr_pmm': ['time_pmm'], 'corr_eobj': ['inputs_independent'], 'corr_product': ['product']}
    seen = set()
    for name, case, d in sorted(suspicious, key=lambda x: len(repr(x[1]))):
        if name in seen:
            continue
        seen.add(name)
        hit = False
        for on in related[name]:
            oc = dict(case)
            if name == 'corr_psf':
                oc = {'sigma': case['sigmas'][0]}
            if name == 'corr_state':
                oc = {'which': 'sig', 'ivs': case['ivs'], 'prof': case['prof'], 'ops': case['ops'],
                      'times': [x for p in case['ivs'] for x in p]}
            res = ORACLES[on](ctx, oc)
            if res:
                ctx.violation(on, oc, res, signature='C10/%s/%s' % (on, _classify(res)), model_output=d)
                hit = True
                break
        if not hit:
            ctx.violation(name, case, 'model and implementation disagree (%s) but no property oracle fails on this input' % d,
                          kind='correspondence', relation=name + ' (1e-9 relative / exact decisions)',
                          signature='C10/%s/disagree' % name, no_failing_input=True)
    ctx.extra['correspondence_disagreements'] = len(suspicious)
    for name, k in sorted(_BR.items()):
        ctx.count('branch:' + name, k)
    zero = [b for b in BRANCHES if not _BR.get(b)]
    ctx.extra['zero_hit_branches'] = zero
    ctx.extra['model_branches'] = len(BRANCHES)
    if zero:
        ctx.note('model branches not reached by the correspondence in this run: %s' % ', '.join(zero))
    for attr, k in _MISSING.items():
        if k:
            ctx.count('skipped:private-attr:' + attr, k)
            ctx.note('private attribute %s not found on %d objects: the comparison of that value was skipped (densities are still compared)' % (attr, k))


def _short(case):
    out = {}
    for k, v in case.items():
        if isinstance(v, list) and len(v) > 12:
            out[k] = v[:12] + ['…(%d)' % len(v)]
        else:
            out[k] = v
    return out


MANIFEST = dict(
    text=('Lean theorems: the signal/background time density timePd (is_on mask, division by the cached S) is non-negative, zero in '
          'off-time, zero when the window holds no on-time, and its integrals over the up-time intervals sum to 1 whenever S>0, for every '
          'sorted interval set and window - generic in the profile, instantiated for the box profile and (given only that erf has the '
          'error function\'s derivative) the gaussian profile; S as coded refines the specification form (via C14); _S is never stale over '
          'arbitrary histories of parameter/live-time/profile updates. Energy histogram: every band with content integrates to 1, empty '
          'bands are 0, non-negative with and without smoothing, smoothing preserves constants, every value accepted by the validity check is looked up in the bin '
          'numpy.histogram2d filled; the histogram PDF object is independent of later in-place writes of its caller into the arrays handed in (c10_energy_object_independent_of_caller); smoothed band mass within the proved column-sum bounds; MultiDimGridPDF: bilinear interpolant non-negative, valid points are interpolated, the pd cache (incl. event subsets) is transparent for every evaluation sequence (c10_grid_cache_transparent) and PDFProduct leaves its factors alone (c10_product_pure) (one field for check and lookup; the two-field check before the fix is refuted). get_pd is current after any history of setters / shared-profile / nested live-time changes between initialize_for_new_trial and get_pd (fingerprinted S, dropped _pd). Several trials on one time-PDF object return the stateless density (buffer as coded). Spatial histogram with 1/2pi normalised over the covered sphere, also after any add_events/reset history; gaussian PSF integrates to 1 over the plane, '
          'Rayleigh form to 1-exp(-pi^2/2sigma^2) over the sphere. The source loop of SignalTimePDF (real src_evt_idxs) is pointwise the single-source density; get_pd with a parameter recarray (empty rows, rows equal to the current values of the profile, new values, one or two sources) after the public profile object was changed from outside (attribute, move, set_params, a second PDF sharing it) evaluates every source with the normalisation of its own current profile state (c10_time_getpd_rows_current, c10_time_rows_normalised_box; the variant that refreshes S only when set_params reports a change is refuted); BackgroundTimePDF.get_pd after any history raises its RuntimeError or returns the current density, and answers directly after initialize_for_new_trial (c10_time_bkg_getpd_current_or_refuses, c10_time_bkg_getpd_after_init); the validity check follows the live-time. The executable model is compared with the real SignalTimePDF, '
          'BackgroundTimePDF, I3EnergyPDF, BackgroundI3SpatialPDF and PSF classes on every run; quadrature / exact-fraction / '
          'fresh-vs-used oracles search the implementation for failing inputs, incl. real MultiDimGridPDF (cache x norm_factor_func x call sequence) and PDFProduct objects.'),
    note=('Theorems over ordered fields / R, not IEEE doubles. erf is not in Mathlib: gaussian profile from the hypothesis erf\' = '
          '2/sqrt(pi) exp(-x^2), discharged by erfR (integral definition) in c10_time_normalised_gauss_erfR. Log-spline interpolation and smoothed histograms are "within approximation": compared and bounded by '
          'oracles, only non-negativity is proved for them. MultiDimGridPDF: cache logic modelled, the scipy interpolator itself is compared with an own bilinear reference; evaluation through event subsets (evt_mask) only by oracle.'),
    design='DESIGN.md section 4 C10',
    technique='Lean 4 proof (Mathlib interval integrals, FTC, gaussian integral; list induction; state-machine invariant) + '
              'tolerance/exact model-implementation correspondence + quadrature and exact-fraction oracles')
