"""C09 — parallel map returns all results in input order, or fails loudly.

Correspondence: the real `skyllh.core.multiproc.parallelize` (real processes, guarded hook, every run under a
watchdog) vs. the transition system of Model/Par.lean (Driver/C09.lean): the observed outcome class
{done:<task order>, error, stuck(=watchdog)} must belong to the model's outcome set for the same
(ncpu, n, fault plan) — computed over all schedules for small instances (`explore`) and over several fixed
and random fair schedules otherwise (`run`); `numpy.array_split` chunking is compared exactly.
Property oracles (implementation only): ordered/complete results, determinism across completion orders,
"error, never a result, never a hang" for every effective fault, `Analysis.do_trials` order.
"""
import itertools

from harness.core import MachineryError
from harness import par_fixtures as pf
from harness import c09_r7_fixtures as r7

MODEL_MODULES = ['SkyllhModel.Model.Par', 'SkyllhModel.Model.ParStatus', 'SkyllhModel.Model.ParSetupR7']

# which callables of the anchored files have an executable Lean counterpart that run(ctx) compares with the real callable
MODEL_MAP = {
    'skyllh/core/multiproc.py::get_ncpu': ['Par.getNcpu', 'ParSetup.getNcpuP'],
    'skyllh/core/multiproc.py::parallelize': ['Par.arraySplit', 'Par.mkCfg', 'Par.childStep', 'Par.masterStep', 'Par.step', 'Par.terminateAll',
                                              'ParStatus.step', 'ParSetup.setup', 'ParSetup.seededF', 'ParSetup.seededExpected', 'ParSetup.taskKwargs', 'ParSetup.dictSet',
                                              'ParSetup.firstBadExit'],
    'skyllh/core/multiproc.py::IsParallelizable.ncpu': ['ParSetup.setNcpuP', 'ParSetup.ncpuProperty'],
    'skyllh/core/analysis.py::Analysis.do_trials': ['Par.assembleTrials'],
}


def generated(ctx):
    """literals of skyllh/core/multiproc.py the model is instantiated at (Generated/C09.lean); the `…_for_current_source`
    lemmas of Props/C09.lean are proof obligations on them"""
    vals, fallbacks = r7.extract_constants()
    for name, why in fallbacks:
        ctx.note('C09: could not extract %s (%s); using recorded value %r' % (name, why, r7.RECORDED[name]))
        ctx.proof['generated_fallbacks'].append(name)
    return r7.generated_text(vals)

SLOW = 0.03          # a slow process sleeps this long before its first task
FAULT_DELAY = 0.06   # a late fault / a fault after the result has been flushed to the pipe


# ------------------------------------------------------------------------------------------
# cases

def chunk_sizes(n, ncpu):
    import numpy as np
    return [len(c) for c in np.array_split(np.arange(n), ncpu)]


def boundary_seed(k, typical):
    """seeds of the RandomStateService handed to parallelize / do_trials: the boundary values of the legal range
    [0, 2**32 - 1] (0 is falsy, 2**32 - 1 is the largest seed numpy accepts) next to ordinary ones"""
    return [0, 2**32 - 1, 1, typical][k % 4]


def seed_class(seed):
    return {0: 'zero', 1: 'one', 2**32 - 1: 'max'}.get(seed, 'none' if seed is None else 'ordinary')


def entry(where, pid, task, *actions):
    return {'where': where, 'pid': pid, 'task': task, 'actions': [list(a) for a in actions]}


def make_case(ncpu, n, slow=(), fault=None, seed=None, logs=True, variant='fast', api='parallelize', faults=None, rsize=0,
              late_sentinel=(), slow_s=None):
    """slow: pids (0 = master) that sleep before their first task (a child without tasks sleeps between the
    result and the log sentinel instead).
    fault: None | {pid, point: 'task'|'queued', t, kind: 'raise'|'exit', code, flushed: bool, late: bool}; faults: several;
    rsize: payload bytes per result; late_sentinel: children that sleep between rqueue.put and the log sentinel"""
    ks = chunk_sizes(n, max(ncpu, 1))
    plan, msleep = [], {}
    slow_s = SLOW if slow_s is None else slow_s
    for p in sorted(slow):
        if p == 0:
            if ks[0] > 0:
                msleep[0] = slow_s
        elif p < ncpu:
            if ks[p] > 0:
                plan.append(entry('task', p, 0, ('sleep', slow_s)))
            else:
                plan.append(entry('queued', p, None, ('sleep', slow_s)))
    for p in sorted(late_sentinel):
        plan.append(entry('queued', p, None, ('sleep', SLOW)))
    kills = []
    starts = [sum(ks[:p]) for p in range(max(ncpu, 1))]
    for fault in ([fault] if fault is not None else []) + list(faults or []):
        if fault['kind'] == 'signal':
            # armed by a task of that child (the last one for the windows after the loop), see par_fixtures.task_func
            p = fault['pid']
            t = fault['t'] if fault['point'] == 'task' else ks[p] - 1
            kills.append({'i': starts[p] + t, 'sig': int(fault.get('sig', 9)), 'delay': 0 if fault['point'] == 'task' else KILL_DELAY,
                          'pid': p, 'where': fault['point'], 'task': fault.get('t')})
            if fault['point'] != 'task':
                plan.append(entry(fault['point'], p, None, ('sleep', KILL_HOLD)))
            continue
        act = ('raise', 'injected fault') if fault['kind'] == 'raise' else ('exit', int(fault.get('code', 3)))
        pre = []
        if fault['point'] in ('queued', 'done'):
            if fault.get('flushed', True) or fault.get('late'):
                pre = [('sleep', fault.get('delay', FAULT_DELAY))]
            plan.append(entry(fault['point'], fault['pid'], None, *(pre + [act])))
        else:
            if fault.get('late'):
                pre = [('sleep', FAULT_DELAY)]
            plan.append(entry('task', fault['pid'], fault['t'], *(pre + [act])))
    return {'api': api, 'ncpu': ncpu, 'n': n, 'seed': seed, 'plan': plan, 'msleep': msleep, 'boom': [],
            'logs': bool(logs), 'variant': variant, 'rsize': int(rsize), 'kill': kills}


KILL_DELAY = 0.12     # a signal that hits the process in a later window arrives this long after the task that armed it
KILL_HOLD = 3.0       # … while the hook plan holds the process in that window (round 7: was 0.35 s — on a machine with load average
                      # 68 the timer thread fired later than that, the child left the window alive and the run was reported as
                      # 'returned although a worker died'; the signal ends the hold, so a long hold costs nothing)
KILL_OTHERS_SLOW = 0.35 + 3 * SLOW   # the others are slower than the signal's delay by a wide margin


def _fault_actions(case):
    """(pid, where, task, action, value, delayed) of every raise/exit in the plan and of every death by signal"""
    out = [(k['pid'], k['where'], k.get('task'), 'signal', int(k['sig']), True) for k in case.get('kill') or []]
    for e in case.get('plan') or []:
        delayed = False
        for a, v in e.get('actions', []):
            if a == 'sleep':
                delayed = True
            if a in ('raise', 'exit'):
                out.append((e['pid'], e['where'], e.get('task'), a, v, delayed))
                break
    return out


def expects_error(case):
    """Does a worker raise or die in this case?  (independent of the Lean model)"""
    ncpu, n = case['ncpu'], case['n']
    if case.get('ncpu_values') is not None:
        _, req = _ncpu_impl({'cfg': case['ncpu_values'][0], 'local': case['ncpu_values'][1]})
        return not _NCPU_OK(req)
    if ncpu < 1:
        return True     # not a worker count: has to be rejected
    if any(0 <= int(i) < n for i in case.get('boom') or []):
        return True
    if ncpu == 1:
        return False
    ks = chunk_sizes(n, ncpu)
    either = False
    for pid, where, task, a, v, delayed in _fault_actions(case):
        if 1 <= pid < ncpu and (where == 'queued' or (where == 'task' and task is not None and task < ks[pid])):
            return True
        if 1 <= pid < ncpu and where == 'done' and (a == 'raise' or v != 0):
            return True
        if 1 <= pid < ncpu and where == 'done':
            # os._exit(0) after the sentinel was queued: a clean exit if the feeder thread has written the sentinel by then
            # (normally within the delay), a death before the end of the log records otherwise — both are legitimate
            either = True
    return None if either else False


PIPE_BUF = 65536


def fault_class(case):
    pre = ''
    if case.get('interactive'):
        pre = 'interactive-large-' if case['n'] > 1000 else 'interactive-'
    elif case.get('api') == 'repeat':
        pre = 'repeat-'
    elif case['n'] > 1000:
        pre = 'large-'
    elif case.get('api') == 'do_trials' and case['n'] == 0 and not (case.get('ncpu_values') is not None and expects_error(case)):
        pre = 'n0-'
    elif case['ncpu'] < 1:
        pre = 'bad-ncpu-'
    fa = _fault_actions(case)
    if int(case.get('rsize') or 0) >= PIPE_BUF:
        # a hard exit anywhere after rqueue.put can hit the feeder thread in the middle of the pipe write of a large result
        # (round 7: a death by signal there is the same event — seen under load: SIGTERM 0.12 s after rqueue.put, 100 kB results)
        if fa and all(w in ('queued', 'done') and a in ('exit', 'signal') for (_, w, _, a, _, _) in fa):
            return pre + 'bigres-exit-at-queued'
        pre += 'bigres-'
    if len(fa) > 1:
        pre += 'multi-'
    return pre + _fault_class(case)


def _fault_class(case):
    fa = _fault_actions(case)
    if case.get('boom'):
        return 'func-raises' + ('' if (case.get('boomkind') or 'ValueError') == 'ValueError' else '-' + case['boomkind'])
    if not fa:
        return 'no-fault'
    pid, where, task, a, v, delayed = fa[0]
    kind = 'raise' if a == 'raise' else 'signal' if a == 'signal' else ('exit0' if v == 0 else 'exit-nonzero')
    return '%s-at-%s' % (kind, {'task': 'task', 'done': 'done'}.get(where, 'queued'))


def model_fault_specs(case):
    """fault tokens for the driver (a list of alternatives, all of which are possible for this plan);
    None when the case is outside the model (illegal worker count)."""
    ncpu, n = case['ncpu'], case['n']
    if ncpu < 1:
        return None
    ks = chunk_sizes(n, ncpu)
    starts = [sum(ks[:p]) for p in range(ncpu)]
    specs = [[]]
    for i in case.get('boom') or []:
        p = max(q for q in range(ncpu) if starts[q] <= i)
        bk = case.get('boomkind') or 'ValueError'
        if p > 0 and bk.startswith('SystemExit'):
            # the process bootstrap turns SystemExit(c) into exit code c without a traceback
            specs = [s + ['%d:exit:%d:%d' % (p, i - starts[p], int(bk[10:]))] for s in specs]
        else:
            specs = [s + ['%d:raise:%d' % (p, i - starts[p])] for s in specs]     # p = 0: the function raises in the master
    if ncpu > 1:
        for pid, where, task, a, v, delayed in _fault_actions(case):
            if not (1 <= pid < ncpu):
                continue
            if where == 'task':
                tok = ['%d:raise:%d' % (pid, task)] if a == 'raise' else ['%d:exit:%d:%d' % (pid, task, v)]
            elif where == 'done':
                code = 1 if a == 'raise' else v
                # exit after the sentinel; without a delay the sentinel may not have reached the pipe
                tok = ['%d:xs:%d' % (pid, code), '%d:xq:%d:1' % (pid, code)]
                if a in ('exit', 'signal') and int(case.get('rsize') or 0) >= PIPE_BUF:
                    tok = tok + ['%d:xp:%d' % (pid, code)]      # … or the result itself is still being written
            else:
                code = 1 if a == 'raise' else v
                # without a delay the result may or may not have reached the pipe before the exit
                tok = ['%d:xq:%d:1' % (pid, code)] if delayed else ['%d:xq:%d:1' % (pid, code), '%d:xq:%d:0' % (pid, code)]
                if a in ('exit', 'signal') and int(case.get('rsize') or 0) >= PIPE_BUF:
                    tok = tok + ['%d:xp:%d' % (pid, code)]      # only a part of the result has reached the pipe
            specs = [s + [t] for s in specs for t in tok]
    # the model has one fault slot per child: keep the first fault of each child
    out = []
    for s in specs:
        seen, keep = set(), []
        for t in s:
            p = t.split(':')[0]
            if p not in seen:
                seen.add(p)
                keep.append(t)
        out.append(';'.join(keep) if keep else '-')
    return sorted(set(out))


def outcome_class(case, out):
    if out['out'] == 'timeout':
        return 'stuck'
    if out['out'] == 'error':
        return 'error'
    if 'res' not in out or case.get('api') == 'repeat':
        return 'done'
    idx = []
    for r in out['res']:
        idx.append(str(r[0]) if isinstance(r, (tuple, list)) and len(r) >= 1 else '?')
    return 'done:' + (','.join(idx) if idx else '-')


# ------------------------------------------------------------------------------------------
# property oracles (implementation only)

def check_outcome(case, out, watchdog):
    """None | (failure mode, text) for one run of one case"""
    n = case['n']
    what = 'parallelize(ncpu=%d, %d tasks, plan=%r, slow tasks=%r, raising tasks=%r%s%s)' % (
        case['ncpu'], n, case.get('plan'), case.get('msleep'), case.get('boom'),
        ((' with %s' % case['boomkind']) if case.get('boomkind') else '') + ((', deaths by signal %r' % case['kill']) if case.get('kill') else ''),
        (', every task %s' % {'nested': 'runs a parallel map itself (ncpu=%s, %s tasks)' % tuple(case.get('inner') or (1, 0)), 'thread': 'computes in a thread of its own',
                              'mpchild': 'starts a multiprocessing child'}[case['does']]) if case.get('does') else '')
    if case.get('api') == 'do_trials':
        what = 'do_trials(n=%d, ncpu=%d, plan=%r)' % (n, case['ncpu'], case.get('plan'))
    if case.get('interactive'):
        what += ' in an interactive session (progress bar and status queue active)'
    if case.get('api') == 'repeat':
        what = 'parallelize(ncpu=%d, %d tasks) called once per seed of %r (None: rss=None) on the same args_list object, fresh rss each time' % (
            case['ncpu'], n, case['seeds'])
    if int(case.get('rsize') or 0):
        what += ' with %d-byte results' % case['rsize']
    if out['out'] == 'timeout':
        return 'hang', '%s did not end within the watchdog time of %.0f s' % (what, float(case.get('watchdog') or watchdog))
    if out['out'] == 'died':
        return 'caller-died', '%s: the calling process died without an exception' % what
    r = _check_outcome(case, out, what)
    if r is None and out.get('alive'):
        return 'children-left-behind', '%s: %d child process(es) still alive 1 s after the call %s' % (
            what, out['alive'], 'returned' if out['out'] == 'done' else 'raised %s' % out.get('etype'))
    return r


# exception classes that are accidents of the implementation (a lookup / attribute / unpickling failure escaping from
# parallelize), not the demanded loud failure; subclasses of RuntimeError, OSError, ValueError … are all accepted
ACCIDENTAL = {'LookupError', 'AttributeError', 'TypeError', 'NameError', 'AssertionError', 'EOFError', 'UnpicklingError', 'Empty',
              'SystemExit', 'KeyboardInterrupt', 'StopIteration'}


def _check_outcome(case, out, what):
    n = case['n']
    if case.get('api') == 'repeat':
        if out['out'] == 'error':
            return 'spurious-error', '%s raised %s: %s' % (what, out.get('etype'), out.get('msg'))
        view = lambda rr: [(r[0], r[1], r[3]) for r in rr]   # noqa
        for c, (got, ref) in enumerate(zip(out['res'], out['ref'])):
            if view(got) != view(ref) and c == 0:
                return 'nondeterministic', ('%s: the first call (seed %r) returned %r, a second, identical call on a newly built argument list '
                                            'returned %r (results are not deterministic for a given seed and worker count)' % (
                                                what, case['seeds'][0], view(got)[:6], view(ref)[:6]))
            if view(got) != view(ref):
                return 'depends-on-earlier-call', (
                    '%s: call #%d (seed %r) returned %r, but a call with a newly built argument list and the same seed returns %r '
                    '(results for a given seed and worker count depend on earlier calls)' % (what, c + 1, case['seeds'][c], view(got)[:4], view(ref)[:4]))
        for a in range(len(case['seeds'])):
            for b in range(a + 1, len(case['seeds'])):
                if case['seeds'][a] == case['seeds'][b] and view(out['res'][a]) != view(out['res'][b]):
                    return 'depends-on-earlier-call', '%s: calls #%d and #%d with the same seed differ' % (what, a + 1, b + 1)
        return None
    exp_err = expects_error(case)
    if out['out'] == 'error':
        if exp_err is False:
            return 'spurious-error', '%s raised %s: %s although no worker failed' % (what, out.get('etype'), out.get('msg'))
        acc = ACCIDENTAL & set(out.get('mro') or [out.get('etype')])
        bk = (case.get('boomkind') or 'ValueError').rstrip('0123456789')
        if case.get('boom') and out.get('etype') == bk:
            acc = set()     # the function's own exception, propagated from the master's chunk (or ncpu = 1)
        if acc and case['ncpu'] >= 1 and case.get('ncpu_values') is None:      # an illegal worker count is outside the quantifier: any exception is a rejection
            return 'accidental-error', '%s ended with %s: %s — an accident of the implementation, not a reported worker failure' % (
                what, out.get('etype'), out.get('msg'))
        return None
    if exp_err:
        return 'returns-despite-failure', '%s returned %d results although a worker raised or died' % (what, len(out['res']))
    if case.get('summary'):
        if out['res_len'] != n or out['res_bad']:
            return 'wrong-result', '%s returned %d results for %d inputs, first wrong positions %r' % (what, out['res_len'], n, out['res_bad'])
        return None
    res = out['res']
    if len(res) != n:
        return 'wrong-result', '%s returned %d results for %d inputs' % (what, len(res), n)
    if case.get('api') == 'do_trials':
        for i, r in enumerate(res):
            if not (len(r) == 4 and r[2] == (0 if (case.get('form') or {}).get('kwargs') == 'empty' else 7)):
                return 'wrong-result', '%s: row %d is %r (keyword argument k=7 not passed through)' % (what, i, r)
        return None
    rs = int(case.get('rsize') or 0)
    for i, r in enumerate(res):
        if not (isinstance(r, (tuple, list)) and len(r) == (5 if rs else 4) and r[0] == i and r[1] == i * i + pf.kval(case, i) and (not rs or r[4] == rs)):
            return 'wrong-result', '%s: result %d is %r, expected that of task %d (returned task order %s)' % (
                what, i, r, i, [x[0] if isinstance(x, (tuple, list)) else x for x in res])
    return None


def _det_view(case, out):
    """what has to be equal in two runs with the same seed and worker count"""
    if case.get('api') == 'do_trials':
        return [tuple(r[:3]) for r in out['res']]
    return [(r[0], r[1], r[3]) for r in out['res']]


def eval_group(cases, outs, watchdog):
    """cases of one group share (api, ncpu, n, seed); returns None | (mode, text, failing case)"""
    for c, o in zip(cases, outs):
        if o['out'] == 'skipped':
            continue
        r = check_outcome(c, o, watchdog)
        if r:
            return r[0], r[1], c
    done = [(c, o) for c, o in zip(cases, outs) if o['out'] == 'done' and 'res' in o and c.get('api') != 'repeat']
    if len(done) >= 2 and done[0][0].get('seed') is not None:
        c0, o0 = done[0]
        v0 = _det_view(c0, o0)
        for c, o in done[1:]:
            if _det_view(c, o) != v0:
                return 'nondeterministic', ('%s(ncpu=%d, n=%d, seed=%r): results differ between two completion orders '
                                            '(plans %r and %r): %r vs %r' % (c.get('api'), c['ncpu'], c['n'], c.get('seed'),
                                                                             c0.get('plan'), c.get('plan'), v0[:6], _det_view(c, o)[:6])), c
    return None


def o_pmap(ctx, case):
    """case: {'cases': [fixture cases sharing (api, ncpu, n, seed)]}"""
    cases = case['cases']
    # a hang of the large-result class shows within 2.5 s (a healthy run of these cases takes < 1 s)
    cases = [dict(c, watchdog=min(float(c['watchdog']), 2.5)) if c.get('watchdog') and int(c.get('rsize') or 0) >= PIPE_BUF else c for c in cases]
    outs = pf.run_cases(cases, timeout=pf.WATCHDOG_S)
    r = eval_group(cases, outs, pf.WATCHDOG_S)
    return r[1] if r else None


def model_outcome_lines(ctx, items, exhaustive_limit):
    """items: list of (ncpu, n, spec, logs); returns (driver lines, owner of each line)"""
    lines, owner = [], []
    for it in items:
        ncpu, n, spec, logs = it
        lg = '1' if logs else '0'
        ks = chunk_sizes(n, ncpu)
        if exhaustive_limit(ncpu, n):
            lines.append('explore cur %d %d %s %s' % (ncpu, n, spec, lg))
            owner.append((it, True))
        pres = ['-',
                ','.join(str(p) for p in range(1, ncpu) for _ in range(ks[p] + 4)) or '-',
                ','.join(['0'] * (ks[0] + 3) + [str(p) for p in range(ncpu - 1, 0, -1) for _ in range(ks[p] + 4)]),
                ','.join(str(ctx.rng.randrange(ncpu)) for _ in range(40)),
                # every child up to (not including) its exit, then the master alone: it has to wait in join
                ','.join([str(p) for p in range(1, ncpu) for _ in range(ks[p] + 2)] + ['0'] * (ks[0] + 6 * ncpu + 4)) or '-']
        if exhaustive_limit(ncpu, n):
            pres = [pres[0], pres[4]]      # all schedules are explored anyway: two runs for the branch coverage
        for pre in pres:
            lines.append('run cur %d %d %s %s %s' % (ncpu, n, spec, lg, pre))
            owner.append((it, False))
    return lines, owner


def model_outcomes(ctx, items, exhaustive_limit, drv=None):
    """returns {item: set of outcome strings}; drv: function lines -> answers (default: one driver process)"""
    lines, owner = model_outcome_lines(ctx, items, exhaustive_limit) if not isinstance(items, tuple) else items
    ans = (drv or (lambda ls: ctx.driver('C09', ls)))(lines)
    res = {}
    for (it, expl), a in zip(owner, ans):
        if a in ('bad-op', '') or 'budget' in a:
            raise MachineryError('driver C09 answered %r for %r' % (a, it))
        if ' tags:' in a:
            a, tags = a.split(' tags:')
            for t in tags.split(','):
                if t:
                    ctx.count('model-branch:' + t)
        res.setdefault(it, set()).update(a.split(';'))
        if expl:
            ctx.count('model:explored-all-schedules')
    return res


def o_corr(ctx, case):
    """one fixture case: observed outcome class must be in the model's outcome set"""
    specs = model_fault_specs(case)
    if specs is None:
        return None
    out = pf.run_case(case, timeout=pf.WATCHDOG_S)
    items = [(case['ncpu'], case['n'], s, case.get('logs', False)) for s in specs]
    mo = model_outcomes(ctx, items, lambda ncpu, n: ncpu <= 3 and n <= 4)
    allowed = set().union(*mo.values())
    cls = outcome_class(case, out)
    if cls not in allowed:
        return 'observed outcome %s, model outcome set %s' % (cls, sorted(allowed))
    return None


def o_split(ctx, case):
    import numpy as np
    n, ncpu = case['n'], case['ncpu']
    args_list = [((i,), {'k': i}) for i in range(n)]
    chunks = np.array_split(np.array(args_list, dtype=object), ncpu)
    got = [[a[0][0] for a in c] for c in chunks]
    flat = [i for c in got for i in c]
    sizes = [len(c) for c in got]
    if flat != list(range(n)) or len(got) != ncpu or (sizes and max(sizes) - min(sizes) > 1):
        return 'array_split of %d tasks over %d processes gives %r' % (n, ncpu, got)
    return None


LATE_WORKER_SIGNATURE = 'C09/parallelize/hang/interactive-large-no-fault'


def late_worker_case():
    """interactive session, 2 processes, 8000 trivial tasks, the child starts 0.5 s late: the master has finished its chunk
    (and with it reading the status queue) before the child writes its 4000 status records"""
    c = make_case(2, 8000, logs=False, variant='large-interactive-late-worker')
    c['plan'] = [entry('task', 1, 0, ('sleep', 0.5))]
    return dict(c, summary=True, interactive=True, watchdog=6.0)


PARTIAL_WRITE_SIGNATURE = 'C09/parallelize/hang/bigres-exit-at-queued'


def partial_write_case():
    """2 processes, 4 tasks with 200 kB results, the master is busy for 0.5 s, the child is killed (os._exit(3)) 0.1 s after
    rqueue.put: only the first 64 KiB of its result are in the pipe"""
    c = make_case(2, 4, fault={'pid': 1, 'point': 'queued', 'kind': 'exit', 'code': 3, 'flushed': True, 'delay': 0.1}, rsize=200000,
                  logs=False, variant='partial-write')
    c['msleep'] = {0: 0.5}
    return dict(c, watchdog=2.5)


ORACLES = {'pmap': o_pmap, 'corr': o_corr, 'split': o_split}


# ------------------------------------------------------------------------------------------

def _fault_grid(ncpu, n):
    ks = chunk_sizes(n, ncpu)
    for pid in range(1, ncpu):
        for t in range(ks[pid]):
            yield {'pid': pid, 'point': 'task', 't': t, 'kind': 'raise'}
            yield {'pid': pid, 'point': 'task', 't': t, 'kind': 'exit', 'code': 3}
            yield {'pid': pid, 'point': 'task', 't': t, 'kind': 'exit', 'code': 0}
        yield {'pid': pid, 'point': 'queued', 'kind': 'exit', 'code': 3, 'flushed': True}
        yield {'pid': pid, 'point': 'queued', 'kind': 'exit', 'code': 0, 'flushed': True}
        yield {'pid': pid, 'point': 'queued', 'kind': 'exit', 'code': 3, 'flushed': False}
        yield {'pid': pid, 'point': 'queued', 'kind': 'raise', 'flushed': False}      # the wrapper raises after rqueue.put
        if ks[pid] > 0:
            # death by signal (negative exit code): in a task, after rqueue.put, after the log sentinel
            yield {'pid': pid, 'point': 'task', 't': ks[pid] - 1, 'kind': 'signal', 'sig': 9}
            yield {'pid': pid, 'point': 'queued', 'kind': 'signal', 'sig': 15}
            if DONE_HOOK:
                yield {'pid': pid, 'point': 'done', 'kind': 'signal', 'sig': 9}
                yield {'pid': pid, 'point': 'done', 'kind': 'signal', 'sig': 15}
        if DONE_HOOK:
            # after the log sentinel: death with a non-zero code, a clean os._exit(0), death before the sentinel is flushed
            yield {'pid': pid, 'point': 'done', 'kind': 'exit', 'code': 3, 'flushed': True}
            yield {'pid': pid, 'point': 'done', 'kind': 'exit', 'code': 0, 'flushed': True}
            yield {'pid': pid, 'point': 'done', 'kind': 'exit', 'code': 3, 'flushed': False}
            yield {'pid': pid, 'point': 'done', 'kind': 'raise', 'flushed': True}


DONE_HOOK = False       # does the tree have the third hook point (after the log sentinel)?  set by run()
ALL_BRANCHES = ['c.task', 'c.taskFault', 'c.put', 'c.putLost', 'c.putPartial', 'c.sentinel', 'c.sentinelFault', 'c.exit0',
                'c.exitNonzero', 'c.idle', 'm.ownTask', 'm.ownRaise', 'm.ownEnd', 'm.pop', 'm.blocked', 'm.missing', 'm.resnap',
                'm.sleep', 'm.toJoin', 'm.sentinel', 'm.record', 'm.logsLost', 'm.drainSnap', 'm.logsWait', 'm.done', 'm.badExit',
                'm.joinWait', 'm.recv']
UNREACHABLE_BRANCHES = ['m.badPid', 'm.keyError']      # proved unreachable (orphans_master / clean_not_error)

FORM_DIMS = {'container': ['list', 'tuple', 'ndarray'], 'pair': ['tuple', 'list'], 'args': ['tuple', 'list'],
             'kwargs': ['own', 'shared', 'empty'], 'func': ['plain', 'lambda', 'closure', 'method', 'partial', 'callable'],
             'result': ['tuple', 'list', 'dict', 'ndarray']}


def gen_forms(rng, k):
    """k random forms in which every value of every dimension occurs (first len(max dim) forms are a covering)"""
    forms = []
    width = max(len(v) for v in FORM_DIMS.values())
    cols = {}
    for d, v in FORM_DIMS.items():     # make each column a covering of its dimension
        col = (v * width)[:width]
        rng.shuffle(col)
        cols[d] = col
    for i in range(width):
        forms.append({d: cols[d][i] for d in FORM_DIMS})
    while len(forms) < k:
        forms.append({d: rng.choice(v) for d, v in FORM_DIMS.items()})
    return forms[:max(k, width)]


def _NCPU_OK(req):
    """is the (modelled) value pair a legal worker count?  (python-side rule, independent of the driver)"""
    _, c, l = req.split(' ')
    v = c if l == 'none' else l
    return v == 'none' or (v.startswith('int:') and int(v[4:]) >= 1)


def o_ncpu(ctx, case):
    """get_ncpu(cfg, local) vs Model getNcpu: case {'cfg': token, 'local': token}, tokens none | int:<n> | bool:<0|1> | float | npint | str"""
    imp, req = _ncpu_impl(case)
    model = ctx.driver('C09', [req])[0]
    return None if imp == model else 'get_ncpu(cfg ncpu=%s, local_ncpu=%s): implementation %s, model %s' % (case['cfg'], case['local'], imp, model)


def _ncpu_value(tok):
    import numpy as np
    if tok == 'none':
        return None, 'none'
    if tok.startswith('int:'):
        return int(tok[4:]), tok
    if tok.startswith('bool:'):
        return bool(int(tok[5:])), 'int:' + tok[5:]      # isinstance(True, int): a bool is an int for get_ncpu
    return {'float': 2.0, 'npint': np.int64(2), 'str': '2'}[tok], 'other'


def _ncpu_impl(case):
    from skyllh.core.config import Config
    from skyllh.core.multiproc import get_ncpu
    cv, cm = _ncpu_value(case['cfg'])
    lv, lm = _ncpu_value(case['local'])
    cfg = Config()
    cfg['multiproc']['ncpu'] = cv
    try:
        imp = 'ok:%d' % get_ncpu(cfg, lv)
    except (TypeError, ValueError) as e:
        imp = type(e).__name__
    return imp, 'ncpuof %s %s' % (cm, lm)


# ------------------------------------------------------------------------------------------
# round 7: set-up of parallelize, ncpu property, exit-code loop (Model/ParSetupR7.lean)

SETUP_TAGS = ['single', 'rejected', 'rssTypeError', 'tlTypeError', 'rssNone+tlNone', 'rssNone+tlNew', 'rssDrawn+tlNone', 'rssDrawn+tlNew']


def setup_line(case, consts):
    k = max(case['ncpu'] - 1, 0)
    draws = r7.reference_stream(case['seed'], consts['randintLow'], consts['randintHigh'], k) if case['rss'] == 'ok' and k else []
    return 'setup %d %s %s %d %d %s' % (case['ncpu'], case['rss'], case['tl'], case['n'], case['seed'], ','.join(map(str, draws)) or '-')


def _kv(ans):
    return dict(t.split('=', 1) for t in ans.split(' ')[1:] if '=' in t)


def setup_property(case, out):
    """implementation-only: legal arguments => a complete ordered result; wrong-typed rss/tl with more than one process or
    an illegal worker count => an exception; every seed a service reports is a legal seed"""
    what = 'parallelize(probe, %d tasks, ncpu=%d, rss=%s (seed %r), tl=%s)' % (case['n'], case['ncpu'], case['rss'], case['seed'], case['tl'])
    if out['out'] == 'timeout':
        return 'hang', what + ' did not end'
    legal = case['ncpu'] >= 1 and (case['ncpu'] == 1 or 'wrong' not in (case['rss'], case['tl']))
    if out['out'] == 'error':
        return ('spurious-error', what + ' raised %s: %s' % (out['etype'], out['msg'])) if legal else None
    if case['ncpu'] < 1:
        return 'returns-despite-illegal-ncpu', what + ' returned %d results' % len(out['res'])
    if [r[0] for r in out['res']] != list(range(case['n'])):
        return 'wrong-result', what + ' returned the tasks %r' % [r[0] for r in out['res']]
    for r in out['res']:
        if r[3] is not None and not 0 <= r[3] < 2 ** 32:
            return 'illegal-seed', what + ': task %d ran with a service of seed %r' % (r[0], r[3])
    return None


def seeded_tasks_compare(case, out, kv, consts):
    """output position i of the real call vs entry i of the model's `seededExpected` (seed of the service of the process that
    ran it / numbers the service had yielded before its first task / local task number / input)"""
    import numpy as np
    lo, hi = consts['randintLow'], consts['randintHigh']
    toks = kv['tasks'].split(',') if kv.get('tasks', '-') != '-' else []
    if len(toks) != len(out['res']):
        return 'model: %d results, implementation %d' % (len(toks), len(out['res']))
    streams = {}
    for i, (tok, r) in enumerate(zip(toks, out['res'])):
        sd, skip, t, x = tok.split('/')
        sd, skip, t, x = (None if sd == 'none' else int(sd)), int(skip), int(t), int(x)
        if r[0] != x or r[3] != sd:
            return 'output %d: task %r run with a service of seed %r; model: task %d, seed %r' % (i, r[0], r[3], x, sd)
        if sd is not None:
            key = (sd, skip)
            if key not in streams:
                st = np.random.RandomState(sd)
                for _ in range(skip):
                    st.randint(lo, hi)
                streams[key] = (st, [])
            st, drawn = streams[key]
            while len(drawn) <= t:
                drawn.append(int(st.randint(0, 2 ** 32)))
            if r[4] != drawn[t]:
                return 'output %d: task %d drew %r; model: number %d (after %d set-up draws) of the service of seed %d = %d' % (i, x, r[4], t, skip, sd, drawn[t])
    return None


def setup_compare(case, out, ans, consts):
    """model answer vs real run; None or text"""
    head = ans.split(' ')[0]
    if out['out'] == 'timeout':
        return None                                    # reported by the property oracle
    if head in ('rejected', 'TypeError'):
        if out['out'] != 'error':
            return 'model %s, implementation returned' % head
        if head == 'TypeError' and out['etype'] != 'TypeError':
            return 'model TypeError, implementation raised %s' % out['etype']
        return None
    if out['out'] != 'done':
        return 'model %s, implementation raised %s' % (head, out.get('etype'))
    res, n, me = out['res'], case['n'], out['mypid']
    kv = _kv(ans)
    if len(res) != n:
        return 'model: %d results, implementation %d' % (n, len(res))
    lo, hi = consts['randintLow'], consts['randintHigh']
    if head == 'single':
        for r in res:
            if r[1] != me or r[2] != kv['rss'] or r[5] != kv['tl']:
                return 'single path: task %d saw pid/rss/tl %r, model rss=%s tl=%s in the calling process' % (r[0], r[1:], kv['rss'], kv['tl'])
        d = seeded_tasks_compare(case, out, kv, consts)
        if d:
            return d
        if case['rss'] == 'ok':
            ref = r7.reference_stream(case['seed'], 0, 2 ** 32, n + 1)
            if [r[3] for r in res] != [case['seed']] * n or [r[4] for r in res] != ref[:n] or out['after'] != ref[n]:
                return 'single path: seeds/draws %r then %r, expected seed %d draws %r' % ([r[3:5] for r in res], out['after'], case['seed'], ref)
        return None
    # several processes
    pids = [int(x) for x in kv['pids'].split(',')] if kv['pids'] != '-' else []
    seeds = [None if x == 'none' else int(x) for x in kv['seeds'].split(',')]
    tls = [x == '1' for x in kv['tl'].split(',')]
    obs = {}
    for r in res:
        obs.setdefault(r[1], []).append(r)
    same_chunks = [len(list(g)) for _, g in itertools.groupby(r[1] for r in res)] == [len(list(g)) for _, g in itertools.groupby(pids)] \
        and all(r[1] == me for r, p in zip(res, pids) if p == 0) and all(r[1] != me for r, p in zip(res, pids) if p != 0)
    if same_chunks:
        d = seeded_tasks_compare(case, out, kv, consts)
        if d:
            return d
    if not same_chunks:
        # the distribution of the tasks is not part of the property: only check that every service seed is one of the model's
        bad = [r for r in res if r[3] is not None and r[3] not in set(seeds) | {case['seed']}]
        return ('task %d ran with seed %r, not a seed of the model %r' % (bad[0][0], bad[0][3], seeds)) if bad else 'chunks-differ'
    k = int(kv['draws'])
    mref = r7.reference_stream(case['seed'], lo, hi, k) if case['rss'] == 'ok' else []
    n0 = pids.count(0)
    per = {}
    for r, p in zip(res, pids):
        per.setdefault(p, []).append(r)
    for p, rs in per.items():
        if p == 0:
            want_rss, want_tl, want_seed = case['rss'], case['tl'], case['seed'] if case['rss'] == 'ok' else None
        else:
            want_seed = seeds[p - 1]
            want_rss, want_tl = ('none' if want_seed is None else 'ok'), ('ok' if tls[p - 1] else 'none')
        for r in rs:
            if (r[2], r[3], r[5]) != (want_rss, want_seed, want_tl):
                return 'task %d (pid %d) saw rss %s seed %r tl %s; model: rss %s seed %r tl %s' % (r[0], p, r[2], r[3], r[5], want_rss, want_seed, want_tl)
        if want_seed is not None:
            import numpy as np
            st = np.random.RandomState(want_seed)
            skip = k if p == 0 else 0
            for _ in range(skip):
                st.randint(lo, hi)
            ref = [int(st.randint(0, 2 ** 32)) for _ in range(len(rs))]
            if [r[4] for r in rs] != ref:
                return 'pid %d: draws %r, expected %r (service of seed %d after %d draws)' % (p, [r[4] for r in rs], ref, want_seed, skip)
            if p == 0 and out['after'] != int(st.randint(0, 2 ** 32)):
                return 'the caller\'s service yields %r after the call; expected the number after %d set-up draws and %d task draws' % (out['after'], skip, len(rs))
    if case['rss'] == 'ok' and mref != [s for s in seeds]:
        return 'model seeds %r differ from the reference stream %r' % (seeds, mref)
    return None


def o_setup(ctx, case):
    """replay of one set-up case: property oracle, determinism of two identical calls, then model correspondence"""
    consts, _ = r7.extract_constants()
    outs = r7.run_setup_cases([case, dict(case)])
    for o in outs:
        bad = setup_property(case, o)
        if bad:
            return bad[1]
    if outs[0]['out'] == 'done' and outs[1]['out'] == 'done':
        a, b = [[r[0]] + r[2:] for r in outs[0]['res']], [[r[0]] + r[2:] for r in outs[1]['res']]
        if a != b or outs[0]['after'] != outs[1]['after']:
            return 'two identical calls differ: %r / %r' % (a, b)
    ans = ctx.driver('C09', [setup_line(case, consts)])[0]
    d = setup_compare(case, outs[0], ans, consts)
    return None if d in (None, 'chunks-differ') else d


def o_ncpuprop(ctx, case):
    consts, _ = r7.extract_constants()
    cv, cm = _ncpu_value(case['cfg'])
    lv, lm = _ncpu_value(case['local'])
    imp = r7.ncpu_property_impl(cv, lv)
    mod = ctx.driver('C09', ['ncpuprop %d %d %d %s %s' % (consts['defaultNcpu'], consts['minNcpuGet'], consts['minNcpuSet'], cm, lm)])[0]
    if imp.startswith('ok:') and int(imp[3:]) < 1:
        return 'obj.ncpu = %s with cfg ncpu %s: the property returns %s' % (case['local'], case['cfg'], imp)
    return None if imp == mod else 'obj.ncpu = %s; obj.ncpu with cfg ncpu %s: implementation %s, model %s' % (case['local'], case['cfg'], imp, mod)


def kwargs_compare(case, out, mod):
    what = 'parallelize(probe_kw, %d tasks each with the keyword arguments %r, ncpu=%d, rss=%s, tl=%s)' % (case['n'], case['own'], case['ncpu'], case['rss'], case['tl'])
    if out['out'] == 'timeout':
        return 'hang', what + ' did not end'
    if out['out'] == 'error':
        return 'spurious-error', what + ' raised %s: %s' % (out['etype'], out['msg'])
    if [r[0] for r in out['res']] != list(range(case['n'])):
        return 'wrong-result', what + ' returned the tasks %r' % [r[0] for r in out['res']]
    want = [] if mod == '-' else [t.split('=') for t in mod.split(',')]
    for r in out['res']:
        if r[2] != want:
            return 'corr', what + ': task %d was called with %r, model %r' % (r[0], r[2], want)
    return None


def o_kwargs(ctx, case):
    out = r7.run_setup_cases([case])[0]
    mod = ctx.driver('C09', ['kwargs %s %d %d' % (','.join(case['own']) or '-', case['rss'] == 'ok', case['tl'] == 'ok')])[0]
    bad = kwargs_compare(case, out, mod)
    return bad[1] if bad else None


def exit_case(codes):
    """children 1..len(codes) end 60 ms after their log sentinel with the given exit code (0: they just return)"""
    ncpu = len(codes) + 1
    plan = [entry('done', pid, None, ['sleep', FAULT_DELAY], ['exit', c]) for pid, c in enumerate(codes, start=1) if c != 0]
    return {'ncpu': ncpu, 'n': 2 * ncpu, 'rss': 'none', 'tl': 'none', 'seed': 1, 'plan': plan, 'codes': list(codes)}


def o_exitcodes(ctx, case):
    out = r7.run_setup_cases([case])[0]
    mod = ctx.driver('C09', ['badexit ' + (','.join(map(str, case['codes'])) or '-')])[0]
    return exit_compare(case, out, mod)


def exit_compare(case, out, mod):
    what = 'ncpu=%d, %d tasks, children end after their log sentinel with exit codes %r' % (case['ncpu'], case['n'], case['codes'])
    if out['out'] == 'timeout':
        return what + ': did not end'
    if any(case['codes']) and out['out'] == 'done':
        return what + ': returned %d results' % len(out['res'])
    if not any(case['codes']) and out['out'] == 'error':
        return what + ': raised %s: %s' % (out['etype'], out['msg'])
    if (mod == 'none') != (out['out'] == 'done'):
        return what + ': implementation %s, model firstBadExit %s' % (out['out'], mod)
    return None


def r7_prepare(ctx):
    """generate and run the round-7 cases; returns the state for r7_compare and the driver lines"""
    rng = ctx.rng
    consts, _ = r7.extract_constants()
    cases = []
    kinds = ['none', 'ok', 'wrong']
    for ncpu in range(1, ctx.n(4, 8) + 1):
        for rk in kinds:
            for tk in kinds:
                n = rng.choice([0, 1, ncpu, 2 * ncpu - 1, ncpu + rng.randrange(1, 6)])
                if rk == 'ok' or tk == 'ok':
                    n = max(n, ncpu)      # every process owns a task, so that what it was handed is observed
                seed = boundary_seed(len(cases), rng.randrange(2, 2 ** 32 - 1))
                c = {'ncpu': ncpu, 'n': n, 'rss': rk, 'tl': tk, 'seed': seed, 'ncpu_form': rng.choice(['int', 'bool']),
                     'container': rng.choice(['list', 'tuple'])}
                cases.append(c)
                if rk == 'ok':        # the same call again (other container form): must be identical
                    cases.append(dict(c, container='tuple' if c['container'] == 'list' else 'list', twin=len(cases) - 1))
    for bad in (0, -1, -5):
        cases.append({'ncpu': bad, 'n': 3, 'rss': rng.choice(kinds), 'tl': rng.choice(kinds), 'seed': 5})
    # the seed of a child does not depend on the number of processes
    s0 = rng.randrange(2 ** 32)
    fam = [{'ncpu': k, 'n': k, 'rss': 'ok', 'tl': 'none', 'seed': s0, 'family': True} for k in range(2, ctx.n(5, 8) + 1)]
    cases += fam
    # keyword arguments a task is called with: caller's own dictionary (with or without the names rss / tl) x service given or not
    kw_cases = []
    owns = [[], ['a'], ['rss'], ['a', 'rss', 'b'], ['tl'], ['tl', 'a'], ['rss', 'tl'], ['b', 'tl', 'rss', 'a']]
    for own in owns:
        for rk in ('none', 'ok'):
            for tk in ('none', 'ok'):
                ncpu = rng.choice([1, 2, 3])
                kw_cases.append({'ncpu': ncpu, 'n': ncpu + rng.randrange(0, 3), 'rss': rk, 'tl': tk, 'seed': 11, 'own': own,
                                 'shared': rng.random() < 0.5, 'container': rng.choice(['list', 'tuple'])})
    ex_cases = []
    if DONE_HOOK:
        for codes in [(0,), (3,), (0, 0), (0, 3), (3, 0), (7, 3), (0, 0, 7)] + ([(3, 7, 0), (0, 7, 0), (0, 0, 0)] if ctx.thorough else []):
            ex_cases.append(exit_case(codes))
    outs = r7.run_setup_cases(cases + ex_cases + kw_cases, timeout=ctx.n(40.0, 90.0))
    kw_outs = outs[len(cases) + len(ex_cases):]
    outs = outs[:len(cases) + len(ex_cases)]
    kw_lines = ['kwargs %s %d %d' % (','.join(c['own']) or '-', c['rss'] == 'ok', c['tl'] == 'ok') for c in kw_cases]
    lines = [setup_line(c, consts) for c in cases]
    ex_lines = ['badexit ' + ','.join(map(str, c['codes'])) for c in ex_cases] + ['badexit -', 'badexit 0,-9', 'badexit -15,0,1']
    toks = ['none', 'int:1', 'int:2', 'int:8', 'int:0', 'int:-3', 'bool:1', 'bool:0', 'float', 'npint', 'str']
    pp = [{'cfg': a, 'local': b} for a in toks for b in toks]
    pl, pi, gl = [], [], []
    for c in pp:
        cv, cm = _ncpu_value(c['cfg'])
        lv, lm = _ncpu_value(c['local'])
        pi.append(r7.ncpu_property_impl(cv, lv))
        pl.append('ncpuprop %d %d %d %s %s' % (consts['defaultNcpu'], consts['minNcpuGet'], consts['minNcpuSet'], cm, lm))
        gl.append('ncpuofp %d %d %s %s' % (consts['defaultNcpu'], consts['minNcpuGet'], cm, lm))
    st = dict(consts=consts, cases=cases, outs=outs[:len(cases)], lines=lines, ex_cases=ex_cases, ex_outs=outs[len(cases):], ex_lines=ex_lines,
              pp=pp, pl=pl, pi=pi, gl=gl, fam=fam, kw_cases=kw_cases, kw_outs=kw_outs, kw_lines=kw_lines)
    return st, lines + ex_lines + pl + gl + kw_lines


def r7_compare(ctx, st, drv):
    consts = st['consts']
    ctx.extra['source_literals'] = consts
    answers = drv(st['lines'])
    by = {}
    for i, (c, o, a) in enumerate(zip(st['cases'], st['outs'], answers)):
        if o['out'] == 'skipped':
            continue
        ctx.case(key=('setup', c['ncpu'], c['n'], c['rss'], c['tl'], c['seed'], c.get('container'), c.get('ncpu_form')),
                 desc={'setup': c, 'model': a} if i in (7, 20) else None)
        tag = a.split('tag:')[1]
        ctx.count('setup-branch:' + tag)
        ctx.count('corr:setup')
        by[i] = o
        bad = setup_property(c, o)
        if bad:
            ctx.violation('setup', c, bad[1], signature='C09/parallelize/%s/setup-%s' % (bad[0], tag), kind='schedule')
            continue
        if 'twin' in c and o['out'] == 'done' and st['outs'][c['twin']]['out'] == 'done':
            o2 = st['outs'][c['twin']]
            if [[r[0]] + r[2:] for r in o['res']] != [[r[0]] + r[2:] for r in o2['res']] or o['after'] != o2['after']:
                ctx.violation('setup', c, 'two identical calls (seed %d, ncpu %d, %d tasks) differ: %r / %r' % (c['seed'], c['ncpu'], c['n'], o['res'], o2['res']),
                              signature='C09/parallelize/nondeterministic/setup-' + tag, kind='schedule')
                continue
        d = setup_compare(c, o, a, consts)
        if d == 'chunks-differ':
            ctx.count('diag:setup-chunks-differ-from-array_split')
        elif d:
            ctx.violation('setup', c, 'set-up of parallelize: ' + d, kind='correspondence', relation='exact (argument kinds, seeds, draws per task)',
                          impl_output=str(o)[:400], model_output=a, signature='C09/corr/setup/' + tag, no_failing_input=True)
    # the seed of child pid is the same for every number of processes (c09_setup_seed_independent_of_ncpu), observed on the real runs
    seen = {}
    for c, o in zip(st['cases'], st['outs']):
        if c.get('family') and o['out'] == 'done':
            groups_ = [k for k, _ in itertools.groupby((r[1], r[3]) for r in o['res'])]
            for j, (_, sd) in enumerate(groups_[1:], start=1):
                ctx.count('corr:setup-seed-of-pid-independent-of-ncpu')
                if seen.setdefault(j, sd) != sd:
                    ctx.violation('setup', c, 'process %d of %d has the service seed %r, with fewer processes it had %r (caller seed %d)' % (j, c['ncpu'], sd, seen[j], c['seed']),
                                  kind='correspondence', relation='exact', impl_output=sd, model_output=seen[j],
                                  signature='C09/corr/setup/seed-depends-on-ncpu', no_failing_input=True)
    ctx.extra['counts_r7'] = {'zero_hit_setup_branches': [t for t in SETUP_TAGS if not ctx.counters.get('setup-branch:' + t)]}
    # exit-code loop
    ex_ans = drv(st['ex_lines'])
    for c, o, m in zip(st['ex_cases'], st['ex_outs'], ex_ans):
        if o['out'] == 'skipped':
            continue
        ctx.case(key=('exitcodes', tuple(c['codes'])))
        ctx.count('corr:exit-code-loop:' + ('none' if m == 'none' else 'bad'))
        bad = exit_compare(c, o, m)
        if bad:
            ctx.violation('exitcodes', c, bad, signature='C09/parallelize/%s/exit-codes-after-sentinel' % (
                'returns-despite-failure' if o['out'] == 'done' else 'hang' if o['out'] == 'timeout' else 'spurious-error'), kind='schedule', model_output=m)
        elif m != 'none' and o['out'] == 'error' and ('code was %s' % m.split(':')[1]) in o.get('msg', ''):
            ctx.count('diag:exit-code-message-names-first-bad-child')
    if ex_ans[-3:] != ['none', '1:-9', '0:-15']:
        raise MachineryError('firstBadExit model: %r' % ex_ans[-3:])
    # keyword arguments of a task
    for c, o, m in zip(st['kw_cases'], st['kw_outs'], drv(st['kw_lines'])):
        if o['out'] == 'skipped':
            continue
        ctx.case(key=('kwargs', tuple(c['own']), c['rss'], c['tl'], c['ncpu'], c['n'], c['shared']))
        ctx.count('corr:task-kwargs:rss=%s,tl=%s,own-has-rss=%d,own-has-tl=%d' % (c['rss'], c['tl'], 'rss' in c['own'], 'tl' in c['own']))
        bad = kwargs_compare(c, o, m)
        if bad:
            ctx.violation('kwargs', c, bad[1], signature='C09/parallelize/%s/task-kwargs' % bad[0], kind='correspondence' if bad[0] == 'corr' else 'schedule',
                          **(dict(relation='exact (names in order, whose value)', impl_output=str(o)[:300], model_output=m, no_failing_input=True) if bad[0] == 'corr' else {}))
        elif o.get('mutated'):
            ctx.count('diag:caller-kwargs-altered')
    # ncpu property and the parametrised get_ncpu
    for c, imp, mod in zip(st['pp'], st['pi'], drv(st['pl'])):
        ctx.case(key=('ncpuprop', c['cfg'], c['local']))
        ctx.count('corr:ncpu-property:' + (mod if not mod.startswith('ok') else 'ok'))
        if imp != mod:
            ctx.violation('ncpuprop', c, 'obj.ncpu = %s; obj.ncpu with cfg ncpu %s: implementation %s, model %s' % (c['local'], c['cfg'], imp, mod),
                          kind='correspondence', relation='exact', impl_output=imp, model_output=mod, signature='C09/ncpu-property/' + mod.split(':')[-1])
    return st['gl']


def _fault_variants(ncpu, n, fault):
    """completion orders around a fault: everybody fast; the fault happens late (the others finish first);
    the others (and the master) are slow (the fault happens first)"""
    yield make_case(ncpu, n, fault=fault, variant='fast')
    if fault['kind'] == 'signal':
        if fault['point'] != 'task':
            others = [p for p in range(ncpu) if p != fault['pid']]
            yield make_case(ncpu, n, slow=others, fault=fault, variant='others-slow', slow_s=KILL_OTHERS_SLOW)
        return
    yield make_case(ncpu, n, fault=dict(fault, late=True), variant='late-fault')
    others = [p for p in range(ncpu) if p != fault['pid']]
    # "the fault happens first" has to hold for a fault that is itself delayed (death after the result / the sentinel reached the
    # pipe): the others are then slower than that delay, so that the faulty child is long dead when the master gets to it
    delayed = fault['point'] in ('queued', 'done') and (fault.get('flushed', True) or fault.get('late'))
    yield make_case(ncpu, n, slow=others, fault=fault, variant='others-slow', slow_s=(FAULT_DELAY + 3 * SLOW) if delayed else None)


def run(ctx):
    import skyllh.core.multiproc as mp_mod
    if not hasattr(mp_mod, '_verif_point'):
        raise MachineryError('the guarded C09 hook (_verif_point in skyllh/core/multiproc.py, commit "hook: …") is missing in this tree')
    rng = ctx.rng
    W = pf.WATCHDOG_S
    global DONE_HOOK
    import inspect
    DONE_HOOK = "_verif_point('done'" in inspect.getsource(mp_mod.parallelize)
    if not DONE_HOOK:
        ctx.note("this tree has no hook point after the log sentinel (commit 'hook: third guarded verification point …'): "
                 "deaths after the sentinel are not injected")
    ctx.rule = ('real processes under a %.0f s watchdog: ncpu 1..%d x tasks 0..%d x every assignment of {fast, slow} to the '
                'processes (master included); faults: every (child, task index | after-result-queued, kind in {raise, exit 0, '
                'exit 3, exit before/after the result reached the pipe}) x 3 completion orders, exhaustive up to ncpu %d / %d tasks, '
                'random beyond; rss seeds cycle through 0, 2**32-1, 1 and ordinary values; repeated calls on one args_list object; interactive-session runs; large fault-free runs '
                '(20000..100000 tasks); a case is distinct by (api, ncpu, n, plan, slow set, seeds, interactive)' % (
                    W, ctx.n(4, 8), ctx.n(6, 20), ctx.n(4, 5), ctx.n(6, 10)))
    ctx.trusted_base += ['correspondence harness harness/props/c09.py + harness/par_fixtures.py (watchdog, hook plan)',
                         'multiprocessing (fork), queue feeder threads and OS scheduling are outside the theorems: the model is a '
                         'transition system with an abstract fair scheduler; "bounded time" is the watchdog observation',
                         'numpy.array_split semantics re-implemented in Model/Par.lean (compared on every run)',
                         'bounded pipes: a multiprocessing.Queue is a feeder buffer in front of a pipe of finite capacity (64 KiB on Linux) '
                         'and a process cannot exit before its buffers are written; Model/Par.lean treats rq/lq as unbounded because the '
                         'master keeps reading them until the result / the sentinel of every child has arrived; the status queue is '
                         'modelled separately (Model/ParStatus.lean, capacity as a parameter) and exercised by the large and interactive runs',
                         'guarded hook in skyllh/core/multiproc.py (_verif_point): add-only, inactive without ICECUBE_SKYLLH_VERIF=1']
    ctx.assumptions += ['numpy contract: RandomState.randint(lo, hi) yields lo <= x < hi and RandomState accepts the seeds 0 .. 2**32-1 (c09_setup_seeds_legal)']
    ctx.assumptions += ['start method fork (the worker is a closure); faults inside the master process itself are not part of the model',
                        'a child that exits normally has flushed its queues (multiprocessing joins the feeder threads at exit)',
                        'a child that dies after it has delivered its result and its log sentinel (exit code ignored at join) is not a failure: the call returns the complete result',
                        'no child dies in the middle of a pipe write (NoPartial) for the termination / fails-loudly theorems; the code violates the property there (open finding, c09_partial_write_hang_counterexample)']

    # ---- cases with real processes
    groups = []     # list of lists of fixture cases (one group shares api, ncpu, n, seed)
    # the three leads of the design (hang witnesses on the pinned commit) run first
    groups.append([make_case(2, 4, fault={'pid': 1, 'point': 'task', 't': 0, 'kind': 'exit', 'code': 0}, variant='lead-i')])
    groups.append([make_case(2, 4, fault={'pid': 1, 'point': 'queued', 'kind': 'exit', 'code': 3, 'flushed': True}, variant='lead-ii')])
    groups.append([make_case(3, 6, fault={'pid': 1, 'point': 'task', 't': 1, 'kind': 'raise', 'late': True}, variant='lead-iii')])
    NC, NT = ctx.n(4, 8), ctx.n(6, 20)
    for ncpu in range(1, NC + 1):
        for n in range(NT + 1):
            seed = boundary_seed(n + 2 * ncpu, 1000 + 37 * n + ncpu)
            ctx.count('seed-class:' + seed_class(seed), 2 ** ncpu)
            g = []
            for bits in itertools.product([0, 1], repeat=ncpu):
                slow = [p for p in range(ncpu) if bits[p]]
                g.append(make_case(ncpu, n, slow=slow, seed=seed, logs=True, variant='slow=' + ''.join(map(str, bits))))
            groups.append(g)
    FC, FT = ctx.n(4, 5), ctx.n(6, 10)
    for ncpu in range(2, FC + 1):
        for n in range(FT + 1):
            for fault in _fault_grid(ncpu, n):
                vs = list(_fault_variants(ncpu, n, fault))
                if not ctx.thorough and ncpu >= 3 and fault['pid'] > 1 and fault['point'] != 'task' and len(vs) == 3:
                    # quick tier: for the faults after the last task all three completion orders for the first child only
                    # (the children are symmetric there), the others get the order picked by the seed
                    vs = [vs[0], vs[1 + rng.randrange(2)]]
                groups.append(vs)
    if ctx.thorough:
        for _ in range(400):
            ncpu, n = rng.randrange(2, 9), rng.randrange(0, 21)
            fault = rng.choice(list(_fault_grid(ncpu, n)))
            groups.append([rng.choice(list(_fault_variants(ncpu, n, fault)))])
    # a task function that raises (in the master's chunk: the exception itself leaves parallelize)
    for ncpu in range(1, NC + 1):
        for n in (1, 3, NT):
            for i in sorted({0, n - 1, n // 2}):
                c = make_case(ncpu, n, variant='func-raises')
                c['boom'] = [i]
                groups.append([c])
    # Analysis.do_trials on a stub analysis
    for ncpu in range(1, NC + 1):
        for n in (1, 2, 5, ctx.n(7, 20)):
            sd = boundary_seed(n + ncpu, 77 + n)
            ctx.count('seed-class:' + seed_class(sd), 3 if ncpu > 1 else 1)
            g = [make_case(ncpu, n, seed=sd, api='do_trials', variant='fast')]
            if ncpu > 1:
                g.append(make_case(ncpu, n, slow=[1], seed=sd, api='do_trials', variant='slow=child1'))
                g.append(make_case(ncpu, n, slow=[0] + list(range(2, ncpu)), seed=sd, api='do_trials', variant='slow=others'))
            groups.append(g)

    # the same args_list object handed to parallelize again and again (fresh rss of the listed seeds): every call must
    # return what a call on a newly built argument list returns (the tasks draw from the rss and return the draw)
    for ncpu in range(1, NC + 1):
        for n in (1, 6, NT):
            groups.append([{'api': 'repeat', 'ncpu': ncpu, 'n': n, 'seeds': [0, 0, 7, 0] if n == 6 else [42, 42, 2**32 - 1, 42], 'tl': (n == 6), 'plan': [],
                            'msleep': {}, 'boom': [], 'seed': None, 'logs': False, 'variant': 'repeat'}])
    # interactive session: progress bar shown, the workers report every finished task through the status queue
    for ncpu in range(1, NC + 1):
        for n in (0, 3, NT):
            g = [dict(make_case(ncpu, n, seed=5 + n, variant='interactive'), interactive=True)]
            if ncpu > 1:
                g.append(dict(make_case(ncpu, n, slow=[1], seed=5 + n, variant='interactive'), interactive=True))
                g.append(dict(make_case(ncpu, n, slow=[0], seed=5 + n, variant='interactive'), interactive=True))
            groups.append(g)
    # large fault-free runs ("never hangs" for every argument list): queues and pipes have a finite capacity (64 KiB),
    # anything a worker writes per task and nobody reads blocks its exit once the pipe is full
    for ncpu, n, seed in [(2, 20000, None), (4, 20000, 9)] + ([(2, 60000, 3), (8, 60000, None), (3, 100000, None)] if ctx.thorough else []):
        groups.append([dict(make_case(ncpu, n, seed=seed, logs=False, variant='large'), summary=True)])
    for ncpu, n in [(2, 20000)] + ([(4, 40000)] if ctx.thorough else []):
        groups.append([dict(make_case(ncpu, n, logs=False, variant='large-interactive'), summary=True, interactive=True, watchdog=6.0)])
    # … in an interactive session the master reads the status queue only while it works on its own chunk
    groups.append([late_worker_case()])
    # ---- review round: classes that were never exercised
    # history "rss, then no rss" on the same args_list object (and a TimeLord only in the calls with rss)
    for ncpu in range(1, NC + 1):
        for n in (2, 6):
            groups.append([{'api': 'repeat', 'ncpu': ncpu, 'n': n, 'seeds': [42, None, 42, None], 'tl': True, 'plan': [],
                            'msleep': {}, 'boom': [], 'seed': None, 'logs': False, 'variant': 'repeat-none'}])
    # results larger than the pipe buffer (what real callers return: splines, histograms), fault-free and with every fault kind;
    # with a slow master the pipe holds only the first 64 KiB of the child's result when the child dies
    sizes = [100000, 5000000] if ctx.thorough else [100000]
    for rsize in sizes:
        for ncpu in (2, 3):
            n = 4
            groups.append([make_case(ncpu, n, slow=sl, seed=21, rsize=rsize, variant='bigres') for sl in ([], [0], [1])])
            for fault in _fault_grid(ncpu, n):
                if fault['pid'] != 1:
                    continue
                groups.append([make_case(ncpu, n, fault=fault, rsize=rsize, variant='bigres-fault'),
                               make_case(ncpu, n, slow=[0], fault=dict(fault, late=True), rsize=rsize, variant='bigres-fault-master-slow')])
    groups.append([partial_write_case()])
    groups.append([make_case(2, 4, slow=[0], rsize=5000000, variant='bigres-5MB')])
    c = make_case(2, 4, rsize=2000000, variant='bigres-master-raises')
    c['boom'] = [0]
    groups.append([c])
    # two faults in one run
    for ncpu, n in [(3, 4), (3, 6), (4, 6)]:
        fg = list(_fault_grid(ncpu, n))
        for _ in range(ctx.n(8, 60)):
            f1 = rng.choice([f for f in fg if f['pid'] == 1])
            f2 = rng.choice([f for f in fg if f['pid'] == 2])
            groups.append([make_case(ncpu, n, faults=[dict(f1, late=rng.random() < 0.5), dict(f2, late=rng.random() < 0.5)], variant='two-faults')])
    # fault x interactive session, fault x do_trials
    for ncpu, n in [(2, 3), (3, 6)]:
        for fault in _fault_grid(ncpu, n):
            groups.append([dict(make_case(ncpu, n, fault=fault, variant='fault-interactive'), interactive=True)])
            if fault['kind'] != 'signal':      # the signal is armed by the task function of the parallelize cases
                groups.append([make_case(ncpu, n, fault=fault, seed=31, api='do_trials', variant='fault-do_trials')])
    # a working child that is slow between rqueue.put and the log sentinel
    for ncpu in range(2, NC + 1):
        groups.append([make_case(ncpu, NT, late_sentinel=ls, seed=17, variant='late-sentinel')
                       for ls in ([1], list(range(1, ncpu)), [ncpu - 1])])
    # after an error no child may be left behind: a sibling that would run for 3 s more has to be gone 1 s after the raise
    for fault in ({'pid': 1, 'point': 'task', 't': 0, 'kind': 'raise'}, {'pid': 1, 'point': 'queued', 'kind': 'exit', 'code': 3, 'flushed': True}):
        c = make_case(3, 6, fault=fault, variant='orphan-check')
        c['plan'].append(entry('task', 2, 0, ('sleep', 3.0)))
        groups.append([c])
    # ---- deepening round: how things are handed over (container / pair / args / kwargs / function / result forms)
    forms = gen_forms(rng, ctx.n(10, 40))
    for fi, form in enumerate(forms):
        for (ncpu, n) in [(1, 3), (2, 0), (3, 5), (4, NT)][fi % 2::2] if not ctx.thorough else [(1, 3), (2, 0), (3, 5), (4, NT)]:
            sd = boundary_seed(fi + ncpu, 500 + fi)
            g = [dict(make_case(ncpu, n, slow=sl, seed=sd, variant='form'), form=form) for sl in ([], [ncpu - 1])]
            for d, v in form.items():
                ctx.count('form:%s=%s' % (d, v), len(g))
            groups.append(g)
            if ncpu > 1 and n > 0:
                # (a death by signal is armed through the task's own kwargs dict: only with that kwargs form)
                fault = rng.choice([f for f in _fault_grid(ncpu, n) if f['kind'] != 'signal' or form['kwargs'] == 'own'])
                groups.append([dict(make_case(ncpu, n, fault=fault, variant='form-fault'), form=form)])
    for ncpu in (1, 3):
        for fk, fn in (('empty', 'keyword'), ('own', 'cfg'), ('empty', 'positional'), ('own', 'positional'), ('empty', 'cfg')):
            groups.append([dict(make_case(ncpu, 4, seed=boundary_seed(ncpu, 9), api='do_trials', slow=sl, variant='do_trials-form'),
                                form={'kwargs': fk, 'ncpu': fn}) for sl in ([], [ncpu - 1])])
    # the function raises in the master's chunk (now part of the model: 0:raise:t) x completion orders, and together with a child fault
    for ncpu, n in [(2, 4), (3, 6), (4, 6)]:
        for i in range(chunk_sizes(n, ncpu)[0]):
            for sl in ([], [0], list(range(1, ncpu))):
                c = make_case(ncpu, n, slow=sl, variant='master-raises')
                c['boom'] = [i]
                groups.append([c])
        c = make_case(ncpu, n, fault=rng.choice(list(_fault_grid(ncpu, n))), variant='master-raises+fault')
        c['boom'] = [0]
        groups.append([c])
    # a child that is slow to exit after the sentinel: the master waits in join
    if DONE_HOOK:
        for ncpu in range(2, NC + 1):
            c = make_case(ncpu, NT, seed=19, variant='late-exit')
            c['plan'] += [entry('done', p, None, ('sleep', SLOW)) for p in range(1, ncpu)]
            groups.append([c])
    # Analysis.do_trials with every kind of ncpu setting (get_ncpu) and 0 / some trials: model op `trials`
    trial_cases = []
    for cv, lv in [('none', 'none'), ('int:2', 'none'), ('none', 'int:3'), ('int:2', 'int:1'), ('none', 'int:0'), ('int:-1', 'none'),
                   ('none', 'float'), ('npint', 'none'), ('none', 'bool:1'), ('str', 'int:2'), ('none', 'str')]:
        for n in (0, 3):
            c = dict(make_case(2, n, seed=boundary_seed(n, 23), api='do_trials', variant='do_trials-ncpu'), ncpu_values=[cv, lv])
            trial_cases.append(c)
            groups.append([c])
    # ---- round 4: what the function *does* (it may run a parallel map itself, start threads or processes) and *which*
    # exception a failing task raises (incl. the control-flow exceptions StopIteration, GeneratorExit, SystemExit, KeyboardInterrupt)
    for ncpu in (1, 2, 3):
        for does, inner in (('nested', [2, 3]), ('nested', [1, 2]), ('nested', [3, 2]), ('thread', None), ('mpchild', None)):
            g = []
            for sl in ([], [ncpu - 1]):
                c = make_case(ncpu, 5, slow=sl, seed=boundary_seed(ncpu, 61), variant='func-does-' + does)
                c.update(does=does, inner=inner)
                g.append(c)
            ctx.count('func-does:%s' % does, len(g))
            groups.append(g)
    c = make_case(3, 6, fault={'pid': 1, 'point': 'task', 't': 1, 'kind': 'raise'}, variant='func-does-nested+fault')
    c.update(does='nested', inner=[2, 2])
    groups.append([c])
    for bk in ('StopIteration', 'GeneratorExit', 'StopAsyncIteration', 'SystemExit0', 'SystemExit3', 'KeyboardInterrupt', 'TaskAbort',
               'KeyError', 'AssertionError', 'MemoryError'):
        for ncpu, n in ((1, 3), (2, 4), (3, 6)):
            ks = chunk_sizes(n, ncpu)
            for i in sorted({0, ks[0] - 1, n - 1, ks[0]} & set(range(n))):     # master chunk first/last, first and last task of the workers
                c = make_case(ncpu, n, variant='func-raises-kind')
                c.update(boom=[i], boomkind=bk)
                ctx.count('exception-kind:%s' % bk)
                groups.append([c])
    # do_trials without trials; worker counts that are none
    for ncpu in (1, 2):
        groups.append([make_case(ncpu, 0, seed=3, api='do_trials', variant='do_trials-n0')])
    for bad in (0, -1):
        groups.append([make_case(bad, 3, variant='bad-ncpu')])

    flat = [c for g in groups for c in g]
    timeouts = {}
    # classes with a listed open finding that has just been replayed are not run again (each hang costs its watchdog time)
    for sg, _ in ctx.known_hits:
        if '/hang/' in sg:
            timeouts[('parallelize', sg.split('/hang/')[1])] = 2

    def on_result(case, out):
        if out['out'] == 'timeout':
            k = (case.get('api'), fault_class(case))
            timeouts[k] = timeouts.get(k, 0) + 1

    def stop(case):     # a class that already hung twice is not explored further (each hang costs the watchdog time)
        k = timeouts.get((case.get('api'), fault_class(case)), 0)
        # … and once six runs have hung, a class is left after its first hang (watchdog budget of a badly broken tree)
        return k >= 2 or (k >= 1 and sum(timeouts.values()) >= 6)

    for c in flat:
        if int(c.get('rsize') or 0) >= PIPE_BUF and 'watchdog' not in c:
            c['watchdog'] = 5.0
    import time as _t
    _t0 = _t.time()
    try:
        outs = pf.run_cases(flat, timeout=W, stop=stop, on_result=on_result)
    except (OSError, EOFError, ValueError) as e:     # fork/pipe trouble of the harness itself is not a verdict
        raise MachineryError('C09 process runner failed: %s: %s' % (type(e).__name__, e))
    ctx.extra['phase_s'] = {'real_runs': round(_t.time() - _t0, 1), 'before_runs': round(_t0 - ctx.t0, 1)}
    by_id = {id(c): o for c, o in zip(flat, outs)}
    walls = [o['wall'] for o in outs if 'wall' in o]
    ctx.extra['max_wall_s_of_a_run'] = max(walls) if walls else None
    # achieved completion orders (diagnostic): distinct arrival orders of the children's results per ncpu
    arr = {}
    for c, o in zip(flat, outs):
        if o.get('out') == 'done' and c.get('api') == 'parallelize' and c['ncpu'] >= 2 and o.get('arrival'):
            arr.setdefault(c['ncpu'], set()).add(tuple(o['arrival']))
    ctx.extra['distinct_arrival_orders_by_ncpu'] = {str(k): len(v) for k, v in sorted(arr.items())}
    ctx.extra['runs_with_caller_kwargs_altered'] = sum(1 for o in outs if any(o.get('kw_changed') or []))
    ctx.extra['max_children_alive_after_call'] = max([o.get('alive') or 0 for o in outs] or [0])
    ctx.extra['watchdog_s'] = W
    ctx.extra['runs_skipped_after_repeated_hangs'] = sum(1 for o in outs if o['out'] == 'skipped')

    # ---- model outcome sets
    items = {}
    for c in flat:
        if c.get('api') != 'parallelize' or c.get('summary'):
            continue
        specs = model_fault_specs(c)
        if specs is None:
            continue
        for s in specs:
            items[(c['ncpu'], c['n'], s, bool(c.get('logs')))] = True
    lim = (lambda ncpu, n: ncpu <= 3 and n <= 4) if not ctx.thorough else (lambda ncpu, n: ncpu <= 3 and n <= 6 or ncpu == 4 and n <= 4)
    # every request to the model goes through ONE driver process (the start-up of `lean --run` costs about a second)
    mo_lines = model_outcome_lines(ctx, sorted(items), lim)
    lead_lines = ['explore orig 2 4 1:exit:0:0 0', 'explore orig 2 4 1:xq:3:1 0', 'explore orig 3 6 1:raise:1 0']
    sw_lines = ['explore swapped 2 2 - 0', 'explore cur 2 2 - 0']
    toks = ['none', 'int:1', 'int:2', 'int:8', 'int:0', 'int:-3', 'bool:1', 'bool:0', 'float', 'npint', 'str']
    pairs_n = [{'cfg': a, 'local': b} for a in toks for b in toks]
    impl_req = [_ncpu_impl(c) for c in pairs_n]
    tl_lines = ['trials %s %d' % (_ncpu_impl({'cfg': c['ncpu_values'][0], 'local': c['ncpu_values'][1]})[1][7:], c['n']) for c in trial_cases]
    st_cases = [c for c in flat if c.get('interactive') and c.get('summary')]
    st_lines = ['status 1 2849 %d 1' % max(chunk_sizes(c['n'], c['ncpu'])[1:]) for c in st_cases] + ['status 1 2849 4000 0', 'status 0 2849 4000 0']
    # ---- chunking: model vs numpy on the object array the code builds
    nmax, cmax = ctx.n(24, 60), ctx.n(9, 16)
    pairs = [(n, c) for n in range(nmax + 1) for c in range(1, cmax + 1)]
    _t7 = _t.time()
    r7_state, r7_lines = r7_prepare(ctx)
    ctx.extra['phase_s']['round7_runs'] = round(_t.time() - _t7, 1)
    batch = list(dict.fromkeys(['split %d %d' % p for p in pairs] + mo_lines[0] + lead_lines + sw_lines + [r for _, r in impl_req] + tl_lines + st_lines + r7_lines))
    cache = dict(zip(batch, ctx.driver('C09', batch)))
    drv = lambda ls: [cache[l] for l in ls]      # noqa
    mo = model_outcomes(ctx, mo_lines, lim, drv=drv)
    ans = drv(['split %d %d' % p for p in pairs])
    import numpy as np
    for (n, c), a in zip(pairs, ans):
        ctx.case(key=('split', n, c), desc={'split': [n, c], 'model': a} if (n, c) == (7, 3) else None)
        ctx.count('corr:split')
        args_list = [((i,), {'k': i}) for i in range(n)]
        impl = '|'.join((','.join(str(x[0][0]) for x in ch) or '-') for ch in np.array_split(np.array(args_list, dtype=object), c))
        bad = o_split(ctx, {'n': n, 'ncpu': c})
        if bad:
            ctx.violation('split', {'n': n, 'ncpu': c}, bad, signature='C09/array_split/not-a-partition')
        elif impl != a:
            ctx.violation('split', {'n': n, 'ncpu': c}, 'array_split: implementation %s, model %s' % (impl, a), kind='correspondence',
                          relation='exact chunks', impl_output=impl, model_output=a, signature='C09/corr/split', no_failing_input=True)

    ctx.extra['model_configurations'] = len(items)
    # the leads: the model of the pinned commit's gather loop can get stuck, the current one cannot
    lead_ans = drv(lead_lines)
    ctx.extra['pinned_commit_model_outcomes_for_leads'] = dict(zip(lead_lines, lead_ans))
    if not all('stuck' in a.split(';') for a in lead_ans):
        raise MachineryError('Orig model no longer shows the hang witnesses: %r' % lead_ans)

    sw = drv(sw_lines)
    ctx.extra['swapped_order_model_outcomes_fault_free'] = sw[0]
    if 'error' not in sw[0].split(';') or 'error' in sw[1].split(';'):
        raise MachineryError('Swapped / current model no longer differ on the fault-free instance: %r' % sw)
    # ---- round 7: set-up of parallelize, exit-code loop, ncpu property; get_ncpu with the literals of the source as parameters
    ans_p = drv(r7_compare(ctx, r7_state, drv))
    # ---- get_ncpu: model vs implementation, every pair of value kinds
    ans_n = drv([r for _, r in impl_req])
    for c, (imp, _), mod in zip(pairs_n, impl_req, ans_p):
        ctx.count('corr:get_ncpu-parametrised')
        if imp != mod:
            ctx.violation('ncpu', c, 'get_ncpu(cfg ncpu=%s, local_ncpu=%s): implementation %s, model at the literals of the source %s' % (c['cfg'], c['local'], imp, mod),
                          kind='correspondence', relation='exact', impl_output=imp, model_output=mod, signature='C09/get_ncpu-p/' + mod.split(':')[0])
    for c, (imp, _), mod in zip(pairs_n, impl_req, ans_n):
        ctx.case(key=('ncpu', c['cfg'], c['local']))
        ctx.count('corr:get_ncpu:' + (mod if not mod.startswith('ok') else 'ok'))
        if imp != mod:
            ctx.violation('ncpu', c, 'get_ncpu(cfg ncpu=%s, local_ncpu=%s): implementation %s, model %s' % (c['cfg'], c['local'], imp, mod),
                          kind='correspondence', relation='exact', impl_output=imp, model_output=mod, signature='C09/get_ncpu/' + mod.split(':')[0])
    # ---- branch coverage of the model runs that accompany the real runs
    zero = [b for b in ALL_BRANCHES if not ctx.counters.get('model-branch:' + b)]
    ctx.extra['counts'] = {'zero_hit_model_branches': zero, 'unreachable_by_theorem': UNREACHABLE_BRANCHES,
                           'unreachable_hit': [b for b in UNREACHABLE_BRANCHES if ctx.counters.get('model-branch:' + b)]}
    # ---- Analysis.do_trials: model op `trials` (get_ncpu + parallel map + result_list[0].dtype) vs the real method
    for c, mod in zip(trial_cases, drv(tl_lines)):
        o = by_id[id(c)]
        if o['out'] == 'skipped':
            continue
        imp = ('done:%d' % len(o['res'])) if o['out'] == 'done' else (o.get('etype') if o['out'] == 'error' else o['out'])
        want = ('done:%d' % (0 if mod == 'done:-' else len(mod[5:].split(',')))) if mod.startswith('done:') else mod
        ctx.count('corr:do_trials:' + want.split(':')[0])
        if imp != want:
            ctx.violation('corr', c, 'do_trials(n=%d) with ncpu settings %r: implementation %s, model %s' % (c['n'], c['ncpu_values'], imp, want),
                          kind='correspondence', relation='outcome / exception class', impl_output=imp, model_output=want,
                          signature='C09/corr/do_trials', no_failing_input=True)
    # ---- status queue: Model/ParStatus (pipe capacity 64 KiB / 23 B per record) vs the large interactive runs
    st_ans = drv(st_lines)
    if st_ans[-2:] != ['stuck', 'exits']:
        raise MachineryError('ParStatus model: %r' % st_ans[-2:])
    for c, mod in zip(st_cases, st_ans):
        o = by_id[id(c)]
        if o['out'] == 'skipped':
            continue
        ctx.count('corr:status-queue')
        imp = 'exits' if o['out'] == 'done' else 'stuck' if o['out'] == 'timeout' else o['out']
        if imp != mod and o['out'] != 'timeout':       # a hang is reported by the pmap oracle
            ctx.violation('corr', c, 'interactive run with %d tasks: implementation %s, status-queue model %s' % (c['n'], imp, mod),
                          kind='correspondence', relation='exits', impl_output=imp, model_output=mod, signature='C09/corr/status', no_failing_input=True)
    # ---- compare
    n_dis = 0
    for g in groups:
        gouts = [by_id[id(c)] for c in g]
        for c, o in zip(g, gouts):
            if o['out'] == 'skipped':
                continue
            ctx.case(key=(c['api'], c['ncpu'], c['n'], c['plan'], c['msleep'], c['boom'], c['seed'], c.get('seeds'), c.get('interactive'), c.get('rsize'), c.get('boomkind'), c.get('does'), c.get('inner'), c.get('kill')),
                     desc={'case': c, 'outcome': outcome_class(c, o), 'wall': o.get('wall')} if ctx.evaluations % 211 == 0 else None)
            ctx.count('run:%s:%s' % (c['api'], fault_class(c)))
            ctx.count('outcome:' + o['out'])
            ctx.count('ncpu=%d' % c['ncpu'])
            ctx.count('variant:' + (c['variant'] if not c['variant'].startswith('slow=') else 'slow-assignment'))
        bad = eval_group(g, gouts, W)
        dis = None
        for c, o in zip(g, gouts):
            if o['out'] == 'skipped' or c.get('api') != 'parallelize' or c.get('summary'):
                continue
            specs = model_fault_specs(c)
            if specs is None:
                continue
            allowed = set().union(*[mo[(c['ncpu'], c['n'], s, bool(c.get('logs')))] for s in specs])
            cls = outcome_class(c, o)
            ctx.count('corr:outcome-class')
            if cls not in allowed:
                dis = (c, cls, sorted(allowed))
                n_dis += 1
                break
        if bad:
            mode, text, c = bad
            site = 'do_trials' if c.get('api') == 'do_trials' else 'parallelize'
            ctx.violation('pmap', {'cases': [c] if mode != 'nondeterministic' else g}, text,
                          signature='C09/%s/%s/%s' % (site, mode, fault_class(c)), kind='schedule',
                          impl_output=outcome_class(c, by_id[id(c)]) if by_id[id(c)]['out'] != 'skipped' else None,
                          model_output=dis[2] if dis else None)
        elif dis:
            c, cls, allowed = dis
            ctx.violation('corr', c, 'observed outcome %s is not in the model outcome set %s, but no property oracle fails' % (cls, allowed),
                          kind='correspondence', relation='outcome class in model outcome set', impl_output=cls, model_output=allowed,
                          signature='C09/corr/outcome-class', no_failing_input=True)
    ctx.extra['phase_s']['after_runs'] = round(_t.time() - _t0 - ctx.extra['phase_s']['real_runs'], 1)
    ctx.extra['correspondence_disagreements'] = n_dis
    # observed chunking (runs of equal os pid in a fault-free result) vs the model's chunk sizes
    for c, o in zip(flat, outs):
        if o['out'] == 'done' and c.get('api') == 'parallelize' and 'res' in o and not expects_error(c) and len(o['res']) == c['n']:
            runs = [len(list(grp)) for _, grp in itertools.groupby(r[2] for r in o['res'])]
            want = [k for k in chunk_sizes(c['n'], c['ncpu']) if k]
            ctx.count('corr:observed-chunks')
            if runs != want:
                ctx.count('diag:observed-chunks-differ-from-array_split')     # diagnostic only: the property does not fix the distribution


ORACLES['ncpu'] = o_ncpu
ORACLES['setup'] = o_setup
ORACLES['ncpuprop'] = o_ncpuprop
ORACLES['exitcodes'] = o_exitcodes
ORACLES['kwargs'] = o_kwargs

MANIFEST = dict(
    text=('Lean theorems on a transition-system model of parallelize (children, shared result queue, per-child log queues, the '
          'gather loop as coded, abstract scheduler, fault plan): array_split is a partition with sizes differing by at most 1; '
          'whatever the schedule and the faults, a run that returns, returns exactly map f args in input order; every fair run '
          'ends; without faults it ends with the results, with an effective fault it ends with an error. The model is tied to the '
          'code by running the real parallelize with real processes under a guarded hook and a watchdog over all fast/slow '
          'assignments and all fault triples of the quantifier: the observed outcome class must be in the model outcome set. '
          'Further oracles: repeated calls on the same args_list object with a fresh rss of the same seed return what a call on a '
          'newly built list returns; large fault-free runs (20000+ tasks) and interactive-session runs end inside the watchdog; '
          'status-queue model: batch mode never blocks on it, with the queue emptied at join the worker always exits. '
          'Bounded work: at most pot(init) state-changing steps in any run. Further oracles: results larger than the pipe buffer, two faults, '
          'fault x interactive / do_trials, no child process left after return or raise, no accidental exception classes. '
          'Round 7: the set-up of parallelize (single-process path, type checks, one seed per child drawn from the caller service, one TimeLord per child), '
          'the keyword arguments a task is called with, the exit-code loop after the joins, get_ncpu and the IsParallelizable.ncpu property are Lean '
          'definitions instantiated at literals regenerated from the source (Generated/C09.lean, _for_current_source obligations) and compared with the real '
          'calls task by task (seed, draw, argument kinds); determinism for a given seed and worker count is proved across fault plans and schedules '
          '(c09_seeded_deterministic).'),
    note=('OPEN: a child dying in the middle of writing a result larger than the pipe buffer blocks the master in recv (counterexample theorem + known finding); '
          'Real scheduling, queue feeder threads, OS timing and "bounded time" are outside the theorems (watchdog observation); '
          'faults inside the master process are not modelled; the gather loop of the pinned commit is kept as Orig with machine-checked '
          'hang counterexamples.'),
    design='DESIGN.md section 4 C09',
    technique='Lean 4 proof (invariants + ranking function under fairness on a transition system) + outcome-class correspondence with real processes')
