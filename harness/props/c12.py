"""C12 — test statistic and p-value helpers follow their documented definitions.

Correspondence (real skyllh code vs. Model/Stat.lean through Driver/C12.lean):
  * WilksTestStatistic / LLHRatioZeroNsTaylorWilksTestStatistic on real ParameterModelMapper objects (ns at
    different fit-parameter positions), with a recording stub LLH ratio and with real single-/multi-dataset
    LLH-ratio objects (harness/llh_fixtures.py): value equality (the operations are exact) resp. 1e-9 relative;
  * histories of 2..6 calls on ONE instance of either class across different layouts: every call against the
    stateless model (the model has no notion of object state), plus a fresh-vs-used-object oracle;
  * calculate_ns_grad2 of the real LLH-ratio classes vs. nsGrad2 / nsGrad2Multi: 1e-9 * sum of magnitudes;
  * calculate_pval_from_trials: p as an exact rational k/n, p_sigma 1e-12 relative, exception kinds exact;
  * calculate_pval_from_trials_mixed: routing decision and eta default, exact;
  * polynomial_fit: np.polyfit coefficients are recorded, the inversion is compared (degree used, error kind,
    finite/NaN exact; value relative to the magnitude of the terms before cancellation);
  * purity oracle on every helper (TS classes, calculate_pval_from_trials[_mixed], polynomial_fit): byte snapshots of all
    array arguments before/after, same argument objects called twice and with other scalar parameters vs. fresh
    copies, inputs as list / int64 / float32 / float64 / read-only / non-contiguous arrays;
  * histories on one real single-dataset (both numerical regimes, ns at fit-parameter index 0 or 1), multi-dataset and
    ns-profile LLH-ratio object against the state machines LlhSt / MultiSt / ProfSt; the gamma-fit function against
    pGamma / truncSample (fitted parameters observed); the parameter lookup of the TS call against tsCall;
  * a branch counter per modelled function (evidence: coverage.model_branches) and a directed corpus for every branch;
  * Python keyword binding (pyBind) vs. the real interpreter on generated signatures, exact.
Property oracles (implementation only): documented definitions in exact `fractions`, analytic + finite
difference derivatives of the real LLH ratio, range / monotonicity / inclusive>=strict of p-values, residual
and branch of the returned root, real call chains Analysis.calculate_test_statistic -> TestStatistic ->
calculate_ns_grad2 with the keywords of the real call sites.
"""
import math
import re
import warnings
from fractions import Fraction

import numpy as np

from harness.core import f2b, b2f, flist, unjson_float
from harness import c12_r7_fixtures as r7

MODEL_MODULES = ['SkyllhModel.Model.Stat', 'SkyllhModel.Model.PolyFitR7']

# which Python callables have an executable Lean counterpart that the theorems are about AND that run(ctx) compares with the
# real callable on every run (harness/core.py model_map_report checks keys against the source and names against the model files)
MODEL_MAP = {
    'skyllh/core/test_statistic.py::WilksTestStatistic.__call__': ['Stat.tsCall', 'Stat.ts', 'Stat.sgnNs', 'Stat.npSign'],
    'skyllh/core/test_statistic.py::LLHRatioZeroNsTaylorWilksTestStatistic.__call__': [
        'Stat.tsTaylorCall', 'Stat.tsTaylor', 'Stat.tsApex', 'Stat.tsTaylorOnCode', 'Stat.tsTaylorOnMulti', 'Stat.tsTaylorOnProf'],
    'skyllh/core/parameters.py::ParameterModelMapper.get_gflp_idx': ['Stat.gflpIdx'],
    'skyllh/core/llhratio.py::ZeroSigH0SingleDatasetTCLLHRatio.calculate_log_lambda_and_grads': [
        'Stat.llrCode', 'Stat.nsGradCode', 'Stat.logLambdaICode', 'Stat.nsGradICode', 'Stat.isStable', 'Stat.tildeAlpha',
        'Stat.LlhSt.evaluateCode'],
    'skyllh/core/llhratio.py::ZeroSigH0SingleDatasetTCLLHRatio.calculate_ns_grad2': ['Stat.LlhSt.grad2Code', 'Stat.nsGrad2'],
    'skyllh/core/llhratio.py::ZeroSigH0SingleDatasetTCLLHRatio.initialize_for_new_trial': ['Stat.LlhSt.fresh'],
    'skyllh/core/llhratio.py::MultiDatasetTCLLHRatio.evaluate': ['Stat.MultiSt.evaluate', 'Stat.multiLlr', 'Stat.multiNsGrad'],
    'skyllh/core/llhratio.py::MultiDatasetTCLLHRatio.calculate_ns_grad2': ['Stat.MultiSt.grad2', 'Stat.kidsGrad2', 'Stat.nsGrad2Multi'],
    'skyllh/core/llhratio.py::MultiDatasetTCLLHRatio.initialize_for_new_trial': ['Stat.MultiSt.newTrial'],
    'skyllh/core/llhratio.py::NsProfileMultiDatasetTCLLHRatio.initialize_for_new_trial': ['Stat.ProfSt.newTrial'],
    'skyllh/core/llhratio.py::NsProfileMultiDatasetTCLLHRatio.evaluate': ['Stat.ProfSt.evaluate', 'Stat.ProfSt.llr'],
    'skyllh/core/llhratio.py::NsProfileMultiDatasetTCLLHRatio.calculate_ns_grad2': ['Stat.ProfSt.grad2'],
    'skyllh/core/utils/analysis.py::calculate_pval_from_trials': ['Stat.pval', 'Stat.pvalCounts', 'Stat.pOf', 'Stat.pSigma'],
    'skyllh/core/utils/analysis.py::calculate_pval_from_trials_mixed': ['Stat.pvalMixed'],
    'skyllh/core/utils/analysis.py::calculate_pval_from_gammafit_to_trials': ['Stat.pGamma', 'Stat.truncSample'],
    'skyllh/core/utils/analysis.py::polynomial_fit': [
        'Stat.polynomialFitData', 'Stat.polyfitR7', 'Stat.lsq1', 'Stat.lsq2', 'Stat.polyFit', 'Stat.polySwitch',
        'Stat.polyInvert1', 'Stat.polyInvert2', 'Stat.polyDisc'],
}

TS_FILE = 'skyllh/core/test_statistic.py'
LLH_FILE = 'skyllh/core/llhratio.py'
ANA_FILE = 'skyllh/core/analysis.py'
TDPS_FILE = 'skyllh/analyses/i3/publicdata_ps/time_dependent_ps.py'
TAYLOR = 'LLHRatioZeroNsTaylorWilksTestStatistic'

# ------------------------------------------------------------------------------------------
# translator part: call signatures and call-site keywords from the current source (every *.py under skyllh/)

def _skyllh_files():
    import os
    from harness.core import REPO
    out = []
    for root, _dirs, files in os.walk(os.path.join(REPO, 'skyllh')):
        for f in sorted(files):
            if f.endswith('.py'):
                out.append(os.path.relpath(os.path.join(root, f), REPO))
    return sorted(out)


def _fail(msg):
    from harness.core import MachineryError
    raise MachineryError('C12 signature extraction: ' + msg)


def _sig_of(relpath, cls, f):
    """(params without self, required, has **kwargs); anything pyBind does not model is a machinery error"""
    a = f.args
    if a.posonlyargs or a.kwonlyargs or a.vararg is not None:
        _fail('%s: %s.%s uses positional-only / keyword-only parameters or *args, which Model/Stat.lean pyBind does not cover' % (
            relpath, cls, f.name))
    pos = [x.arg for x in a.args]
    nreq = len(pos) - len(a.defaults)
    required = pos[:nreq]
    if pos and pos[0] in ('self', 'cls'):
        pos, required = pos[1:], [r for r in required if r not in ('self', 'cls')]
    return pos, required, a.kwarg is not None


def _scan():
    """one pass over skyllh/: definitions of calculate_ns_grad2, TestStatistic classes with a concrete __call__,
    call sites of calculate_ns_grad2 and calculate_test_statistic"""
    import ast
    from harness import extract
    g2_impls, g2_calls, ts_sites, classes = [], [], [], []
    for rel in _skyllh_files():
        try:
            tree = extract.parse(rel)
        except SyntaxError as e:
            _fail('%s does not parse: %s' % (rel, e))
        mod = rel[len('skyllh/'):-3].replace('/', '.')

        def visit(node, qual):
            for ch in ast.iter_child_nodes(node):
                if isinstance(ch, ast.ClassDef):
                    classes.append((rel, ch))
                    for n in ch.body:
                        if isinstance(n, ast.FunctionDef) and n.name == 'calculate_ns_grad2':
                            g2_impls.append((ch.name,) + _sig_of(rel, ch.name, n))
                    visit(ch, qual + [ch.name])
                elif isinstance(ch, (ast.FunctionDef, ast.AsyncFunctionDef)):
                    where = '.'.join([mod.split('.')[-1]] + qual + [ch.name]) if not qual else '.'.join(qual + [ch.name])
                    for n in ast.walk(ch):
                        if not isinstance(n, ast.Call):
                            continue
                        name = n.func.attr if isinstance(n.func, ast.Attribute) else (n.func.id if isinstance(n.func, ast.Name) else '')
                        if any(k.arg is None for k in n.keywords) or any(isinstance(x, ast.Starred) for x in n.args):
                            star = True
                        else:
                            star = False
                        if name.endswith('calculate_ns_grad2'):
                            if star:
                                _fail('%s: %s calls calculate_ns_grad2 with * / ** arguments' % (rel, where))
                            g2_calls.append((where, len(n.args), [k.arg for k in n.keywords]))
                        elif name == 'calculate_test_statistic' and not star:
                            ts_sites.append((where, len(n.args), [k.arg for k in n.keywords]))
        visit(tree, [])
    # TestStatistic class family (by base-class name, transitively)
    fam = {'TestStatistic'}
    changed = True
    while changed:
        changed = False
        for rel, c in classes:
            bases = {b.id if isinstance(b, ast.Name) else (b.attr if isinstance(b, ast.Attribute) else '') for b in c.bases}
            if c.name not in fam and bases & fam:
                fam.add(c.name)
                changed = True
    ts_impls = []
    for rel, c in classes:
        if c.name in fam:
            for n in c.body:
                if isinstance(n, ast.FunctionDef) and n.name == '__call__' and not any(
                        'abstractmethod' in ast.dump(d) for d in n.decorator_list):
                    ts_impls.append((c.name,) + _sig_of(rel, c.name, n))
    return g2_impls, g2_calls, ts_sites, ts_impls


def extract_signatures(ctx=None):
    """every failure is a machinery error (exit 2): a fall-back to recorded signatures would hide exactly the
    defect class the call-compatibility obligations exist for"""
    import ast
    from harness import extract
    g2_impls, g2_calls, ts_sites, ts_impls = _scan()
    taylor_calls = [c for c in g2_calls if c[0].startswith(TAYLOR + '.')]
    if not g2_impls or not ts_impls or not ts_sites or not taylor_calls:
        _fail('nothing found for %s' % ', '.join(n for n, v in (
            ('def calculate_ns_grad2', g2_impls), ('TestStatistic.__call__', ts_impls),
            ('calculate_test_statistic call sites', ts_sites), ('calculate_ns_grad2 call in ' + TAYLOR, taylor_calls)) if not v))
    tree = extract.parse(ANA_FILE)
    cls = extract.find_class(tree, 'Analysis')
    f = [n for n in (cls.body if cls else []) if isinstance(n, ast.FunctionDef) and n.name == 'calculate_test_statistic']
    if not f:
        _fail('%s: Analysis.calculate_test_statistic not found' % ANA_FILE)
    outer = _sig_of(ANA_FILE, 'Analysis', f[0])
    fwd = [n for n in ast.walk(f[0]) if isinstance(n, ast.Call) and isinstance(n.func, ast.Attribute)
           and n.func.attr == '_test_statistic']
    if len(fwd) != 1 or fwd[0].args:
        _fail('Analysis.calculate_test_statistic: expected exactly one keyword-only call self._test_statistic(...)')
    if not outer[2] or not any(k.arg is None and isinstance(k.value, ast.Name) and k.value.id == f[0].args.kwarg.arg
                                for k in fwd[0].keywords):
        _fail('Analysis.calculate_test_statistic no longer forwards its **kwargs to the test statistic (forwardKws assumes it)')
    fixed = [k.arg for k in fwd[0].keywords if k.arg is not None]
    try:
        opa = float(extract.class_attr(LLH_FILE, 'ZeroSigH0SingleDatasetTCLLHRatio', '_one_plus_alpha'))
    except Exception as e:  # noqa
        _fail('ZeroSigH0SingleDatasetTCLLHRatio._one_plus_alpha not found as a literal (%s)' % e)
    return {'grad2_calls': g2_calls, 'grad2_impls': g2_impls, 'outer': outer, 'fixed': fixed, 'sites': ts_sites,
            'ts_impls': ts_impls, 'opa': opa}


_OPA = []


def opa_value():
    if not _OPA:
        _OPA.append(extract_signatures()['opa'])
    return _OPA[0]


def _lean_sig(params, required, kwargs):
    from harness.extract import lean_str_list
    return '{ params := %s, required := %s, kwargs := %s }' % (
        lean_str_list(params), lean_str_list(required), 'true' if kwargs else 'false')


def generated(ctx):
    from harness.extract import lean_str_list
    d = extract_signatures(ctx)
    L = ['/- GENERATED by harness/props/c12.py from the current skyllh source (ast over every skyllh/**/*.py, no execution). -/',
         'import SkyllhModel.Model.Stat', 'namespace Gen.C12', 'open Stat', '']
    L += ['/-- every call of `calculate_ns_grad2` in skyllh (function, positional arguments, keywords) -/',
          'def grad2Calls : List (String × Nat × List String) := [']
    L += ['  ' + ',\n  '.join('("%s", %d, %s)' % (q, n, lean_str_list(k)) for q, n, k in d['grad2_calls']) + ']', '',
          '/-- every `def calculate_ns_grad2` in skyllh -/',
          'def grad2Impls : List (String × Sig) := [']
    L += ['  ' + ',\n  '.join('("%s", %s)' % (c, _lean_sig(p, r, k)) for c, p, r, k in d['grad2_impls']) + ']', '']
    L += ['/-- `Analysis.calculate_test_statistic` (forwards its `**kwargs`) and the keywords it passes on itself -/',
          'def tsOuter : Sig := %s' % _lean_sig(*d['outer']),
          'def tsFixed : List String := %s' % lean_str_list(d['fixed']), '',
          '/-- every call of `calculate_test_statistic` in skyllh (function, positional arguments, keywords) -/',
          'def tsSites : List (String × Nat × List String) := [']
    L += ['  ' + ',\n  '.join('("%s", %d, %s)' % (q, n, lean_str_list(k)) for q, n, k in d['sites']) + ']', '']
    L += ['/-- every concrete `__call__` of a `TestStatistic` subclass in skyllh -/',
          'def tsImpls : List (String × Sig) := [']
    L += ['  ' + ',\n  '.join('("%s", %s)' % (c, _lean_sig(p, r, k)) for c, p, r, k in d['ts_impls']) + ']', '']
    from harness.extract import lean_float
    L += ['/-- `ZeroSigH0SingleDatasetTCLLHRatio._one_plus_alpha` -/',
          'def onePlusAlpha {F : Type} [OfScientific F] : F := %s' % lean_float(d['opa']), '']
    from harness.core import REPO
    pc = r7.lean_polyfit_calls(REPO)
    if pc is None:
        _fail('no np.polyfit call found inside polynomial_fit (%s)' % r7.ANA_UTILS)
    L += [pc]
    L += ['end Gen.C12', '']
    return '\n'.join(L)


# ------------------------------------------------------------------------------------------
# small helpers

def _f(x):
    return unjson_float(x) if isinstance(x, str) else float(x)


def _fl(xs):
    return [_f(x) for x in xs]


def _same(a, b):
    return (a == b) or (a != a and b != b)


def _close(a, b, tol):
    if _same(a, b):
        return True
    if math.isinf(a) or math.isinf(b) or a != a or b != b:
        return False
    return abs(a - b) <= tol


OPS = {0: 'greater', 1: 'greater_equal', 2: 'larger'}

_PMM = {}
_LAYOUT_NAME = {'nsig': 'nsig'}


def _pmm(layout):
    """real ParameterModelMapper with the global fit parameter 'ns' at different positions"""
    if layout not in _PMM:
        from skyllh.core.parameters import Parameter, ParameterModelMapper
        from harness import llh_fixtures as fx
        srcs = fx.make_sources(1)
        pmm = ParameterModelMapper(models=srcs)
        # 'nsig': the signal-strength parameter is called 'nsig' (TestStatistic(ns_param_name='nsig')), a decoy 'ns' comes first
        order = {'ns0': ['ns'], 'ns1': ['gamma', 'ns'], 'ns2': ['gamma', 'Ecut', 'ns', 'beta'], 'nsig': ['ns', 'gamma', 'nsig']}[layout]
        for nm in order:
            pmm.map_param(Parameter(nm, 1.0, -1e9, 1e9), models=srcs)
        _PMM[layout] = (pmm, order.index(_LAYOUT_NAME.get(layout, 'ns')), len(order))
    return _PMM[layout]


def _fitparams(layout, ns, rng_vals=(2.5, 7.0, -3.0, 0.0)):
    pmm, idx, n = _pmm(layout)
    fp = np.array([rng_vals[i % len(rng_vals)] for i in range(n)], dtype=np.float64)
    fp[idx] = ns
    return pmm, idx, fp


class _StubLLH(object):
    """follows the abstract signature TCLLHRatio.calculate_ns_grad2(ns, ns_pidx, src_params_recarray, tl=None)
    and LLHRatio.evaluate(fitparam_values, src_params_recarray=None, tl=None)"""

    def __init__(self, b, grads=None):
        self.b = b
        self.grads = grads
        self.calls = []
        self.evals = []

    def calculate_ns_grad2(self, ns, ns_pidx, src_params_recarray, tl=None):
        self.calls.append((float(ns), int(ns_pidx), src_params_recarray is not None))
        return np.float64(self.b)

    def evaluate(self, fitparam_values, src_params_recarray=None, tl=None):
        self.evals.append([float(v) for v in np.asarray(fitparam_values)])
        return (np.float64(0.0), np.array(self.grads, dtype=np.float64))


def _as_float(x):
    """the documented return type is a float: accept Python / numpy scalars and 0-d arrays only"""
    if isinstance(x, np.ndarray) and x.ndim > 0:
        raise TypeError('returned an array of shape %r instead of a float' % (x.shape,))
    return float(x)


def _call(fn):
    try:
        with warnings.catch_warnings():
            warnings.simplefilter('ignore')
            with np.errstate(all='ignore'):
                return fn(), None
    except Exception as e:  # noqa
        return None, '%s: %s' % (type(e).__name__, e)


# ------------------------------------------------------------------------------------------
# test statistic: implementation adapters

def _ts_new(cls, layout=None, tsname=None):
    from skyllh.core.test_statistic import WilksTestStatistic, LLHRatioZeroNsTaylorWilksTestStatistic
    c = {'wilks': WilksTestStatistic, 'taylor': LLHRatioZeroNsTaylorWilksTestStatistic}[cls]
    if tsname is not None:
        return c(ns_param_name=tsname)
    if layout in _LAYOUT_NAME:
        return c(ns_param_name=_LAYOUT_NAME[layout])
    return c()


def _names_of(case):
    pmm = _pmm(case['layout'])[0]
    names = [p_.name for p_ in pmm.global_paramset.floating_params]
    return names, case.get('tsname') or _LAYOUT_NAME.get(case['layout'], 'ns')


def _fp_of(case):
    others = case.get('others')
    if others:
        r = _fitparams(case['layout'], _f(case['ns']), rng_vals=tuple(_fl(others)))
    else:
        r = _fitparams(case['layout'], _f(case['ns']))
    if case.get('fp_cut') is not None:
        # a fit-parameter array shorter than the parameter list (the entry of ns is missing)
        return r[0], r[1], r[2][:int(case['fp_cut'])]
    return r


def impl_ts(case, tsobj=None):
    pmm, idx, fp = _fp_of(case)
    if tsobj is None:
        tsobj = _ts_new('wilks', case['layout'], case.get('tsname'))
    return _call(lambda: _as_float(tsobj(pmm=pmm, log_lambda=_scalar_form(_f(case['ll']), case.get('ll_form', 'np64')), fitparam_values=fp)))


def impl_tst(case, tsobj=None):
    pmm, idx, fp = _fp_of(case)
    grads = np.array([0.125 * (i + 1) for i in range(max(len(fp), idx + 1))], dtype=np.float64)
    grads[idx] = _f(case['a'])
    stub = _StubLLH(_f(case['b']), grads)
    kw = dict(pmm=pmm, log_lambda=_scalar_form(_f(case['ll']), case.get('ll_form', 'np64')), fitparam_values=fp, llhratio=stub)
    if case.get('pass_grads', True):
        kw['grads'] = grads.tolist() if case.get('grads_form') == 'list' else grads
    if tsobj is None:
        tsobj = _ts_new('taylor', case['layout'], case.get('tsname'))
    v, err = _call(lambda: _as_float(tsobj(**kw)))
    for ev in stub.evals:
        if ev != [float(x) for x in fp]:
            err = err or 'protocol: llhratio.evaluate was called with fit parameters %r instead of %r' % (ev, fp.tolist())
    return v, err, stub.calls, idx


def _check_ts(case, v, err):
    ns, ll = _f(case['ns']), _f(case['ll'])
    if err:
        return 'WilksTestStatistic(ns=%r, log_lambda=%r, ns at fit-parameter %s) raised %s' % (ns, ll, case['layout'], err)
    want = 2.0 * ll if ns >= 0 else -2.0 * ll
    if not _same(v, want):
        return 'WilksTestStatistic(ns=%r, log_lambda=%r, layout %s) = %r, documented 2*sgn(ns)*log_lambda = %r' % (
            ns, ll, case['layout'], v, want)
    return None


def o_ts(ctx, case):
    """documented definition: TS = 2 sgn(ns) logΛ, sgn(0) = +1 (exact: the operations involved are exact)"""
    v, err = impl_ts(case)
    if case.get('fp_cut') is not None:
        return None if err else 'test statistic read ns from a fit-parameter array that has no entry for it and returned %r' % v
    if case.get('tsname') is not None and case['tsname'] not in _names_of(case)[0]:
        return None if (err and err.startswith('KeyError')) else 'test statistic with unknown ns_param_name=%r gave %s instead of KeyError' % (
            case['tsname'], err or repr(v))
    return _check_ts(case, v, err)


def _apex_exact(a, b):
    return float(Fraction(-2) * Fraction(a) ** 2 / (4 * Fraction(b)))


def _check_tst(case, v, err, calls, idx):
    ns, ll, a, b = _f(case['ns']), _f(case['ll']), _f(case['a']), _f(case['b'])
    if err:
        return 'LLHRatioZeroNsTaylorWilksTestStatistic(ns=%r, log_lambda=%r, layout %s) raised %s' % (ns, ll, case['layout'], err)
    if ns == 0:
        if b == 0 and a != 0:
            # -2a²/(4·0): no finite value exists; the code returns ±inf, the model `none`
            return None if not math.isfinite(v) else 'zero-ns Taylor TS with a=%r, b=0 is %r although the quotient does not exist' % (a, v)
        # a = 0 and b = 0: log-likelihood ratio flat up to second order, its apex value is 0
        want = 0.0 if b == 0 else _apex_exact(a, b)
        if not _close(v, want, 1e-12 * abs(want)):
            return 'zero-ns Taylor TS with a=%r, b=%r is %r, documented -2*a^2/(4*b) = %r%s' % (
                a, b, v, want, ' (flat log-likelihood ratio: apex value 0)' if b == 0 else '')
        if not calls or any(c[0] != 0.0 or c[1] != idx for c in calls):
            return 'calculate_ns_grad2 was called with (ns, ns_pidx, has recarray) = %r, expected ns=0, ns_pidx=%d' % (calls, idx)
    else:
        want = 2.0 * ll if ns > 0 else -2.0 * ll
        if not _same(v, want):
            return 'Taylor-variant TS(ns=%r, log_lambda=%r) = %r, documented 2*sgn(ns)*log_lambda = %r' % (ns, ll, v, want)
    return None


def o_ts_taylor(ctx, case):
    """documented definition of the zero-ns Taylor variant (stub LLH ratio with prescribed a, b)"""
    r = impl_tst(case)
    if case.get('fp_cut') is not None:
        return None if r[1] else 'test statistic read ns from a fit-parameter array that has no entry for it and returned %r' % r[0]
    if case.get('tsname') is not None and case['tsname'] not in _names_of(case)[0]:
        return None if (r[1] and r[1].startswith('KeyError')) else 'test statistic with unknown ns_param_name=%r gave %s instead of KeyError' % (
            case['tsname'], r[1] or repr(r[0]))
    return _check_tst(case, *r)


# ---- histories of calls on ONE test-statistic instance

def impl_hist(case):
    """all calls of the history on one instance: list of (value, err, stub calls, idx)"""
    obj = _ts_new(case['cls'])
    out = []
    for c in case['calls']:
        if case['cls'] == 'wilks':
            v, err = impl_ts(c, obj)
            out.append((v, err, None, None))
        else:
            out.append(impl_tst(c, obj))
    return out


def o_ts_history(ctx, case):
    """a test-statistic object has no memory: every call of a history on one instance (changing parameter
    layouts / position of ns / signs / LLH ratios) gives what a fresh instance gives for the same arguments, and
    the documented value"""
    used = impl_hist(case)
    for i, (c, u) in enumerate(zip(case['calls'], used)):
        if case['cls'] == 'wilks':
            fv, ferr = impl_ts(c)
            d = _check_ts(c, u[0], u[1])
        else:
            fv, ferr, _fc, _fi = impl_tst(c)
            d = _check_tst(c, *u)
        if (u[1] is None) != (ferr is None) or (u[1] is None and not _same(u[0], fv)):
            prev = ', '.join('%s/ns=%r' % (q['layout'], _f(q['ns'])) for q in case['calls'][:i])
            return ('call %d of a history on one %s test-statistic instance (layout %s, ns=%r, log_lambda=%r; earlier calls: %s) gives %s, '
                    'a fresh instance gives %s' % (i + 1, case['cls'], c['layout'], _f(c['ns']), _f(c['ll']), prev,
                                                   u[1] or repr(u[0]), ferr or repr(fv)))
        if d:
            return 'call %d of a history on one instance: %s' % (i + 1, d)
    return None


def _shrink_hist(ctx, case, fn):
    """smallest failing sub-history: a pair (earlier call, failing call), else a prefix"""
    calls = case['calls']
    for n in range(1, len(calls) + 1):
        sub = dict(case, calls=calls[:n])
        if fn(ctx, sub):
            last = calls[n - 1]
            if fn(ctx, dict(case, calls=[last])):
                return dict(case, calls=[last])
            for j in range(n - 1):
                pair = dict(case, calls=[calls[j], last])
                if fn(ctx, pair):
                    return pair
            return sub
    return case


# ---- real LLH-ratio objects

def _build(case):
    try:
        return _build0(case)
    except Exception as e:  # noqa
        from harness.core import MachineryError
        raise MachineryError('C12 fixture construction failed: %s: %s' % (type(e).__name__, e))


def _build0(case):
    from harness import llh_fixtures as fx
    cfg = fx.make_cfg()
    Rs = [np.array(R, dtype=np.float64) for R in case['Rs']]
    J = len(Rs)
    K = Rs[0].shape[0]
    W = case.get('W') or [1.0] * K
    Y = np.array(case.get('Y') or [[1.0] * K] * J, dtype=np.float64)
    if case['mode'] == 'single':
        b = fx.build_stacked_analysis(cfg, W=W, Y=Y[:1], Rs=Rs[:1], Ns=case['Ns'][:1], weighted=False)
        return fx, b, b.llhratios[0]
    b = fx.build_stacked_analysis(cfg, W=W, Y=Y, Rs=Rs, Ns=case['Ns'])
    return fx, b, b.multi


def impl_real(case, want_parts=False):
    """evaluate the real LLH ratio at ns and call both test statistics as documented"""
    from skyllh.core.test_statistic import WilksTestStatistic, LLHRatioZeroNsTaylorWilksTestStatistic
    fx, b, llh = _build(case)
    ns = _f(case['ns'])
    fp = fx.fitparam_values(b.pmm, ns)
    idx = b.pmm.get_gflp_idx(name='ns')
    out = {}
    with np.errstate(all='ignore'):
        (ll, grads) = llh.evaluate(fp)
    out['ll'], out['a'] = float(ll), float(grads[idx])
    out['wilks'], out['wilks_err'] = _call(lambda: float(WilksTestStatistic()(pmm=b.pmm, log_lambda=ll, fitparam_values=fp)))
    out['taylor'], out['taylor_err'] = _call(lambda: float(LLHRatioZeroNsTaylorWilksTestStatistic()(
        pmm=b.pmm, log_lambda=ll, fitparam_values=fp, llhratio=llh, grads=grads)))
    rec = b.pmm.create_src_params_recarray(fp)
    out['b'], out['b_err'] = _call(lambda: float(llh.calculate_ns_grad2(ns=ns, ns_pidx=idx, src_params_recarray=rec)))
    if want_parts:
        parts = []
        if case['mode'] == 'single':
            f = np.array([1.0])
        else:
            f = np.asarray(b.services[2].get_weights()[0], dtype=np.float64)
        for j, l in enumerate(b.llhratios[:len(f)]):
            Ri = np.asarray(b.pdfratios[j].get_ratio(tdm=b.tdms[j], src_params_recarray=rec), dtype=np.float64)
            N = int(b.tdms[j].n_events)
            parts.append({'N': N, 'nSel': int(len(Ri)), 'X': ((Ri - 1.) / N).tolist(), 'f': float(f[j])})
        out['parts'] = parts
        out['llh'] = llh
        out['fp'] = fp
    return out


def o_ts_real(ctx, case):
    """both statistics on a real LLH ratio: computable, Wilks = 2 sgn logΛ, Taylor at ns=0 = -2a²/(4b) with
    a, b the analytic first/second ns-derivative at 0 (exact fractions) and by finite differences"""
    ns = _f(case['ns'])
    try:
        o = impl_real(case, want_parts=True)
    except Exception as e:  # noqa
        return 'evaluating the LLH ratio raised %s: %s' % (type(e).__name__, e)
    if o['wilks_err']:
        return 'WilksTestStatistic on a real %s-dataset LLH ratio at ns=%r raised %s' % (case['mode'], ns, o['wilks_err'])
    if o['taylor_err']:
        return 'LLHRatioZeroNsTaylorWilksTestStatistic on a real %s-dataset LLH ratio at ns=%r raised %s' % (case['mode'], ns, o['taylor_err'])
    want = 2.0 * o['ll'] if ns >= 0 else -2.0 * o['ll']
    if not _same(o['wilks'], want):
        return 'Wilks TS at ns=%r is %r, 2*sgn(ns)*log_lambda = %r' % (ns, o['wilks'], want)
    if ns != 0:
        if not _same(o['taylor'], want):
            return 'Taylor-variant TS at ns=%r is %r, 2*sgn(ns)*log_lambda = %r' % (ns, o['taylor'], want)
        return None
    # analytic derivatives at ns = 0 of  sum_j [ sum_i log(1 + ns f_j X_ji) + (N_j - N'_j) log(1 - ns f_j / N_j) ]
    a = Fraction(0)
    b = Fraction(0)
    mag = Fraction(0)
    for p in o['parts']:
        f, N, nb = Fraction(p['f']), p['N'], p['N'] - p['nSel']
        sx = sum((Fraction(x) for x in p['X']), Fraction(0))
        sxx = sum((Fraction(x) ** 2 for x in p['X']), Fraction(0))
        a += f * (sx - Fraction(nb, N))
        b += f * f * (-sxx - Fraction(nb, N * N))
        mag += f * f * (sxx + Fraction(nb, N * N))
    if b == 0:
        # every selected event has R = 1 and there is no pure-background event (or no dataset has signal yield):
        # log_lambda is flat up to second order, a = 0, and the apex value is 0
        if a == 0 and not (o['taylor'] == 0.0):
            return ('zero-ns Taylor TS on a real %s-dataset LLH ratio with a = 0 and b = 0 (all ratios 1, no pure-background '
                    'events) is %r, the apex of the flat log-likelihood ratio is 0' % (case['mode'], o['taylor']))
        return None
    if abs(Fraction(o['b']) - b) > Fraction(1e-9) * mag:
        return 'calculate_ns_grad2 at ns=0 is %r, the second derivative of log_lambda is %r' % (o['b'], float(b))
    want = float(Fraction(-2) * Fraction(o['a']) ** 2 / (4 * b))
    if not _close(o['taylor'], want, 1e-9 * abs(want) + 1e-300):
        return 'zero-ns Taylor TS is %r; -2*a^2/(4*b) with a=%r and the second derivative b=%r is %r' % (
            o['taylor'], o['a'], float(b), want)
    # finite differences on the real evaluate() (independent of the analytic formula above)
    llh, fp = o['llh'], o['fp']
    idx = 0
    Nmin = min(p['N'] for p in o['parts'])
    h = 1e-3 * Nmin / (1.0 + max(abs(x) * p['N'] for p in o['parts'] for x in (p['X'] or [0.0])))

    def fval(x):
        q = fp.copy()
        q[idx] = x
        return float(llh.evaluate(q)[0])
    fm2, fm1, f0, f1, f2 = fval(-2 * h), fval(-h), fval(0.0), fval(h), fval(2 * h)
    a_fd = (8 * (f1 - fm1) - (f2 - fm2)) / (12 * h)
    b_fd = (16 * (f1 + fm1) - (f2 + fm2) - 30 * f0) / (12 * h * h)
    if abs(a_fd - o['a']) > 1e-5 * (abs(o['a']) + float(mag) ** 0.5) or abs(b_fd - float(b)) > 1e-4 * float(mag):
        return 'finite differences of evaluate() give a=%r, b=%r; grads[ns]=%r, calculate_ns_grad2=%r' % (a_fd, b_fd, o['a'], o['b'])
    return None


# ---- histories on one real LLH-ratio OBJECT (its per-event gradient cache is the state the Taylor variant depends on)

class _B(object):
    pass


def _lh_objects(case):
    from harness import llh_fixtures as fx
    if not case.get('ns_second'):
        c = {'mode': 'single', 'Rs': [[_fl(case['R'])]], 'Ns': [case['N']]}
        fx, b, llh = _build(c)
        return fx, b, llh
    # a second global fit parameter mapped before ns: ns sits at fit-parameter index 1 on the REAL objects
    try:
        from skyllh.core.model import DetectorModel
        from skyllh.core.parameters import Parameter, ParameterModelMapper
        cfg = fx.make_cfg()
        sources = fx.make_sources(1)
        shg = fx.make_shg_mgr(cfg, sources)
        det = DetectorModel('det')
        pmm = ParameterModelMapper(models=[det] + sources)
        pmm.map_param(Parameter('gamma', 2.0, 1, 4), models=sources)
        pmm.map_param(Parameter('ns', 1.0, -1e9, 1e9), models=det)
        R = np.array([_fl(case['R'])], dtype=np.float64).reshape((1, -1))
        tdm = fx.make_tdm(shg, pmm, fx.make_events(R.shape[1]), n_events=case['N'])
        llh = fx.make_single_llhratio(cfg, pmm, shg, tdm, fx.StubPDFRatio(cfg, R))
    except Exception as e:  # noqa
        from harness.core import MachineryError
        raise MachineryError('C12 fixture construction (ns second) failed: %s: %s' % (type(e).__name__, e))
    b = _B()
    b.pmm, b.cfg = pmm, cfg
    return fx, b, llh


def _fpv(fx, b, case, ns):
    if case.get('ns_second'):
        return fx.fitparam_values(b.pmm, ns, gamma=2.5)
    return fx.fitparam_values(b.pmm, ns)


def impl_lh(case):
    """outputs of the g / t / u operations of the history, run on ONE real ZeroSigH0SingleDatasetTCLLHRatio"""
    from skyllh.core.test_statistic import LLHRatioZeroNsTaylorWilksTestStatistic
    fx, b, llh = _lh_objects(case)
    fx2, b2_, fresh = _lh_objects(case)
    idx = b.pmm.get_gflp_idx(name='ns')
    fp0 = _fpv(fx, b, case, 0.0)
    with np.errstate(all='ignore'):
        (ll0, grads0) = fresh.evaluate(_fpv(fx2, b2_, case, 0.0))
    tsobj = LLHRatioZeroNsTaylorWilksTestStatistic()
    out = []
    for op in case['ops']:
        k = op[0]
        if k == 'e':
            with np.errstate(all='ignore'):
                llh.evaluate(_fpv(fx, b, case, _f(op[1])))
        elif k == 'n':
            llh.initialize_for_new_trial()
        elif k == 'g':
            ns = _f(op[1])
            rec = b.pmm.create_src_params_recarray(_fpv(fx, b, case, ns))
            try:
                out.append(('ok', float(llh.calculate_ns_grad2(ns=ns, ns_pidx=idx, src_params_recarray=rec))))
            except RuntimeError:
                out.append(('R',))
            except Exception as e:  # noqa
                out.append(('err', type(e).__name__))
        else:
            kw = dict(pmm=b.pmm, log_lambda=ll0, fitparam_values=fp0, llhratio=llh)
            if k == 't':
                kw['grads'] = np.array(grads0)
            v, err = _call(lambda: _as_float(tsobj(**kw)))
            out.append(('ok', v) if err is None else ('err', err))
    return out


def _lh_reference(case):
    """exact second derivative at ns and the fresh-object Taylor TS (fractions)"""
    N = case['N']
    X = [(Fraction(r) - 1) / N for r in _fl(case['R'])]
    nb = N - len(X)

    def g2(ns):
        ns = Fraction(ns)
        return -sum(((x / (1 + ns * x)) ** 2 for x in X), Fraction(0)) - Fraction(nb) / (N - ns) ** 2
    a = sum(X, Fraction(0)) - Fraction(nb, N)
    b = g2(0)
    ts0 = 0.0 if (a == 0 and b == 0) else (float(Fraction(-2) * a * a / (4 * b)) if b != 0 else float('inf'))
    return g2, ts0


def o_llh_history(ctx, case):
    """the Taylor statistic at a fit result with ns = 0 does not depend on what the LLH-ratio object evaluated before
    (other parameters, a new trial): it equals the value for a freshly evaluated object; calculate_ns_grad2 raises the
    documented RuntimeError exactly when nothing was evaluated since construction / the last new trial, and right
    after an evaluate at the same ns it is the second derivative"""
    out = impl_lh(case)
    g2, ts0 = _lh_reference(case)
    it = iter(out)
    last = None
    hist = []
    for op in case['ops']:
        k = op[0]
        hist.append(k + (repr(_f(op[1])) if len(op) > 1 else ''))
        if k == 'e':
            last = _f(op[1])
        elif k == 'n':
            last = None
        elif k == 'g':
            r = next(it)
            if last is None:
                if r != ('R',):
                    return 'calculate_ns_grad2 without a preceding evaluate returned %r instead of raising RuntimeError (history %s)' % (r, ' '.join(hist))
            elif r[0] != 'ok':
                return 'calculate_ns_grad2 after evaluate raised %r (history %s)' % (r, ' '.join(hist))
            elif last == _f(op[1]) and all(last * (rr - 1.) / case['N'] > opa_value() - 1 + 1e-9 for rr in _fl(case['R'])):
                # (stable regime only: below the threshold the code continues log_lambda_i by a parabola and
                #  -sum(nsgrad_i**2) is no longer its second derivative — see c12_nsgrad2_unstable_counterexample)
                want = g2(last)
                if abs(Fraction(r[1]) - want) > Fraction(1e-9) * abs(want) + Fraction(1, 10 ** 300):
                    return 'calculate_ns_grad2(ns=%r) right after evaluate(ns=%r) is %r, the second derivative is %r' % (last, last, r[1], float(want))
        else:
            r = next(it)
            how = 'explicit grads of ns=0' if k == 't' else 'grads=None'
            if r[0] != 'ok':
                return ('zero-ns Taylor TS (%s) on an LLH-ratio object with history [%s] raised %s; on a freshly evaluated object it is %r' % (
                    how, ' '.join(hist[:-1]), r[1], ts0))
            if not _close(r[1], ts0, 1e-9 * abs(ts0) + 1e-300) and not (math.isinf(ts0) and not math.isfinite(r[1])):
                return ('zero-ns Taylor TS (%s) on an LLH-ratio object with history [%s] is %r; on a freshly evaluated object it is %r '
                        '(R=%r, N=%d)' % (how, ' '.join(hist[:-1]), r[1], ts0, _fl(case['R']), case['N']))
            last = 0.0 if True else last       # the statistic evaluates at the fit parameters itself
    return None


def _corr_lh(ctx, cases):
    reqs = []
    for c in cases:
        N = c['N']
        X = [(r - 1.) / N for r in _fl(c['R'])]
        ops = ','.join({'e': 'e' + f2b(_f(op[1])) if len(op) > 1 else '', 'n': 'n', 'g': 'g' + f2b(_f(op[1])) if len(op) > 1 else '',
                        't': 't', 'u': 't'}[op[0]] for op in c['ops'])
        reqs.append('lhc %s %d %d %s %s' % (f2b(opa_value()), len(X), N - len(X), flist(X), ops))
    res = []
    for c, ans in zip(cases, ctx.driver('C12', reqs) if reqs else []):
        toks = [] if ans == '-' else ans.split(',')
        for lab in _branches_hist('lh', c, toks):
            ctx.count('branch:' + lab)
        out = impl_lh(c)
        d = None
        if len(toks) != len(out):
            d = 'lh: %d outputs, model %d' % (len(out), len(toks))
        else:
            for i, (r, t) in enumerate(zip(out, toks)):
                if t == 'R':
                    bad = r != ('R',)
                elif t == 'notfinite':
                    bad = not (r[0] == 'ok' and not math.isfinite(r[1]))
                else:
                    m = b2f(t)
                    bad = not (r[0] == 'ok' and _close(r[1], m, 1e-9 * abs(m) + 1e-300))
                if bad:
                    d = 'lh: output %d of history %r: implementation %r, model %s' % (i + 1, c['ops'], r, t if t in ('R', 'notfinite') else repr(b2f(t)))
                    break
        res.append(d)
    return res


# ---- histories on one real MultiDatasetTCLLHRatio / NsProfileMultiDatasetTCLLHRatio object

def _mh_objects(case):
    fx, b, multi = _build(dict(case, mode='multi'))
    obj = multi
    if case['obj'] == 'profile':
        from skyllh.core.llhratio import NsProfileMultiDatasetTCLLHRatio
        obj = NsProfileMultiDatasetTCLLHRatio(pmm=b.pmm, minimizer=fx.make_minimizer(b.cfg), mean_n_sig_0=_f(case['ns0']),
                                              llhratio=multi, cfg=b.cfg)
    return fx, b, obj


def _exc_tag(e):
    return 'R' if isinstance(e, RuntimeError) else 'V' if isinstance(e, ValueError) else 'E'


def impl_mh(case):
    """outputs of the history on ONE real object: E<ns> -> (log_lambda, grads[ns]); g -> calculate_ns_grad2; t/u -> Taylor TS"""
    from skyllh.core.test_statistic import LLHRatioZeroNsTaylorWilksTestStatistic
    fx, b, obj = _mh_objects(case)
    fp0 = fx.fitparam_values(b.pmm, 0.0)
    tsobj = LLHRatioZeroNsTaylorWilksTestStatistic()
    out = []
    for op in case['ops']:
        k = op[0]
        try:
            with warnings.catch_warnings():
                warnings.simplefilter('ignore')
                with np.errstate(all='ignore'):
                    if k == 'E':
                        (ll, g) = obj.evaluate(fx.fitparam_values(b.pmm, _f(op[1])))
                        out.append(('ok', float(ll), float(g[0])))
                    elif k == 'n':
                        obj.initialize_for_new_trial()
                    elif k == 'g':
                        pidx, ns = (int(op[1]), _f(op[2])) if len(op) == 3 else (0, _f(op[1]))
                        rec = b.pmm.create_src_params_recarray(fx.fitparam_values(b.pmm, ns))
                        out.append(('ok', float(obj.calculate_ns_grad2(ns=ns, ns_pidx=pidx, src_params_recarray=rec))))
                    else:
                        kw = dict(pmm=b.pmm, log_lambda=np.float64(0.0), fitparam_values=fp0, llhratio=obj)
                        if k == 't':
                            kw['grads'] = np.array([0.123])           # explicit (and deliberately useless) gradients
                        out.append(('ok', _as_float(tsobj(**kw))))
        except Exception as e:  # noqa
            if k != 'n':
                out.append(('err', _exc_tag(e), '%s: %s' % (type(e).__name__, str(e)[:80])))
            else:
                out.append(('err-n', _exc_tag(e)))
    return out


def _mh_parts(case):
    """per dataset N, N', X_i and the weight factor f_j, from a freshly built and evaluated copy"""
    o = impl_real(dict(case, kind='real', mode='multi', ns=0.0), want_parts=True)
    return o['parts']


def _mh_model_request(case, parts):
    ds = ';'.join('%d:%d:%s' % (p_['nSel'], p_['N'] - p_['nSel'], '/'.join(f2b(x) for x in p_['X']) or '-') for p_ in parts)
    ops = []
    for op in case['ops']:
        k = op[0]
        if k == 'E':
            b_ = f2b(_f(op[1]))
            ops += ['e' + b_, 'l' + b_, 'a' + b_]
        elif k == 'n':
            ops.append('n')
        elif k == 'g':
            if case['obj'] == 'profile':
                pidx, ns = (int(op[1]), _f(op[2])) if len(op) == 3 else (0, _f(op[1]))
                ops.append('g%d_%s' % (pidx, f2b(ns)))
            else:
                ops.append('g' + f2b(_f(op[-1])))
        else:
            ops.append('t')
    fs = flist([p_['f'] for p_ in parts])
    if case['obj'] == 'profile':
        return 'ph %s %s %s %s %s' % (f2b(opa_value()), f2b(_f(case['ns0'])), ds, fs, ','.join(ops))
    return 'mh %s %s %s %s' % (f2b(opa_value()), ds, fs, ','.join(ops))


def _corr_mh(ctx, cases):
    partss = [_mh_parts(c) for c in cases]
    reqs = [_mh_model_request(c, ps) for c, ps in zip(cases, partss)]
    res = []
    for c, ps, ans in zip(cases, partss, ctx.driver('C12', reqs) if reqs else []):
        for lab in _branches_hist('mh', c, [] if ans == '-' else ans.split(',')):
            ctx.count('branch:' + lab)
        toks = iter([] if ans == '-' else ans.split(','))
        out = iter(impl_mh(c))
        scale = sum(abs(x) for p_ in ps for x in p_['X']) + sum(1.0 for p_ in ps) + 1.0
        d = None
        for op in c['ops']:
            k = op[0]
            if k == 'n':
                continue
            r = next(out)
            if r[0] == 'err-n':              # the new-trial call itself failed: nothing further is comparable
                d = 'mh: initialize_for_new_trial raised (%s)' % r[1]
                break
            mt = [next(toks) for _ in range(2 if k == 'E' else 1)]
            if k == 'E':
                lt, at = mt
                if lt in ('N',):
                    bad = r[0] != 'err'
                else:
                    ns = _f(op[1])
                    bad = r[0] != 'ok' or not _close(r[1], b2f(lt), 1e-9 * scale * (1 + abs(math.log(max(1e-300, abs(ns) + 1))) + 10)) \
                        or not _close(r[2], b2f(at), 1e-9 * (abs(b2f(at)) + scale))
            else:
                t = mt[0]
                if t in ('W', 'S', 'R', 'V', 'N'):
                    bad = r[0] != 'err' or (t in ('R', 'V') and r[1] != t)
                elif t == 'notfinite':
                    bad = not (r[0] == 'ok' and not math.isfinite(r[1]))
                else:
                    m = b2f(t)
                    bad = not (r[0] == 'ok' and _close(r[1], m, 1e-9 * abs(m) + 1e-300))
            if bad:
                d = 'mh: %s object, op %r of history %r: implementation %r, model %s' % (c['obj'], op, c['ops'], r, mt)
                break
        res.append(d)
    return res


def o_obj_history(ctx, case):
    """multi-dataset / ns-profile LLH-ratio objects: the Taylor statistic at ns = 0 never depends on what the object
    evaluated before (it equals the value for a freshly prepared object), it raises only when the object cannot be
    evaluated at all (ns-profile object without an initialised trial); calculate_ns_grad2 right after an evaluate at
    the same ns (all events stable) is the second derivative; ns_pidx != 0 on the ns-profile object is a ValueError"""
    out = iter(impl_mh(case))
    ps = _mh_parts(case)
    # fresh reference
    ref = impl_mh(dict(case, ops=([['n']] if case['obj'] == 'profile' else []) + [['u']]))[-1]
    last, trial = None, case['obj'] != 'profile'
    hist = []
    for op in case['ops']:
        k = op[0]
        hist.append(k + ','.join(repr(_f(v)) for v in op[1:]))
        if k == 'n':
            trial, last = True, (_f(case.get('ns0', 0.0)) if case['obj'] == 'profile' else None)
            continue
        r = next(out)
        if r[0] == 'err-n':
            return 'initialize_for_new_trial raised on the %s object' % case['obj']
        if k == 'E':
            if r[0] == 'ok':
                last = _f(op[1])
            elif trial:
                return 'evaluate(ns=%r) on the %s object raised %s (history %s)' % (_f(op[1]), case['obj'], r[2], ' '.join(hist))
        elif k == 'g':
            pidx, ns = (int(op[1]), _f(op[2])) if len(op) == 3 else (0, _f(op[1]))
            if case['obj'] == 'profile' and pidx != 0:
                if r[:2] != ('err', 'V'):
                    return 'ns-profile calculate_ns_grad2(ns_pidx=%d) gave %r instead of the documented ValueError' % (pidx, r)
            elif last is not None and last == ns and r[0] == 'ok' and all(
                    ns * p_['f'] * x > opa_value() - 1 + 1e-9 for p_ in ps for x in p_['X']):
                want = sum((Fraction(p_['f']) ** 2 * (
                    -sum(((Fraction(x) / (1 + Fraction(ns) * Fraction(p_['f']) * Fraction(x))) ** 2 for x in p_['X']), Fraction(0))
                    - Fraction(p_['N'] - p_['nSel']) / (p_['N'] - Fraction(ns) * Fraction(p_['f'])) ** 2) for p_ in ps), Fraction(0))
                mag = sum((Fraction(p_['f']) ** 2 * (sum((Fraction(x) ** 2 for x in p_['X']), Fraction(0)) + 1) for p_ in ps), Fraction(0))
                if abs(Fraction(r[1]) - want) > Fraction(1e-7) * (abs(want) + mag):
                    return 'calculate_ns_grad2(ns=%r) right after evaluate(ns=%r) on the %s object is %r, the second derivative is %r' % (
                        ns, ns, case['obj'], r[1], float(want))
        else:
            how = 'explicit grads' if k == 't' else 'grads=None'
            if not trial:
                continue                      # no trial initialised on the ns-profile object: it cannot be evaluated at all
            if r[0] != 'ok':
                return 'zero-ns Taylor TS (%s) on a %s LLH-ratio object with history [%s] raised %s; on a freshly prepared object it is %r' % (
                    how, case['obj'], ' '.join(hist[:-1]), r[2], ref[1] if ref[0] == 'ok' else ref)
            if ref[0] == 'ok' and not _close(r[1], ref[1], 1e-9 * abs(ref[1]) + 1e-300) and not (
                    not math.isfinite(ref[1]) and not math.isfinite(r[1])):
                return 'zero-ns Taylor TS (%s) on a %s LLH-ratio object with history [%s] is %r; on a freshly prepared object it is %r' % (
                    how, case['obj'], ' '.join(hist[:-1]), r[1], ref[1])
            last = 0.0
    return None


def o_ana_chain(ctx, case):
    """Analysis.calculate_test_statistic called with the keywords of the real call sites must work for every
    TestStatistic class and every fit result (ns <0, =0, >0)"""
    from skyllh.core.analysis import SingleSourceMultiDatasetLLHRatioAnalysis
    import skyllh.core.test_statistic as tsm
    sig = extract_signatures()
    fx, b, llh = _build(case)
    ns = _f(case['ns'])
    fp = fx.fitparam_values(b.pmm, ns)
    (ll, grads) = llh.evaluate(fp)
    idx = b.pmm.get_gflp_idx(name='ns')
    avail = {'log_lambda': ll, 'fitparam_values': fp, 'llhratio': llh, 'tl': None, 'grads': grads}
    for cname, _p, _r, _k in sig['ts_impls']:
        tsobj = getattr(tsm, cname)()
        ana = SingleSourceMultiDatasetLLHRatioAnalysis(
            cfg=b.cfg, shg_mgr=b.shg_mgr, pmm=b.pmm, test_statistic=tsobj)
        ana.llhratio = llh
        for site, npos, kws in sig['sites']:
            unknown = [k for k in kws if k not in avail]
            if unknown or npos > 2:
                continue
            pos = [ll, fp][:npos]
            (ll, grads) = llh.evaluate(fp)
            v, err = _call(lambda: float(ana.calculate_test_statistic(*pos, **{k: avail[k] for k in kws})))
            if err:
                return ('%s: calculate_test_statistic(%s) with test statistic %s at ns=%r raised %s' % (
                    site, ', '.join(kws), cname, ns, err))
            direct, derr = _call(lambda: float(tsobj(pmm=b.pmm, log_lambda=ll, fitparam_values=fp, llhratio=llh, grads=grads)))
            if derr is None and not _close(v, direct, 1e-12 * abs(direct)):
                return '%s: calculate_test_statistic gives %r, the test statistic called directly %r' % (site, v, direct)
    return None


# ------------------------------------------------------------------------------------------
# p-values

def _scalar_form(v, form):
    """a scalar argument as Python float / numpy scalar / 0-d array / Python int (when integral)"""
    if form == 'np64':
        return np.float64(v)
    if form == 'arr0d':
        return np.array(v, dtype=np.float64)
    if form == 'int' and float(v).is_integer() and abs(v) < 2 ** 53:
        return int(v)
    return float(v)


def _sample_form(vals, shape):
    """the (n_trials,)-shaped sample as a contiguous / non-contiguous / read-only 1-d array"""
    if shape in ('strided', 'ro'):
        return _mk(vals, shape)
    return np.array(_fl(vals), dtype=np.float64)


def impl_pv(case):
    from skyllh.core.utils.analysis import calculate_pval_from_trials
    tsv = _sample_form(case['tsv'], case.get('shape'))
    thr = _scalar_form(_f(case['thr']), case.get('thr_form'))
    op = case.get('op')
    try:
        with np.errstate(all='ignore'):
            if op is None:
                (p, s) = calculate_pval_from_trials(tsv, thr)
            elif case.get('op_pos'):
                (p, s) = calculate_pval_from_trials(tsv, thr, OPS[op])          # comp_operator positionally
            else:
                (p, s) = calculate_pval_from_trials(tsv, thr, comp_operator=OPS[op])
        return ('ok', float(p), float(s))
    except ZeroDivisionError:
        return ('err', 'Z')
    except ValueError:
        return ('err', 'V')
    except Exception as e:  # noqa
        return ('err', type(e).__name__)


def o_pval(ctx, case):
    """range, exact brute-force count, inclusive >= strict, non-increasing in the threshold, p_sigma"""
    tsv = _fl(case['tsv'])
    thrs = sorted(_fl(case['thrs']))
    n = len(tsv)
    prev = {}
    for thr in thrs:
        res = {}
        for op in (0, 1):
            r = impl_pv({'tsv': tsv, 'thr': thr, 'op': op})
            if r[0] != 'ok':
                if n == 0 and r == ('err', 'Z'):
                    continue
                return 'calculate_pval_from_trials(%d trials, thr=%r, %s) raised %s' % (n, thr, OPS[op], r[1])
            p, s = r[1], r[2]
            if not (0.0 <= p <= 1.0):
                return 'p-value %r outside [0,1] (thr=%r, %s, trials %r)' % (p, thr, OPS[op], tsv)
            k = sum(1 for x in tsv if (x > thr if op == 0 else x >= thr))
            if Fraction(p) != Fraction(k / n):
                return 'p-value %r for thr=%r (%s) but %d of the %d trials %r are %s the threshold' % (
                    p, thr, OPS[op], k, n, tsv if n <= 12 else '...', '>' if op == 0 else '>=')
            want_s = math.sqrt(p * (1 - p) / n)
            if not _close(s, want_s, 1e-12 * want_s + 1e-300):
                return 'p_sigma %r, binomial sqrt(p(1-p)/n) = %r' % (s, want_s)
            res[op] = p
            if op in prev and p > prev[op][1]:
                return 'p-value increases with the threshold: p(thr=%r)=%r < p(thr=%r)=%r (%s)' % (
                    prev[op][0], prev[op][1], thr, p, OPS[op])
            prev[op] = (thr, p)
        if 0 in res and res[1] < res[0]:
            return 'inclusive p-value %r is smaller than the strict one %r at thr=%r' % (res[1], res[0], thr)
    return None


class _GammaRecorder(object):
    def __init__(self):
        self.calls = []

    def __call__(self, ts_vals, ts_threshold, eta=3.0, n_max=500000):
        self.calls.append((float(eta), int(n_max), float(ts_threshold), int(len(ts_vals)),
                           [float(v) for v in np.asarray(ts_vals).ravel()[:64]]))
        return (0.5, 0.0)


def impl_mix(case):
    import skyllh.core.utils.analysis as ua
    tsv = _sample_form(case['tsv'], case.get('shape'))
    kw = {}
    if case.get('switch') is not None:
        kw['switch_at_ts'] = _scalar_form(_f(case['switch']), case.get('thr_form'))
    if case.get('eta') is not None:
        kw['eta'] = _f(case['eta'])
    if case.get('op') is not None:
        kw['comp_operator'] = OPS[case['op']]
    if case.get('n_max') is not None:
        kw['n_max'] = int(case['n_max'])
    rec = _GammaRecorder()
    orig = ua.calculate_pval_from_gammafit_to_trials
    ua.calculate_pval_from_gammafit_to_trials = rec
    try:
        with np.errstate(all='ignore'):
            r = ua.calculate_pval_from_trials_mixed(tsv, _scalar_form(_f(case['thr']), case.get('thr_form')), **kw)
        if rec.calls:
            # everything handed to the gamma fit: eta, n_max, threshold, sample (length + leading values), and what comes back
            c = rec.calls[0]
            return ('G', c[0], c[1], c[2], c[3], c[4] == [float(v) for v in tsv.ravel()[:64]], (float(r[0]), float(r[1])) == (0.5, 0.0), len(rec.calls))
        return ('T', 'ok', float(r[0]), float(r[1]))
    except ZeroDivisionError:
        return ('T', 'err', 'Z')
    except ValueError:
        return ('T', 'err', 'V')
    finally:
        ua.calculate_pval_from_gammafit_to_trials = orig


def o_mixed(ctx, case):
    """documented routing: below switch_at_ts the p-value is taken from the trials directly (same numbers as
    calculate_pval_from_trials with that operator), otherwise the gamma fit is used with eta defaulting to
    switch_at_ts"""
    thr = _f(case['thr'])
    sw = 3.0 if case.get('switch') is None else _f(case['switch'])
    op = 1 if case.get('op') is None else case['op']
    r = impl_mix(case)
    if thr < sw:
        d = impl_pv({'tsv': case['tsv'], 'thr': thr, 'op': op})
        want = ('T',) + d
        if r != want and not (r[:2] == want[:2] == ('T', 'ok') and _same(r[2], want[2]) and _same(r[3], want[3])):
            return 'mixed p-value below the switch (thr=%r < %r, %s) gives %r, calculate_pval_from_trials gives %r' % (thr, sw, OPS[op], r, d)
    else:
        eta = sw if case.get('eta') is None else _f(case['eta'])
        want = _mix_gamma_expect(case, eta)
        if r != want:
            return ('mixed p-value at thr=%r >= switch %r: expected one call of the gamma fit with (eta, n_max, threshold, number of '
                    'trials, same sample, result passed through) = %r, got %r' % (thr, sw, want[1:], r))
    return None


def _mix_gamma_expect(case, eta):
    n_max = 500000 if case.get('n_max') is None else int(case['n_max'])
    return ('G', float(eta), n_max, _f(case['thr']), len(case['tsv']), True, True, 1)


def _chi2_sample(seed, n):
    rs = np.random.RandomState(int(seed))
    return np.where(rs.uniform(size=n) < 0.5, 0.0, rs.chisquare(1, size=n))


def impl_pg(case):
    """the real calculate_pval_from_gammafit_to_trials; the parameters iminuit found are observed by wrapping the
    module-level `minimize` (passed through unchanged) -> ('ok', p, sf(eta), sf(thr)) | ('err', tag) | ('unobservable',)"""
    import skyllh.core.utils.analysis as ua
    from scipy.stats import gamma
    ts = _chi2_sample(case['seed'], case['n'])
    rec = []
    orig = ua.minimize

    def wrap(*a, **k):
        r = orig(*a, **k)
        rec.append([float(v) for v in r.x])
        return r
    ua.minimize = wrap
    try:
        with warnings.catch_warnings():
            warnings.simplefilter('ignore')
            with np.errstate(all='ignore'):
                p = ua.calculate_pval_from_gammafit_to_trials(ts, _f(case['thr']), eta=_f(case['eta']), n_max=int(case['n_max']))[0]
    except ValueError:
        return ('err', 'V')
    except ZeroDivisionError:
        return ('err', 'Z')
    finally:
        ua.minimize = orig
    if len(rec) != 1:
        return ('unobservable',)
    a, sc = rec[0]
    return ('ok', float(p), float(gamma.sf(_f(case['eta']), a=a, scale=sc)), float(gamma.sf(_f(case['thr']), a=a, scale=sc)))


def o_gamma_real(ctx, case):
    """the mixed helper with the REAL gamma fit (iminuit) on a chi2-like sample generated from case['seed']: every value
    lies in [0,1]; ValueError exactly for thresholds in [switch, eta) (documented for the gamma fit); and the p-value is
    non-increasing in the threshold — also across the switch"""
    import skyllh.core.utils.analysis as ua
    if not ua.IMINUIT_LOADED:
        return None
    ts = _chi2_sample(case['seed'], case['n'])
    sw = 3.0 if case.get('switch') is None else _f(case['switch'])
    eta = sw if case.get('eta') is None else _f(case['eta'])
    kw = {}
    if case.get('switch') is not None:
        kw['switch_at_ts'] = sw
    if case.get('eta') is not None:
        kw['eta'] = eta
    prev = None
    for thr in sorted(_fl(case['thrs'])):
        try:
            with warnings.catch_warnings():
                warnings.simplefilter('ignore')
                with np.errstate(all='ignore'):
                    p = float(ua.calculate_pval_from_trials_mixed(ts, thr, **kw)[0])
        except ValueError:
            if sw <= thr < eta:
                continue
            return 'calculate_pval_from_trials_mixed(thr=%r, switch=%r, eta=%r) raised ValueError outside [switch, eta)' % (thr, sw, eta)
        except Exception as e:  # noqa
            return 'calculate_pval_from_trials_mixed(thr=%r) raised %s: %s' % (thr, type(e).__name__, e)
        if sw <= thr < eta:
            return 'calculate_pval_from_trials_mixed(thr=%r) returned %r for a threshold below the truncation point eta=%r of the gamma fit' % (thr, p, eta)
        if not (0.0 <= p <= 1.0):
            return 'mixed p-value %r outside [0,1] at thr=%r (switch %r, eta %r)' % (p, thr, sw, eta)
        if prev is not None and p > prev[1] * (1 + 1e-9):
            return ('mixed p-value increases with the threshold: p(%r) = %r < p(%r) = %r (switch_at_ts=%r, eta=%r%s, %d chi2-like trials, seed %d)' % (
                prev[0], prev[1], thr, p, sw, eta, ' given explicitly' if case.get('eta') is not None else ' (default)', case['n'], case['seed']))
        prev = (thr, p)
    return None


# ------------------------------------------------------------------------------------------
# polynomial inversion

def _polyfit(x, y, deg, w):
    with warnings.catch_warnings():
        warnings.simplefilter('ignore')
        return [float(c) for c in np.polyfit(x, y, deg, w=w, cov=True)[0]]


def impl_poly(case):
    from skyllh.core.utils.analysis import polynomial_fit
    x, y, w = _fl(case['x']), _fl(case['y']), _fl(case['w'])
    try:
        with warnings.catch_warnings():
            warnings.simplefilter('ignore')
            with np.errstate(all='ignore'):
                deg = {'np': np.int64, 'float': float}.get(case.get('deg_form'), int)(case['deg'])
                if case.get('seq_form') == 'tuple':
                    x, y, w = tuple(x), tuple(y), tuple(w)
                elif case.get('seq_form') == 'mixed':
                    x, y, w = np.array(x), tuple(y), list(w)
                v = polynomial_fit(x, y, w, deg, _scalar_form(_f(case['pthr']), case.get('thr_form')))
        return ('ok', float(v))
    except ValueError:
        return ('err', 'V')
    except Exception as e:  # noqa
        return ('err', type(e).__name__)


def _root_tol(a, b, c, p, x):
    """first-order bound on |fitted(x) - p| for a root computed in double precision by the quadratic formula"""
    eps = 2.3e-16
    D = b * b - 4 * a * (c - p)
    sD = math.sqrt(max(D, 0.0))
    scale = abs(a * x * x) + abs(b * x) + abs(c) + abs(p)
    err_num = 4 * eps * (abs(b) + sD) + eps * (b * b + abs(4 * a * (c - p))) / (2 * max(sD, 1e-300))
    err_x = err_num / abs(2 * a) + 4 * eps * abs(x)
    return 16 * (sD * err_x + abs(a) * err_x * err_x) + 1e-12 * scale


def _on_line(v, prm, p):
    a, b = prm
    return abs(a * v + b - p) <= 1e-12 * (abs(a * v) + abs(b) + abs(p))


def o_poly(ctx, case):
    """for every monotone noisy curve polynomial_fit returns a finite signal strength at which the curve fitted by
    np.polyfit takes the value p_thr: the degree-`deg` fit, or — degree 2 only — the straight-line fit when the fitted
    parabola opens upwards or never reaches p_thr; on a parabola the root on the rising branch.  The only exemption is a
    fitted curve with an exactly vanishing leading coefficient (no such signal strength exists)."""
    x, y, w, deg, p = _fl(case['x']), _fl(case['y']), _fl(case['w']), case['deg'], _f(case['pthr'])
    r = impl_poly(case)
    if deg not in (1, 2):
        return None if r == ('err', 'V') else 'polynomial_fit with deg=%r returned %r instead of raising ValueError' % (deg, r)
    if r[0] != 'ok':
        return 'polynomial_fit(deg=%d) raised %s' % (deg, r[1])
    v = r[1]
    line = _polyfit(x, y, 1, w)
    if deg == 1:
        curve, must_line, may_line = None, True, True
    else:
        a, b, c = curve = _polyfit(x, y, 2, w)
        D = Fraction(b) ** 2 - 4 * Fraction(a) * (Fraction(c) - Fraction(p))
        near = abs(float(D)) <= 1e-12 * (b * b + abs(4 * a * (c - p)))
        must_line = (a > 0 or D < 0) and not near
        may_line = a > 0 or D < 0 or near
    if not math.isfinite(v):
        if (may_line and line[0] == 0) or (not must_line and curve is not None and curve[0] == 0):
            return None                     # a fitted curve the policy may use is exactly flat: explicitly exempt
        if deg == 2 and not (a > 0) and D < 0:
            return ('polynomial_fit(deg=2, p_thr=%r) returned %r for a monotone noisy curve: the fitted parabola %r has its apex %r '
                    'below p_thr, no fall-back is taken and no signal strength is returned (data x=%r, y=%r)' % (
                        p, v, curve, c - b * b / (4 * a) if a != 0 else c, x, y))
        return 'polynomial_fit(deg=%d, p_thr=%r) returned %r although the fitted curve reaches p_thr' % (deg, p, v)
    if may_line and line[0] != 0 and _on_line(v, line, p):
        return None
    if must_line:
        return ('polynomial_fit(deg=%d%s, p_thr=%r) = %r but the fitted line %r takes the value %r there' % (
            deg, ', fall-back to 1' if deg == 2 else '', p, v, line, line[0] * v + line[1]))
    res = abs(float(Fraction(a) * Fraction(v) ** 2 + Fraction(b) * Fraction(v) + Fraction(c) - Fraction(p)))
    if a == 0 or not (res <= _root_tol(a, b, c, p, v)):
        return 'polynomial_fit(deg=2, p_thr=%r) = %r but the fitted parabola %r takes the value %r there' % (
            p, v, curve, a * v * v + b * v + c)
    slope = 2 * a * v + b
    if slope < -(1e-9 * (abs(2 * a * v) + abs(b)) + 4 * _root_tol(a, b, c, p, v) / max(abs(v), 1e-300)):
        return ('polynomial_fit(deg=2, p_thr=%r) = %r lies on the falling branch of the fitted parabola %r '
                '(slope %r); the other root %r is the one on the rising branch' % (p, v, curve, slope, -b / a - v))
    return None


def o_poly_data(ctx, case):
    """a `pfd` case as a property oracle: for a sample np.polyfit accepts (equal lengths, at least deg + 2 points, degree 1 or 2)
    the inversion oracle `poly`; the argument checks of np.polyfit themselves are a contract of the model correspondence only"""
    x, y, w, deg = _fl(case['x']), _fl(case['y']), _fl(case['w']), case['deg']
    if deg not in (1, 2) or not (len(x) == len(y) == len(w)) or len(x) <= deg + 1:
        return None
    try:
        _polyfit(x, y, deg, w)
        _polyfit(x, y, 1, w)
    except Exception:  # noqa
        return None
    return o_poly(ctx, dict(case, kind='poly'))


def o_poly_equivariance(ctx, case):
    """the inversion does not depend on the unit or origin of the signal-strength axis: fitting p against lam*ns returns
    lam times the signal strength (lam a power of two: every intermediate quantity scales exactly, so even the branch
    decisions are identical), and fitting against ns + s returns the signal strength + s (away from the branch
    boundaries a = 0 and D = 0, where rounding of the fit may flip the branch)"""
    x, y, w, deg, p = _fl(case['x']), _fl(case['y']), _fl(case['w']), case['deg'], _f(case['pthr'])
    if deg not in (1, 2):
        return None
    r0 = impl_poly(case)
    if r0[0] != 'ok':
        return None
    v0 = r0[1]
    span = max(x) - min(x)
    for lam in (1024.0, 1.0 / 128.0, 2.0 ** 20):
        r = impl_poly(dict(case, x=[lam * t for t in x]))
        if r[0] != 'ok' or math.isfinite(r[1]) != math.isfinite(v0) or (
                math.isfinite(v0) and not _close(r[1], lam * v0, 1e-9 * lam * (abs(v0) + span))):
            return ('polynomial_fit(deg=%d, p_thr=%r) = %r for the signal strengths x=%r, but %r for %r * x (expected %r): the result '
                    'depends on the unit of the signal-strength axis (y=%r)' % (deg, p, v0, x, r[1] if r[0] == 'ok' else r, lam, lam * v0, y))
    if not math.isfinite(v0):
        return None
    try:
        a2, b2, c2 = _polyfit(x, y, 2, w) if deg == 2 else (0.0, 1.0, 0.0)
    except Exception:  # noqa
        return None
    if deg == 2:
        D = b2 * b2 - 4 * a2 * (c2 - p)
        sc = b2 * b2 + abs(4 * a2 * (c2 - p))
        # conditioning of the root w.r.t. the fitted coefficients: stay away from a = 0, D = 0 and far extrapolation
        if abs(D) < 1e-3 * sc or abs(a2) * span * span < 1e-3 * (abs(b2) * span + abs(a2) * span * span) or abs(v0 - min(x)) > 10 * span:
            return None
    elif abs(v0 - min(x)) > 10 * span:
        return None
    for sft in (span, -3.0 * span):
        r = impl_poly(dict(case, x=[t + sft for t in x]))
        if r[0] != 'ok' or not math.isfinite(r[1]) or not _close(r[1], v0 + sft, 1e-6 * (abs(v0 - min(x)) + span)):
            return ('polynomial_fit(deg=%d, p_thr=%r) = %r for x=%r, but %r for x + %r (expected %r): the result depends on the '
                    'origin of the signal-strength axis (y=%r)' % (deg, p, v0, x, r[1] if r[0] == 'ok' else r, sft, v0 + sft, y))
    return None


# ------------------------------------------------------------------------------------------
# purity of every helper: no writes into caller arrays, same objects twice -> same result, any input form

FORMS = ('f64', 'ro', 'strided', 'int', 'f32', 'list')


def _mk(vals, form):
    """the values as list / float64 / read-only float64 / non-contiguous float64 view / int64 / float32"""
    vals = _fl(vals)
    if form == 'list':
        return list(vals)
    if form == 'int':
        return np.array([int(v) for v in vals], dtype=np.int64)
    a = np.array(vals, dtype=np.float64)
    if form == 'f32':
        return a.astype(np.float32)
    if form == 'strided':
        b = np.empty(2 * len(a) + 1, dtype=np.float64)
        b[:] = -777.0
        b[1::2] = a
        return b[1::2]
    if form == 'ro':
        a.flags.writeable = False
    return a


def _snap(o):
    if isinstance(o, np.ndarray):
        base = o.base if isinstance(o.base, np.ndarray) else o
        return (o.dtype.str, o.shape, o.tobytes(), base.tobytes())
    return ('list', [repr(v) for v in o])


def _norm(fn):
    try:
        with warnings.catch_warnings():
            warnings.simplefilter('ignore')
            with np.errstate(all='ignore'):
                r = fn()
        if isinstance(r, tuple):
            return ('ok',) + tuple(float(v) for v in r)
        return ('ok', float(r))
    except Exception as e:  # noqa
        return ('err', type(e).__name__, str(e)[:120])


def _mixed_with_recorder(tsv, thr, kw):
    import skyllh.core.utils.analysis as ua
    rec = _GammaRecorder()
    orig = ua.calculate_pval_from_gammafit_to_trials
    ua.calculate_pval_from_gammafit_to_trials = rec
    try:
        r = ua.calculate_pval_from_trials_mixed(tsv, thr, **kw)
        return (r[0], r[1], float(len(rec.calls)), rec.calls[0][0] if rec.calls else -1.0, float(rec.calls[0][1]) if rec.calls else -1.0)
    finally:
        ua.calculate_pval_from_gammafit_to_trials = orig


def _purity_setup(case):
    """-> (names of array arguments, make(form) -> dict of argument objects, call(objs, params) -> result)"""
    h = case['helper']
    if h in ('pval', 'mixed'):
        from skyllh.core.utils.analysis import calculate_pval_from_trials

        def make(form):
            return {'tsv': _mk(case['tsv'], form)}

        def call(o, q):
            kw = {} if q.get('op') is None else {'comp_operator': OPS[q['op']]}
            if h == 'pval':
                return calculate_pval_from_trials(o['tsv'], _f(q['thr']), **kw)
            if q.get('switch') is not None:
                kw['switch_at_ts'] = _f(q['switch'])
            return _mixed_with_recorder(o['tsv'], _f(q['thr']), kw)
        return make, call
    if h == 'poly':
        from skyllh.core.utils.analysis import polynomial_fit

        def make(form):
            return {'x': _mk(case['x'], form), 'y': _mk(case['y'], 'f64' if form == 'int' else form),
                    'w': _mk(case['w'], 'f64' if form == 'int' else form)}

        def call(o, q):
            return polynomial_fit(o['x'], o['y'], o['w'], q['deg'], _f(q['pthr']))
        return make, call
    if h in ('ts', 'tst'):
        pmm, idx, fp0 = _fp_of(case)
        g0 = [0.125 * (i + 1) for i in range(len(fp0))]
        g0[idx] = _f(case.get('a', 0.0))
        tsobj = _ts_new('wilks' if h == 'ts' else 'taylor', case['layout'])

        def make(form):
            return {'fp': _mk(fp0.tolist(), form), 'grads': _mk(g0, 'f64' if form == 'int' else form)}

        def call(o, q):
            kw = dict(pmm=pmm, log_lambda=np.float64(_f(q['ll'])), fitparam_values=o['fp'])
            if h == 'tst':
                kw['llhratio'] = _StubLLH(_f(case['b']), g0)
                kw['grads'] = o['grads']
            return tsobj(**kw)
        return make, call
    raise ValueError(h)


def _res_same(a, b):
    if a[0] != b[0] or len(a) != len(b):
        return False
    if a[0] == 'err':
        return a[1] == b[1]
    return all(_same(x, y) for x, y in zip(a[1:], b[1:]))


def o_purity(ctx, case):
    """a helper is a pure function of its arguments: it never writes into the caller's arrays, accepts read-only /
    non-contiguous / int / float32 arrays (and lists where array_like is documented) with the result of the plain
    float64 call, and calling it again with the same argument objects (same or other scalar parameters) gives what
    fresh copies of the data give"""
    h, form = case['helper'], case['form']
    make, call = _purity_setup(case)
    q1, q2 = case['first'], case['second']
    what = '%s with %s input' % (h, {'f64': 'float64 ndarray', 'ro': 'read-only float64 ndarray', 'strided': 'non-contiguous float64 view',
                                      'int': 'int64 ndarray', 'f32': 'float32 ndarray', 'list': 'list'}[form])
    ref1 = _norm(lambda: call(make('f64'), q1))
    objs = make(form)
    before = {k: _snap(v) for k, v in objs.items()}
    r1 = _norm(lambda: call(objs, q1))
    for k, v in objs.items():
        if _snap(v) != before[k]:
            return '%s: the call %r wrote into the caller\'s argument %r (before %r, after %r)' % (
                what, q1, k, _fl(case.get(k, [])) if k in case else '...', np.asarray(v).tolist())
    if ref1[0] == 'ok' and r1[0] != 'ok':
        return '%s: the call %r raised %s: %s, with a float64 ndarray it returns %r' % (what, q1, r1[1], r1[2], ref1[1:])
    if ref1[0] == 'ok':
        tol = 1e-3 if form == 'f32' else 0.0
        for a, b in zip(r1[1:], ref1[1:]):
            if not _close(a, b, tol * (abs(b) + 1e-300)):
                return '%s: the call %r returns %r, with a float64 ndarray of the same values %r' % (what, q1, r1[1:], ref1[1:])
    r1b = _norm(lambda: call(objs, q1))
    if not _res_same(r1b, r1):
        return '%s: two calls with the same argument objects and %r return %r and then %r' % (what, q1, r1[1:], r1b[1:])
    r2 = _norm(lambda: call(objs, q2))
    fresh2 = _norm(lambda: call(make(form), q2))
    if not _res_same(r2, fresh2):
        return '%s: after a call with %r, the call %r on the same argument objects returns %r; on fresh copies of the data it returns %r' % (
            what, q1, q2, r2[1:], fresh2[1:])
    for k, v in objs.items():
        if _snap(v) != before[k]:
            return '%s: the calls wrote into the caller\'s argument %r' % (what, k)
    return None


# ------------------------------------------------------------------------------------------
# Python keyword binding: real interpreter

def impl_bind(case):
    params, required, kwargs, npos, kws = case['params'], case['required'], case['kwargs'], case['npos'], case['kws']
    parts = [p if p in required else p + '=None' for p in params]
    if kwargs:
        parts.append('**kwargs')
    ns = {}
    exec('def f(%s):\n    return None\n' % ', '.join(parts), ns)
    try:
        ns['f'](*([0] * npos), **{k: 0 for k in kws})
        return 'ok'
    except TypeError as e:
        m = str(e)
        names = re.findall(r"'(\w+)'", m)
        if 'unexpected keyword' in m:
            return 'err unexp:' + names[0]
        if 'multiple values' in m:
            return 'err multi:' + names[0]
        if 'positional argument' in m and 'missing' not in m:
            return 'err pos'
        if 'missing' in m:
            return 'err miss:' + ','.join(names)
        return 'err ?' + m


def impl_fwd(case):
    got = {}

    def inner(**kw):
        got['k'] = list(kw)
    ns = {'inner': inner}
    exec('def outer(%s**kwargs):\n    return inner(%s**kwargs)\n' % (
        ''.join(p + '=None, ' for p in case['outer']), ''.join('%s=0, ' % k for k in case['fixed'])), ns)
    try:
        ns['outer'](**{k: 0 for k in case['kws']})
    except TypeError:
        return 'err'
    return ','.join(got['k']) if got['k'] else '-'


def _names(xs):
    return ','.join(xs) if xs else '-'


# ------------------------------------------------------------------------------------------
# correspondence: request line(s), implementation answer, comparison

def corr_request(case):
    k = case['kind']
    if k in ('ts', 'tst') and 'layout' in case:
        names, name = _names_of(case)
        pmm, idx, fp = _fp_of(case)
        if k == 'ts':
            return 'tsc %s %s %s %s' % (_names(names), name, flist(fp), f2b(_f(case['ll'])))
        grads = [0.125 * (i + 1) for i in range(max(len(fp), idx + 1))]
        grads[idx] = _f(case['a'])
        return 'tstc %s %s %s %s %s %s' % (_names(names), name, flist(fp), f2b(_f(case['ll'])), flist(grads), f2b(_f(case['b'])))
    if k == 'ts':
        return 'ts %s %s' % (f2b(_f(case['ns'])), f2b(_f(case['ll'])))
    if k == 'tst':
        return 'tst %s %s %s %s' % tuple(f2b(_f(case[q])) for q in ('ns', 'll', 'a', 'b'))
    if k == 'pv':
        op = 0 if case.get('op') is None else case['op']
        return 'pv %d %s %s' % (op, flist(_fl(case['tsv'])), f2b(_f(case['thr'])))
    if k == 'pg':
        r = impl_pg(case)
        case['_impl'] = r
        sfe, sft = (r[2], r[3]) if r[0] == 'ok' else (1.0, 1.0)
        return 'pg %s %d %s %s %s %s' % (flist(_chi2_sample(case['seed'], case['n'])), int(case['n_max']), f2b(_f(case['thr'])),
                                         f2b(_f(case['eta'])), f2b(sfe), f2b(sft))
    if k == 'mix':
        op = 1 if case.get('op') is None else case['op']
        sw = 3.0 if case.get('switch') is None else _f(case['switch'])
        eta = 'none' if case.get('eta') is None else f2b(_f(case['eta']))
        return 'mix %d %s %s %s %s' % (op, flist(_fl(case['tsv'])), f2b(_f(case['thr'])), f2b(sw), eta)
    if k == 'poly':
        x, y, w, deg = _fl(case['x']), _fl(case['y']), _fl(case['w']), case['deg']
        try:
            pd = _polyfit(x, y, deg, w)
            p1 = _polyfit(x, y, 1, w)
        except Exception:  # noqa
            pd, p1 = [], []
        return 'poly %d %s %s %s' % (deg, flist(pd), flist(p1), f2b(_f(case['pthr'])))
    if k == 'pfd':
        return r7.request(case, _fl, _f)
    if k == 'bind':
        return 'bind %s %s %d %d %s' % (_names(case['params']), _names(case['required']), 1 if case['kwargs'] else 0,
                                         case['npos'], _names(case['kws']))
    if k == 'fwd':
        return 'fwd %s %s %s' % (_names(case['outer']), _names(case['fixed']), _names(case['kws']))
    raise ValueError(k)


def _cmp_tst(v, err, model):
    """Taylor TS: `notfinite` of the model <-> a non-finite float of the implementation"""
    if err:
        return 'tst: implementation %s, model %s' % (err, model)
    if model == 'notfinite':
        return None if not math.isfinite(v) else 'tst: implementation %r, model: no finite value (b = 0, a != 0)' % v
    m = b2f(model)
    if not _close(v, m, 1e-12 * abs(m)):
        return 'tst: implementation %r, model %r' % (v, m)
    return None


def corr_compare(case, model):
    """None | text; implementation is run here"""
    k = case['kind']
    if k == 'ts':
        v, err = impl_ts(case)
        if model in ('K', 'I'):
            want = 'KeyError' if model == 'K' else 'IndexError'
            return None if (err and err.startswith(want)) else 'ts: implementation %s, model %s' % (err or repr(v), want)
        m = b2f(model)
        if err or not _same(v, m):
            return 'ts: implementation %s, model %r' % (err or repr(v), m)
        return None
    if k == 'tst':
        v, err, calls, idx = impl_tst(case)
        if model in ('K', 'I'):
            want = 'KeyError' if model == 'K' else 'IndexError'
            return None if (err and err.startswith(want)) else 'tst: implementation %s, model %s' % (err or repr(v), want)
        return _cmp_tst(v, err, model)
    if k == 'pv':
        r = impl_pv(case)
        t = model.split(' ')
        if t[0] == 'err':
            return None if r == ('err', t[1]) else 'pv: implementation %r, model %s' % (r, model)
        kk, n, p, s = int(t[1]), int(t[2]), b2f(t[3]), b2f(t[4])
        if r[0] != 'ok' or Fraction(r[1]) != Fraction(kk / n) or not _same(r[1], p) or not _close(r[2], s, 1e-12 * abs(s) + 1e-300):
            return 'pv: implementation %r, model k=%d n=%d p=%r sigma=%r' % (r, kk, n, p, s)
        return None
    if k == 'pg':
        r = case.pop('_impl', None) or impl_pg(case)
        t = model.split(' ')
        if r[0] == 'unobservable':
            return None
        if t[0] == 'err':
            return None if r == ('err', t[1]) else 'pg: implementation %r, model %s' % (r, model)
        m = b2f(t[1])
        if r[0] != 'ok' or not _close(r[1], m, 1e-12 * abs(m)):
            return 'pg: implementation %r, model alpha/sf(eta)*sf(thr) = %r' % (r, m)
        return None
    if k == 'mix':
        r = impl_mix(case)
        t = model.split(' ')
        if t[0] == 'G':
            want = _mix_gamma_expect(case, b2f(t[1]))
            return None if r == want else 'mix: implementation %r, model gamma fit %r' % (r, want)
        if t[1] == 'err':
            return None if r == ('T', 'err', t[2]) else 'mix: implementation %r, model %s' % (r, model)
        p, s = b2f(t[4]), b2f(t[5])
        if r[:2] != ('T', 'ok') or not _same(r[2], p) or not _close(r[3], s, 1e-12 * abs(s) + 1e-300):
            return 'mix: implementation %r, model trials p=%r sigma=%r' % (r, p, s)
        return None
    if k == 'poly':
        r = impl_poly(case)
        t = model.split(' ')
        x, y, w = _fl(case['x']), _fl(case['y']), _fl(case['w'])
        p = _f(case['pthr'])
        near = False
        if case['deg'] == 2:
            try:
                a2, b2, c2 = _polyfit(x, y, 2, w)
                near = abs(b2 * b2 - 4 * a2 * (c2 - p)) <= 1e-12 * (b2 * b2 + abs(4 * a2 * (c2 - p))) or abs(a2) < 1e-300
            except Exception:  # noqa
                pass
        if t[0] == 'err':
            if t[1] == 'I':
                # np.polyfit failed in the harness for this sample: the implementation must fail as well
                return None if r[0] == 'err' else 'poly: np.polyfit rejects the sample but polynomial_fit returned %r' % (r,)
            if t[1] == 'N':
                ok = r[0] == 'ok' and not math.isfinite(r[1])
                return None if (ok or near) else 'poly: implementation %r, model: no finite signal strength (zero leading coefficient)' % (r,)
            return None if r == ('err', t[1]) else 'poly: implementation %r, model %s' % (r, model)
        m, du = b2f(t[1]), int(t[2])
        if r[0] != 'ok':
            return 'poly: implementation %r, model %r (degree %d)' % (r, m, du)
        v = r[1]
        prm = _polyfit(x, y, du, w)
        if du == 1:
            mag = (abs(p) + abs(prm[1])) / abs(prm[0]) if prm[0] != 0 else float('inf')
        else:
            a, b, c = prm
            D = b * b - 4 * a * (c - p)
            mag = (abs(b) + math.sqrt(abs(D))) / abs(2 * a) if a != 0 else float('inf')
            # near a double root the square root amplifies rounding of the discriminant
            mag += math.sqrt(1e-7 * (b * b + abs(4 * a * (c - p)))) / abs(2 * a) if a != 0 else 0.0
        if math.isfinite(v) != math.isfinite(m) or not _close(v, m, 1e-9 * mag):
            if near and math.isfinite(v):
                # the sign of a discriminant that vanishes within rounding decides the branch: either curve is acceptable
                l1 = _polyfit(x, y, 1, w)
                if _on_line(v, l1, p) or abs(a2 * v * v + b2 * v + c2 - p) <= 1e-6 * (abs(a2 * v * v) + abs(b2 * v) + abs(c2) + abs(p)):
                    return None
            return 'poly: implementation %r, model %r (degree %d used, coefficients %r)' % (v, m, du, prm)
        return None
    if k == 'bind':
        r = impl_bind(case)
        return None if r == model else 'bind: interpreter %r, model %r' % (r, model)
    if k == 'fwd':
        r = impl_fwd(case)
        return None if r == model else 'fwd: interpreter %r, model %r' % (r, model)
    raise ValueError(k)


# ------------------------------------------------------------------------------------------
# branch coverage of the modelled functions (which branch of the model a correspondence case went through)

ALL_BRANCHES = [
    'gflpIdx:found', 'gflpIdx:keyError', 'tsCall:indexError', 'sgnNs:ns=0', 'npSign:ns<0', 'npSign:ns>0',
    'tsTaylor:ns=0', 'tsTaylor:ns!=0', 'tsApex?:flat(a=0,b=0)', 'tsApex?:notfinite(a!=0,b=0)', 'tsApex?:quotient',
    'isStable:true', 'isStable:false', 'LlhSt.grad2:no-cache', 'LlhSt.grad2:cache',
    'MultiSt.grad2:noWeights', 'MultiSt.grad2:shape', 'MultiSt.grad2:child-runtime', 'MultiSt.grad2:ok',
    'ProfSt.grad2:valueError', 'ProfSt.grad2:delegate', 'ProfSt.llr:no-logL0', 'ProfSt.llr:value', 'tsTaylorOnProf:noLogL0',
    'pvalCounts:other-operator', 'pvalCounts:greater:empty', 'pvalCounts:greater:ok', 'pvalCounts:greater_equal:empty',
    'pvalCounts:greater_equal:ok', 'pvalMixed:trials', 'pvalMixed:gamma:eta-default', 'pvalMixed:gamma:eta-given',
    'pGamma:valueError', 'pGamma:zeroDivision', 'pGamma:ok', 'truncSample:truncated', 'truncSample:whole',
    'polySwitch:opens-upwards', 'polySwitch:never-reaches-p_thr', 'polySwitch:no', 'polyFit:line:ok', 'polyFit:line:notFinite',
    'polyFit:parabola:ok', 'polyFit:parabola:notFinite', 'polyFit:indexError', 'polyFit:valueError',
    'pyBind:ok', 'pyBind:unexpectedKeyword', 'pyBind:multipleValues', 'pyBind:tooManyPositional', 'pyBind:missing',
] + r7.PFD_BRANCHES
# branches of the model that the real code cannot reach (kept in the model for totality; not an untied code path)
UNREACHABLE_BY_CONSTRUCTION = {
    'polyFit:indexError': 'np.polyfit always returns deg+1 coefficients',
    'MultiSt.grad2:shape': 'the weight-factor service and the list of LLH ratios are built from the same dataset list',
}


def _branches(case, model):
    """labels of the model branches a correspondence case went through (from the case and the model's answer)"""
    k = case['kind']
    out = []
    if k in ('ts', 'tst') and 'layout' in case:
        if model == 'K':
            return ['gflpIdx:keyError']
        if model == 'I':
            return ['gflpIdx:found', 'tsCall:indexError']
        out.append('gflpIdx:found')
        ns = _f(case['ns'])
        if k == 'ts':
            out.append('sgnNs:ns=0' if ns == 0 else 'npSign:ns<0' if ns < 0 else 'npSign:ns>0')
        else:
            out.append('tsTaylor:ns=0' if ns == 0 else 'tsTaylor:ns!=0')
            if ns == 0:
                a, b = _f(case['a']), _f(case['b'])
                out.append('tsApex?:flat(a=0,b=0)' if (a == 0 and b == 0) else 'tsApex?:notfinite(a!=0,b=0)' if b == 0 else 'tsApex?:quotient')
            else:
                out.append('npSign:ns<0' if ns < 0 else 'npSign:ns>0')
    elif k == 'pv':
        op = 0 if case.get('op') is None else case['op']
        nm = {0: 'greater', 1: 'greater_equal'}.get(op)
        out.append('pvalCounts:other-operator' if nm is None else 'pvalCounts:%s:%s' % (nm, 'empty' if not case['tsv'] else 'ok'))
    elif k == 'mix':
        out.append('pvalMixed:trials' if model.startswith('T') else
                   'pvalMixed:gamma:eta-default' if case.get('eta') is None else 'pvalMixed:gamma:eta-given')
    elif k == 'pg':
        out.append({'ok': 'pGamma:ok', 'err V': 'pGamma:valueError', 'err Z': 'pGamma:zeroDivision'}[model if model.startswith('err') else 'ok'])
        out.append('truncSample:truncated' if int(case['n_max']) < int(case['n']) else 'truncSample:whole')
    elif k == 'poly':
        t = model.split(' ')
        if t[0] == 'err':
            out.append({'V': 'polyFit:valueError', 'I': 'polyFit:indexError', 'N': 'polyFit:notFinite?'}[t[1]])
        try:
            x, y, w = _fl(case['x']), _fl(case['y']), _fl(case['w'])
            sw = 'polySwitch:no'
            if case['deg'] == 2:
                a2, b2, c2 = _polyfit(x, y, 2, w)
                sw = ('polySwitch:opens-upwards' if a2 > 0 else 'polySwitch:never-reaches-p_thr'
                      if b2 * b2 - 4 * a2 * (c2 - _f(case['pthr'])) < 0 else 'polySwitch:no')
            if case['deg'] in (1, 2):
                out.append(sw)
                line = case['deg'] == 1 or sw != 'polySwitch:no'
                out = [o for o in out if o != 'polyFit:notFinite?']
                out.append('polyFit:%s:%s' % ('line' if line else 'parabola', 'notFinite' if t[0] == 'err' and t[1] == 'N' else 'ok'))
        except Exception:  # noqa
            pass
    elif k == 'pfd':
        out += r7.branches(case, model)
    elif k == 'bind':
        out.append('pyBind:' + ('ok' if model == 'ok' else {'unexp': 'unexpectedKeyword', 'multi': 'multipleValues', 'pos': 'tooManyPositional',
                                                                'miss': 'missing'}[model.split(' ')[1].split(':')[0]]))
    return out


def _branches_hist(kind, case, toks):
    """object histories: labels from the ops and the model's output tokens"""
    out = []
    it = iter(toks)
    if kind == 'lh':
        N = case['N']
        for op in case['ops']:
            if op[0] == 'e':
                for rr in _fl(case['R']):
                    out.append('isStable:true' if _f(op[1]) * (rr - 1.) / N > opa_value() - 1 else 'isStable:false')
            elif op[0] == 'g':
                out.append('LlhSt.grad2:no-cache' if next(it, None) == 'R' else 'LlhSt.grad2:cache')
            elif op[0] in 'tu':
                t = next(it, None)
                out += ['LlhSt.grad2:cache', 'tsApex?:flat(a=0,b=0)' if t == '0' else 'tsApex?:quotient']
        return out
    prof = case['obj'] == 'profile'
    for op in case['ops']:
        k = op[0]
        if k == 'E':
            lt = next(it, None)
            next(it, None)
            if prof:
                out.append('ProfSt.llr:no-logL0' if lt == 'N' else 'ProfSt.llr:value')
        elif k == 'g':
            t = next(it, None)
            if prof:
                out.append('ProfSt.grad2:valueError' if t == 'V' else 'ProfSt.grad2:delegate')
            if t != 'V':
                out.append({'W': 'MultiSt.grad2:noWeights', 'S': 'MultiSt.grad2:shape', 'R': 'MultiSt.grad2:child-runtime'}.get(t, 'MultiSt.grad2:ok'))
        elif k in 'tu':
            t = next(it, None)
            out.append('tsTaylorOnProf:noLogL0' if t == 'N' else 'MultiSt.grad2:ok')
    return out


def o_corr(ctx, case):
    if case['kind'] == 'real':
        return _corr_real(ctx, [case])[0]
    if case['kind'] == 'hist':
        return _corr_hist(ctx, [case])[0]
    if case['kind'] == 'lh':
        return _corr_lh(ctx, [case])[0]
    if case['kind'] == 'mh':
        return _corr_mh(ctx, [case])[0]
    if case['kind'] == 'pfd':
        return r7.compare(ctx, case, ctx.driver('C12', [corr_request(case)])[0], _fl, _f)
    return corr_compare(case, ctx.driver('C12', [corr_request(case)])[0])


def _corr_real(ctx, cases):
    """real LLH-ratio objects: two driver rounds (per-dataset g1/g2, then the combination and the TS)"""
    outs, reqs, spans = [], [], []
    for c in cases:
        try:
            o = impl_real(c, want_parts=True)
        except Exception as e:  # noqa
            outs.append(None)
            spans.append((len(reqs), 0, '%s: %s' % (type(e).__name__, e)))
            continue
        outs.append(o)
        ns = _f(c['ns'])
        start = len(reqs)
        for p in o['parts']:
            nsj = ns * p['f']
            # the model itself evaluates (caches nsGradI at nsj) and then answers calculate_ns_grad2
            reqs.append('g1 %d %d %s %s' % (p['N'], p['nSel'], f2b(nsj), flist(p['X'])))
            reqs.append('lh %d %d %s e%s,g%s' % (p['N'], p['nSel'], flist(p['X']), f2b(nsj), f2b(nsj)))
            reqs.append('ll %d %d %s %s' % (p['N'], p['nSel'], f2b(nsj), flist(p['X'])))
        spans.append((start, len(o['parts']), None))
    ans = ctx.driver('C12', reqs) if reqs else []
    reqs2 = []
    pre = []
    for c, o, (start, n, err) in zip(cases, outs, spans):
        if o is None:
            pre.append(None)
            continue
        g1 = [b2f(ans[start + 3 * j]) for j in range(n)]
        g2 = [b2f(ans[start + 3 * j + 1]) for j in range(n)]
        lls = [b2f(ans[start + 3 * j + 2]) for j in range(n)]
        fs = [p['f'] for p in o['parts']]
        a_model = sum(f * g for f, g in zip(fs, g1))
        pre.append((a_model, g2, fs, sum(lls)))
        reqs2.append('g2m %s %s' % (flist(g2), flist(fs)))
    ans2 = ctx.driver('C12', reqs2) if reqs2 else []
    bs = iter(ans2)
    reqs3 = []
    mid = []
    for c, o, pr in zip(cases, outs, pre):
        if o is None:
            mid.append(None)
            continue
        b_model = b2f(next(bs))
        mid.append(b_model)
        reqs3.append('tst %s %s %s %s' % (f2b(_f(c['ns'])), f2b(o['ll']), f2b(o['a']), f2b(b_model)))
        reqs3.append('ts %s %s' % (f2b(_f(c['ns'])), f2b(o['ll'])))
    ans3 = ctx.driver('C12', reqs3) if reqs3 else []
    it = iter(ans3)
    res = []
    for c, o, pr, b_model, (start, n, err) in zip(cases, outs, pre, mid, spans):
        if o is None:
            res.append('real: evaluating the LLH ratio raised ' + err)
            continue
        t_tok, w_model = next(it), b2f(next(it))
        t_model = float('inf') if t_tok == 'notfinite' else b2f(t_tok)
        a_model, g2, fs, ll_model = pr
        ns = _f(c['ns'])
        mag_ll = sum(sum(abs(math.log1p(ns * f * x)) for x in p['X']) + abs(p['N'] - p['nSel']) * abs(math.log1p(-ns * f / p['N']))
                     for f, p in zip(fs, o['parts'])
                     if all(1.0 + ns * f * x > 0 for x in p['X']) and ns * f < p['N']) + 1e-300
        stable = all(1.0 + ns * p['f'] * x > 1e-3 for p in o['parts'] for x in p['X'])
        mag_b = sum(f * f * (sum(x * x for x in p['X']) * 4 + abs(p['N'] - p['nSel']) / (p['N'] - ns * f) ** 2 * 4)
                    for f, p in zip(fs, o['parts'])) + 1e-300
        d = None
        if o['wilks_err'] or not _same(o['wilks'], w_model):
            d = 'real/ts: implementation %s, model %r' % (o['wilks_err'] or repr(o['wilks']), w_model)
        elif o['b_err'] or (stable and not _close(o['b'], b_model, 1e-9 * mag_b)):
            d = 'real/grad2: implementation %s, model %r' % (o['b_err'] or repr(o['b']), b_model)
        elif o['taylor_err'] or (stable and t_tok == 'notfinite' and math.isfinite(o['taylor'])) or (
                stable and t_tok != 'notfinite' and not _close(o['taylor'], t_model, 1e-9 * abs(t_model) + 1e-300)):
            d = 'real/tst: implementation %s, model %s' % (o['taylor_err'] or repr(o['taylor']), t_tok if t_tok == 'notfinite' else repr(t_model))
        elif stable and not _close(o['a'], a_model, 1e-9 * (abs(a_model) + mag_b ** 0.5)):
            d = 'real/grad1: implementation %r, model %r' % (o['a'], a_model)
        elif stable and not _close(o['ll'], ll_model, 1e-9 * mag_ll):
            d = 'real/ll: implementation log_lambda %r, model llrStable %r' % (o['ll'], ll_model)
        res.append(d)
    return res


def _corr_hist(ctx, hcases):
    """every call of a history (one instance) against the stateless model"""
    reqs = []
    for h in hcases:
        for c in h['calls']:
            reqs.append(corr_request(dict(c, kind='ts' if h['cls'] == 'wilks' else 'tst')))
    ans = iter(ctx.driver('C12', reqs) if reqs else [])
    res = []
    for h in hcases:
        used = impl_hist(h)
        d = None
        for i, (c, u) in enumerate(zip(h['calls'], used)):
            tok = next(ans)
            if h['cls'] == 'wilks':
                bad = 'x' if (u[1] or not _same(u[0], b2f(tok))) else None
            else:
                bad = _cmp_tst(u[0], u[1], tok)
            if d is None and bad:
                d = 'hist: call %d (%s, layout %s, ns=%r): implementation %s, stateless model %s' % (
                    i + 1, h['cls'], c['layout'], _f(c['ns']), u[1] or repr(u[0]), tok if tok == 'notfinite' else repr(b2f(tok)))
        res.append(d)
    return res


ORACLES = {'poly_data': o_poly_data, 'obj_history': o_obj_history, 'poly_equivariance': o_poly_equivariance, 'gamma_real': o_gamma_real, 'llh_history': o_llh_history, 'purity': o_purity, 'ts_history': o_ts_history, 'ts': o_ts, 'ts_taylor': o_ts_taylor, 'ts_real': o_ts_real, 'ana_chain': o_ana_chain,
           'pval': o_pval, 'mixed': o_mixed, 'poly': o_poly, 'corr': o_corr}

# property oracle looking at the same behaviour as a correspondence kind, and how to turn the case into its input
_ORACLE_OF_KIND = {
    'ts': [('ts', lambda c: c)],
    'tst': [('ts_taylor', lambda c: c)],
    'real': [('ts_real', lambda c: c), ('ana_chain', lambda c: c)],
    'hist': [('ts_history', lambda c: c)],
    'lh': [('llh_history', lambda c: c)],
    'mh': [('obj_history', lambda c: c)],
    'pv': [('pval', lambda c: {'tsv': c['tsv'], 'thrs': [c['thr']]})],
    'mix': [('mixed', lambda c: c), ('pval', lambda c: {'tsv': c['tsv'], 'thrs': [c['thr']]})],
    'poly': [('poly', lambda c: c)],
    'pfd': [('poly_data', lambda c: c)],
}


def _signature(name, oc, res):
    if name == 'gamma_real' and 'increases with the threshold' in res and oc.get('eta') is not None:
        return 'C12/gamma_real/not-antitone-explicit-eta-below-switch'
    return 'C12/%s/%s' % (name, _classify(res))


def _classify(res):
    if 'a fresh instance gives' in res:
        return 'depends-on-earlier-calls'
    if "wrote into the caller" in res:
        return 'writes-into-argument'
    if 'on fresh copies of the data' in res or 'two calls with the same argument objects' in res:
        return 'depends-on-earlier-calls'
    if 'with a float64 ndarray' in res:
        return 'input-form'
    m = re.search(r'raised (\w+)', res)
    if m:
        return 'raises-' + m.group(1)
    for key, tag in (('depends on the unit', 'depends-on-ns-unit'), ('depends on the origin', 'depends-on-ns-origin'), ('a fresh instance gives', 'depends-on-earlier-calls'), ('outside [0,1]', 'range'), ('increases with', 'not-antitone'), ('smaller than the strict', 'ge-smaller'),
                     ('trials', 'wrong-count'), ('falling branch', 'wrong-root'), ('no fall-back is taken', 'returns-nan'), ('never reaches', 'no-root'),
                     ('instead of raising', 'no-error')):
        if key in res:
            return tag
    return 'wrong-result'


# ------------------------------------------------------------------------------------------
# generators

def gen_ns(rng):
    return rng.choice([0.0, 0.0, -0.0, 5e-324, -5e-324, 1.0, -1.0, 2.5, -1.5, 1e-9, -1e-9, 1e6, -1e6, float('inf'), float('-inf'),
                       rng.uniform(-50, 50), rng.uniform(0, 5), -rng.uniform(0, 5)])


def gen_ll(rng):
    return rng.choice([0.0, -0.0, 1.0, -1.0, 0.38, -0.82, 1e-300, -1e-300, 1e300, 12.75,
                       rng.uniform(-5, 30), rng.uniform(-1e-3, 1e-3), rng.gauss(0, 100)])


def gen_sample(rng):
    n = rng.choice([1, 1, 2, 2, 3, 4, 5, 8, 13, 30, 30, 200]) if rng.random() > 0.03 else 0
    mode = rng.choice(['grid', 'grid', 'float', 'const', 'chi2'])
    if mode == 'grid':
        vals = [float(rng.randrange(0, 6)) * 0.5 for _ in range(n)]
    elif mode == 'const':
        v = rng.choice([0.0, 3.0, 1.25, -2.0])
        vals = [v] * n
    elif mode == 'chi2':
        vals = [0.0 if rng.random() < 0.5 else rng.gauss(0, 1) ** 2 for _ in range(n)]
    else:
        vals = [rng.uniform(-2, 12) for _ in range(n)]
    return vals


def gen_thresholds(rng, vals, k):
    c = [3.0, 0.0, float('inf'), float('-inf')]
    for v in vals[:40]:
        c += [v, float(np.nextafter(v, np.inf)), float(np.nextafter(v, -np.inf))]
    if vals:
        c += [min(vals) - 1, max(vals) + 1, (min(vals) + max(vals)) / 2]
    c += [rng.uniform(-3, 13) for _ in range(3)]
    return [rng.choice(c) for _ in range(k)]


def gen_curve(rng):
    n = rng.choice([3, 4, 4, 5, 6, 8, 12])
    # signal-strength scales from a weak single source to stacked / very strong sources: the property is scale free
    span = rng.choice([0.05, 2.0, 5.0, 20.0, 20.0, 100.0, 1500.0, 1e4])
    lo = rng.choice([0.0, 0.05 * span, 0.25 * span])
    xs = sorted(lo + span * rng.random() for _ in range(n))
    if rng.random() < 0.5:
        xs = [lo + span * i / (n - 1) for i in range(n)]
    shape = rng.choice(['lin', 'concave', 'convex', 'sigmoid', 'saturating'])
    sl = rng.uniform(0.3, 0.9)
    u = [(x - lo) / span for x in xs]
    if shape == 'lin':
        ys = [0.05 + sl * t for t in u]
    elif shape == 'concave':
        ys = [0.05 + sl * (2 * t - t * t) for t in u]
    elif shape == 'convex':
        ys = [0.05 + sl * t * t for t in u]
    elif shape == 'saturating':
        plateau = rng.uniform(0.3, 0.8)          # p_thr above the plateau: the fitted parabola often never reaches it
        ys = [0.05 + plateau * (1 - math.exp(-4 * t)) for t in u]
    else:
        ys = [0.05 + 0.9 / (1 + math.exp(-6 * (t - 0.5))) for t in u]
    if rng.random() < 0.15:
        ys = ys[::-1]                      # decreasing curve
    ntr = rng.choice([100, 1000, 10000])
    noise = rng.choice([1e-3, 1e-2, 3e-2])
    ys = [min(0.99, max(0.01, y + rng.gauss(0, noise))) for y in ys]
    ws = [1.0 / math.sqrt(y * (1 - y) / ntr) for y in ys]
    if rng.random() < 0.02:
        ys = [0.0] * n                     # no trial above the threshold anywhere: an exactly flat fitted curve
    if rng.random() < 0.3:
        perm = list(range(n))
        rng.shuffle(perm)
        xs, ys, ws = [xs[i] for i in perm], [ys[i] for i in perm], [ws[i] for i in perm]
    return xs, ys, ws


def gen_real(rng, nprng):
    mode = rng.choice(['single', 'multi', 'multi'])
    J = 1 if mode == 'single' else rng.choice([1, 2, 3])
    K = 1 if mode == 'single' else rng.choice([1, 1, 2, 3])
    Rs, Ns = [], []
    for j in range(J):
        E = rng.choice([0, 1, 1, 2, 3, 5, 8])         # 0: the event selection kept no event of this dataset
        R = nprng.uniform(0.0, 4.0, size=(K, E))
        if E and rng.random() < 0.2:
            R[:, 0] = 1.0                  # an event without any pull
        Rs.append(R.tolist())
        Ns.append(max(1, E + rng.choice([0, 0, 1, 3, 20, 50])))
    if rng.random() < 0.08:
        # degenerate: every ratio 1 and no pure-background event -> a = b = 0
        Rs = [[[1.0] * len(R[0]) for _k in R] for R in Rs]
        Ns = [max(1, len(R[0])) for R in Rs]
    ns = rng.choice([0.0, 0.0, 0.0, -0.0, 1.5, -0.75, 0.25, -1e-3])
    if ns > 0:
        ns = min(ns, 0.6 * min(Ns))        # a fit result has ns < N
    c = {'kind': 'real', 'mode': mode, 'Rs': Rs, 'Ns': Ns, 'ns': ns}
    if mode == 'multi':
        c['W'] = [float(w) for w in nprng.uniform(0.5, 2.0, size=K)]
        c['Y'] = nprng.uniform(0.5, 3.0, size=(J, K)).tolist()
    return c


def _f32_exact(v):
    return float(np.float32(v))


def gen_purity(rng):
    h = rng.choice(['pval', 'mixed', 'poly', 'poly', 'ts', 'tst'])
    form = rng.choice(FORMS)
    if h in ('pval', 'mixed'):
        if form == 'list':
            form = 'ro'                     # documented as ndarray
        n = rng.choice([1, 2, 5, 13, 40])
        if form == 'int':
            vals = [float(rng.randrange(-2, 9)) for _ in range(n)]
        else:
            vals = [_f32_exact(rng.choice([rng.uniform(-2, 12), float(rng.randrange(0, 6)) * 0.5])) for _ in range(n)]
        thrs = [rng.choice(vals + [3.0, 0.0, 2.5, _f32_exact(rng.uniform(-3, 13))]) for _ in range(2)]
        c = {'helper': h, 'form': form, 'tsv': vals,
             'first': {'thr': thrs[0], 'op': rng.choice([0, 1, None])}, 'second': {'thr': thrs[1], 'op': rng.choice([0, 1, None])}}
        if h == 'mixed':
            c['first']['switch'] = rng.choice([None, 3.0, 1.0])
            c['second']['switch'] = rng.choice([None, 3.0, 5.0])
        return c
    if h == 'poly':
        xs, ys, ws = gen_curve(rng)
        if form == 'int':
            xs = [float(i + rng.randrange(0, 3)) for i in range(0, 3 * len(xs), 3)]
        if form == 'f32':
            xs, ys, ws = [_f32_exact(v) for v in xs], [_f32_exact(v) for v in ys], [_f32_exact(v) for v in ws]
        d1 = rng.choice([1, 2, 2]) if len(xs) > 3 else 1
        d2 = rng.choice([1, 2, 2]) if len(xs) > 3 else 1
        return {'helper': h, 'form': form, 'x': xs, 'y': ys, 'w': ws,
                'first': {'deg': d1, 'pthr': rng.choice([0.5, 0.9, 0.7])}, 'second': {'deg': d2, 'pthr': rng.choice([0.5, 0.9, 0.3])}}
    if form in ('list', 'int'):
        form = rng.choice(['ro', 'strided'])          # documented as float ndarray
    c = {'helper': h, 'form': form, 'layout': rng.choice(['ns0', 'ns1', 'ns2']), 'ns': _f32_exact(gen_ns(rng)),
         'others': [rng.choice([2.5, -2.5, 0.0, 7.0, -3.0]) for _ in range(4)],
         'first': {'ll': gen_ll(rng)}, 'second': {'ll': gen_ll(rng)}}
    if h == 'tst':
        c['a'] = rng.choice([0.0, -0.25, 0.75, 2.0])
        c['b'] = rng.choice([-0.0625, -1.0, -4.0])
    return c


def gen_lh(rng):
    E = rng.choice([0, 1, 2, 3, 5])                # 0: no selected event at all
    N = max(1, E + rng.choice([0, 0, 1, 3, 20]))
    R = [rng.choice([rng.uniform(0.0, 4.0), rng.uniform(0.0, 4.0), 1.0, 0.0]) for _ in range(E)]
    if rng.random() < 0.08:
        R = [1.0] * E
    def some_ns():
        c = [0.0, 0.0, 0.25, 0.6, 0.6 * N, -0.3, -0.3 * N, 1e-3]
        # values that push events below the stability threshold alpha_i <= one_plus_alpha - 1 (Taylor continuation)
        if R and min(R) < 1.0:
            c += [min(0.99999 * N, 0.9995 * N / (1.0 - min(R)))] * 2
        if R and max(R) > 1.0:
            c += [-0.9995 * N / (max(R) - 1.0)] * 2
        return rng.choice(c)
    ops = []
    for _ in range(rng.choice([1, 2, 3, 4, 6])):
        k = rng.choice(['e', 'e', 'e', 'n', 'g', 't', 'u'])
        if k == 'e':
            ops.append(['e', some_ns()])
        elif k == 'g':
            ops.append(['g', rng.choice([some_ns()] + [op[1] for op in ops if op[0] == 'e'])])
        else:
            ops.append([k])
    ops.append([rng.choice(['t', 'u', 'g'])] if True else None)
    if ops[-1] == ['g']:
        ops[-1] = ['g', 0.0]
    return {'kind': 'lh', 'R': R, 'N': N, 'ops': ops, 'ns_second': rng.random() < 0.35}


def gen_mh(rng, nprng):
    base = gen_real(rng, nprng)
    while base['mode'] != 'multi':
        base = gen_real(rng, nprng)
    obj = rng.choice(['multi', 'multi', 'profile'])
    Nmin = min(base['Ns'])
    def some_ns():
        return rng.choice([0.0, 0.0, 0.25, 0.5, 0.6 * Nmin, -0.3, 1e-3])
    ops = []
    for _ in range(rng.choice([1, 2, 3, 4, 6])):
        k = rng.choice(['E', 'E', 'E', 'n', 'g', 't', 'u'])
        if k == 'E':
            ops.append(['E', some_ns()])
        elif k == 'g':
            ns = rng.choice([some_ns()] + [o[1] for o in ops if o[0] == 'E'])
            ops.append(['g', rng.choice([0, 0, 0, 1]), ns] if obj == 'profile' else ['g', ns])
        else:
            ops.append([k])
    ops.append([rng.choice(['t', 'u'])])
    c = {'kind': 'mh', 'obj': obj, 'Rs': base['Rs'], 'Ns': base['Ns'], 'W': base['W'], 'Y': base['Y'], 'ops': ops}
    if obj == 'profile':
        c['ns0'] = rng.choice([0.0, 0.5, 0.25 * Nmin])
    return c


def gen_hist(rng):
    cls = rng.choice(['wilks', 'taylor'])
    n = rng.choice([2, 2, 3, 4, 6])
    calls = []
    for _ in range(n):
        c = {'layout': rng.choice(['ns0', 'ns1', 'ns2']), 'ns': gen_ns(rng), 'll': gen_ll(rng),
             'others': [rng.choice([2.5, -2.5, 0.0, 7.0, -3.0, 1e-3, -1e-3]) for _ in range(4)]}
        if cls == 'taylor':
            c['a'] = rng.choice([0.0, -0.3, 0.7, rng.gauss(0, 2)])
            c['b'] = rng.choice([-0.05, -1.0, -rng.uniform(1e-6, 10)])
            c['pass_grads'] = rng.random() < 0.7
        calls.append(c)
    return {'kind': 'hist', 'cls': cls, 'calls': calls}


_PNAMES = ['ns', 'ns_pidx', 'src_params_recarray', 'tl', 'fitparam_values', 'grads', 'llhratio', 'pmm']


def gen_bind(rng):
    params = rng.sample(_PNAMES, rng.randrange(0, 6))
    nreq = rng.randrange(0, len(params) + 1)
    required = params[:nreq]
    kwargs = rng.random() < 0.3
    npos = rng.choice([0, 0, 0, 1, 2, 3, 7])
    kws = rng.sample(_PNAMES, rng.randrange(0, 6))
    return {'kind': 'bind', 'params': params, 'required': required, 'kwargs': kwargs, 'npos': npos, 'kws': kws}


# ------------------------------------------------------------------------------------------

def run(ctx):
    rng = ctx.rng
    nprng = ctx.np_rng
    ctx.rule = ('fit results: ns in {<0, -0.0, +0.0, >0, denormal, huge} x any log-likelihood value x position of ns among '
                '1..4 fit parameters; histories of 2..6 calls on ONE test-statistic instance (both classes) with changing layouts, '
                'positions of ns, signs, values of the other fit parameters and LLH-ratio objects; real single-/multi-dataset LLH ratios (1..3 datasets, 1..3 sources, 1..8 selected and '
                '0..20 pure-background events); TS samples of 0..200 values (grid values with ties and duplicates, constant, '
                'chi2-like, floats) x thresholds at sample values, their float neighbours, midpoints, outside, +-inf; monotone '
                'p(ns) curves (linear, concave, convex, sigmoid; increasing and decreasing) with binomial noise, 3..12 points, '
                'degrees 1 and 2 (0 and 3 for the error path), each also from the data through the modelled np.polyfit plus its argument-check / boundary classes '
                '(deg < 0, zero length, unequal lengths, n = deg+1, n = deg+2, all x equal, duplicated x, zero weight); every helper with its array arguments as list / int64 / float32 / float64 / '
                'read-only / non-contiguous arrays, called twice on the same objects; generated Python signatures x calls; a case is non-trivial when '
                'distinct by (kind, all inputs)')
    ctx.trusted_base += ['correspondence harness harness/props/c12.py (relations stated in its docstring)',
                         'harness/llh_fixtures.py stub PDF ratios / yields around the real LLH-ratio classes',
                         'np.polyfit: the least-squares problem and the argument checks are modelled (Model/PolyFitR7.lean, exact rationals in the driver); '
                         'the rounding of LAPACK enters through a forward-error bound (kappa, kappa^2 * residual) of harness/c12_r7_fixtures.py; the kind poly still '
                         'feeds the recorded coefficients into the inversion',
                         'ast extraction of signatures and call-site keywords (harness/extract.py)',
                         'IEEE rounding is outside the theorems (statements over ℝ / linear orders)']
    ctx.assumptions += ['fit results and TS values are not NaN (±inf is generated; a NaN ns propagates to a NaN TS in the code and is outside the model)',
                        'the gamma fit itself (iminuit, scipy.stats.gamma) is not modelled: its survival function is abstract in the theorems; the real fit is '
                        'run by the gamma_real oracle', 'a returned signal strength may lie outside the sampled ns range (extrapolation of the fitted '
                        'curve): the property asks for a point of the fitted curve, not for one inside the data',
                        'samples on which the normal equations are singular (all weighted points at one abscissa; fewer distinct abscissae than '
                        'coefficients) or numerically ill conditioned (coefficient bound > 1e-3) are outside the comparison: numpy may raise or return '
                        'meaningless numbers there (counted as pfd:rank-deficient / pfd:ill-conditioned-not-compared)',
                        'p_weight is used as numpy uses it (multiplies the residuals, i.e. 1/sigma): c12_lsq_minimises is about sum (w_i (y_i - P(x_i)))^2']
    cases, ocases = [], []

    # ---- test statistic on pmm layouts
    for _ in range(ctx.n(150, 10000)):
        layout = rng.choice(['ns0', 'ns1', 'ns2', 'nsig'])
        ns, ll = gen_ns(rng), gen_ll(rng)
        ctx.count('ts:layout=' + layout)
        ctx.count('ts:ns' + ('<0' if ns < 0 else '=0' if ns == 0 else '>0'))
        others = [rng.choice([2.5, -2.5, 0.0, 7.0, -3.0]) for _ in range(4)]
        tsname = rng.choice(['nsignal', 'gamma_', 'NS']) if rng.random() < 0.04 else None     # no such floating parameter
        ll_form = rng.choice(['pyfloat', 'np64', 'arr0d', 'int'])
        c = {'kind': 'ts', 'layout': layout, 'ns': ns, 'll': ll, 'others': others, 'll_form': ll_form}
        ctx.count('glue:log_lambda-as-' + ll_form)
        fp_cut = _pmm(layout)[1] if (not tsname and rng.random() < 0.03) else None
        if tsname:
            c['tsname'] = tsname
            ctx.count('ts:unknown-ns_param_name')
        if fp_cut is not None:
            c['fp_cut'] = fp_cut
            ctx.count('ts:fit-parameter-array-too-short')
        cases.append(c)
        ocases.append(('ts', c))
        a = rng.choice([0.0, 0.0, -0.3, 0.7, rng.gauss(0, 2), 1e-8])
        b = rng.choice([-0.05, -1.0, -rng.uniform(1e-6, 10), -1e-12, 0.25, 0.0, -0.0])
        c = {'kind': 'tst', 'layout': layout, 'ns': ns, 'll': ll, 'a': a, 'b': b, 'others': others,
             'pass_grads': rng.random() < 0.7, 'll_form': ll_form, 'grads_form': rng.choice(['array', 'list'])}
        if tsname:
            c['tsname'] = tsname
        if fp_cut is not None:
            c['fp_cut'] = fp_cut
        ctx.count('tst:b%s' % ('=0,a=0' if (b == 0 and a == 0) else '=0,a!=0' if b == 0 else '<0' if b < 0 else '>0'))
        cases.append(c)
        ocases.append(('ts_taylor', c))
    # ---- histories on one test-statistic instance
    hists = [gen_hist(rng) for _ in range(ctx.n(150, 4000))]
    for h in hists:
        ctx.count('hist:%s:len=%d' % (h['cls'], len(h['calls'])))
        ctx.count('hist:layout-changes', sum(1 for a, b in zip(h['calls'], h['calls'][1:]) if a['layout'] != b['layout']))
        ocases.append(('ts_history', h))
    # ---- histories on one real LLH-ratio object
    lhs = [gen_lh(rng) for _ in range(ctx.n(60, 1500))]
    for c in lhs:
        ctx.count('lh:selected-events=%s' % ('0' if not c['R'] else '>=1'))
        ctx.count('lh:ns-at-fit-parameter-index-%d' % (1 if c.get('ns_second') else 0))
        ctx.count('lh:evaluate-with-unstable-events', sum(
            1 for o in c['ops'] if o[0] == 'e' and any(_f(o[1]) * (rr - 1.) / c['N'] <= opa_value() - 1 for rr in c['R'])))
        ctx.count('lh:ends-with-' + c['ops'][-1][0])
        ctx.count('lh:stale-before-TS', int(any(o[0] in 'tu' and any(p[0] == 'e' and _f(p[1]) != 0 for p in c['ops'][:i])
                                                for i, o in enumerate(c['ops']))))
        ocases.append(('llh_history', c))
    # ---- histories on one real multi-dataset / ns-profile LLH-ratio object
    mhs = [gen_mh(rng, nprng) for _ in range(ctx.n(40, 800))]
    for c in mhs:
        ctx.count('mh:%s' % c['obj'])
        ocases.append(('obj_history', c))
    # ---- purity of every helper (caller arrays untouched, same objects twice, input forms)
    for _ in range(ctx.n(300, 6000)):
        c = gen_purity(rng)
        ctx.count('purity:%s:%s' % (c['helper'], c['form']))
        ocases.append(('purity', c))
    # ---- real LLH ratios
    reals = [gen_real(rng, nprng) for _ in range(ctx.n(40, 1500))]
    for c in reals:
        ctx.count('real:selected-events=%s' % ('0-in-some-dataset' if any(len(R[0]) == 0 for R in c['Rs']) else '>=1'))
        ctx.count('real:%s:ns%s' % (c['mode'], '<0' if _f(c['ns']) < 0 else '=0' if _f(c['ns']) == 0 else '>0'))
        ocases.append(('ts_real', c))
    for c in reals[:ctx.n(6, 60)]:
        ocases.append(('ana_chain', c))
    # ---- p-values
    for _ in range(ctx.n(120, 8000)):
        vals = gen_sample(rng)
        thrs = gen_thresholds(rng, vals, 6)
        ctx.count('pv:n=%s' % (len(vals) if len(vals) < 4 else '4+'))
        ctx.count('pv:sample-%s' % ('empty' if not vals else 'single-element' if len(vals) == 1 else
                                    'with-duplicates' if len(set(vals)) < len(vals) else 'all-distinct'))
        ocases.append(('pval', {'tsv': vals, 'thrs': thrs}))
        for thr in thrs[:3]:
            op = rng.choice([0, 1, 0, 1, 2, None])
            shape = rng.choice(['1d', 'strided', 'ro'])      # documented: (n_trials,)-shaped 1D ndarray
            thr_form = rng.choice(['pyfloat', 'np64', 'arr0d', 'int'])
            cases.append({'kind': 'pv', 'tsv': vals, 'thr': thr, 'op': op, 'shape': shape, 'thr_form': thr_form,
                          'op_pos': rng.random() < 0.3})
            ctx.count('glue:sample-shape-' + shape)
            ctx.count('glue:threshold-as-' + thr_form)
            ctx.count('pv:thr-%s' % ('tie' if thr in vals else 'other'))
        c = {'kind': 'mix', 'tsv': vals, 'thr': rng.choice(thrs + [3.0, float(np.nextafter(3.0, 0))]),
             'switch': rng.choice([None, None, 3.0, 1.0, rng.choice(thrs)]), 'eta': rng.choice([None, None, 2.0, 3.5]),
             'op': rng.choice([None, 0, 1, 2]), 'n_max': rng.choice([None, None, 10, 1000000]),
             'shape': rng.choice(['1d', 'strided', 'ro']), 'thr_form': rng.choice(['pyfloat', 'np64', 'arr0d'])}
        if not (c['thr'] != c['thr']):
            cases.append(c)
            ocases.append(('mixed', c))
    # ---- the real gamma fit behind the mixed helper (default eta: must be monotone across the switch)
    for _ in range(ctx.n(3, 40)):
        sw = rng.choice([None, 3.0, 2.0, 4.0])
        s0 = 3.0 if sw is None else sw
        eta = rng.choice([None, None, None, s0 + 0.5, s0 - 1.0])
        thrs = [0.5, s0 - 0.5, float(np.nextafter(s0, 0)), s0, s0 + 0.25, s0 + 0.5, s0 + 1.0, 6.0, 9.0]
        c = {'seed': rng.randrange(10 ** 6), 'n': rng.choice([2000, 5000]), 'switch': sw, 'eta': eta, 'thrs': thrs}
        ctx.count('gamma_real:eta-%s' % ('default' if eta is None else ('above-switch' if eta > s0 else 'below-switch')))
        ocases.append(('gamma_real', c))
    # ---- the gamma-fit branch against pGamma / truncSample (fitted parameters observed, survival function from scipy)
    for _ in range(ctx.n(6, 60)):
        eta = rng.choice([3.0, 2.0, 4.0])
        n = rng.choice([2000, 5000, 5000, 0])
        c = {'kind': 'pg', 'seed': rng.randrange(10 ** 6), 'n': n, 'eta': eta,
             'thr': rng.choice([eta, eta + 0.5, eta + 3.0, eta - 0.25, float(np.nextafter(eta, 0))]),
             'n_max': rng.choice([500000, n, n - 1, 1000, 300])}
        ctx.count('pg:%s' % ('thr<eta' if c['thr'] < eta else 'thr>=eta'))
        ctx.count('pg:%s' % ('sample-truncated-to-n_max' if c['n_max'] < n else 'whole-sample'))
        cases.append(c)
    # ---- polynomial inversion
    for _ in range(ctx.n(150, 8000)):
        xs, ys, ws = gen_curve(rng)
        deg = rng.choice([1, 2, 2, 2]) if rng.random() > 0.04 else rng.choice([0, 3])
        if len(xs) <= deg + 1:
            deg = 1
        pthr = rng.choice([0.5, 0.9, 0.5, 0.9, 0.1, 0.7, rng.uniform(0.05, 0.95)])
        c = {'kind': 'poly', 'x': xs, 'y': ys, 'w': ws, 'deg': deg, 'pthr': pthr, 'deg_form': rng.choice(['int', 'np', 'float']),
             'seq_form': rng.choice(['list', 'tuple', 'mixed']), 'thr_form': rng.choice(['pyfloat', 'np64', 'arr0d'])}
        ctx.count('glue:deg-as-' + c['deg_form'])
        ctx.count('glue:poly-sequences-as-' + c['seq_form'])
        cases.append(c)
        cases.append({'kind': 'pfd', 'x': xs, 'y': ys, 'w': ws, 'deg': deg, 'pthr': pthr})
        ocases.append(('poly', c))
        ocases.append(('poly_equivariance', c))
        ctx.count('poly:deg=%d' % deg)
        ctx.count('poly:ns-scale=%s' % ('<1' if max(xs) < 1 else '<=100' if max(xs) <= 100 else '>100'))
        if deg == 2:
            try:
                a2, b2, c2 = _polyfit(xs, ys, 2, ws)
                ctx.count('poly:deg2-' + ('line(opens-upwards)' if a2 > 0 else 'line(never-reaches-p_thr)'
                                          if b2 * b2 - 4 * a2 * (c2 - pthr) < 0 else 'parabola'))
            except Exception:  # noqa
                ctx.count('poly:deg2-polyfit-rejects')
        r0 = impl_poly(c)
        inside = r0[0] == 'ok' and min(xs) <= r0[1] <= max(xs)
        ctx.count('poly:root-%s-the-sampled-range' % ('inside' if inside else 'outside'))
    # ---- keyword binding
    sig = extract_signatures()
    for _where, npos, kws in sig['grad2_calls']:
        for cname, p, r, k in sig['grad2_impls']:
            cases.append({'kind': 'bind', 'params': list(p), 'required': list(r), 'kwargs': bool(k), 'npos': npos, 'kws': list(kws)})
    ctx.extra['signatures'] = {'calculate_ns_grad2 definitions': len(sig['grad2_impls']), 'calculate_ns_grad2 call sites': len(sig['grad2_calls']),
                               'TestStatistic.__call__ definitions': len(sig['ts_impls']), 'calculate_test_statistic call sites': len(sig['sites'])}
    for _ in range(ctx.n(150, 5000)):
        cases.append(gen_bind(rng))
    for _ in range(ctx.n(20, 200)):
        cases.append({'kind': 'fwd', 'outer': rng.sample(_PNAMES, rng.randrange(0, 4)), 'fixed': rng.sample(_PNAMES[5:], 2),
                      'kws': rng.sample(_PNAMES[:5], rng.randrange(0, 5))})

    # ---- np.polyfit's argument checks / rank deficiency / boundary sizes as reached through polynomial_fit (round 7)
    for _ in range(ctx.n(2, 60)):
        for c in r7.gen_error_cases(rng):
            ctx.count('pfd:class=' + c.pop('cls'))
            cases.append(c)
    # an upward-opening parabola (degree switch, second fit) and a flat curve, in every run
    cases += [{'kind': 'pfd', 'x': [0.0, 1.0, 2.0, 3.0, 4.0], 'y': [0.05, 0.1, 0.25, 0.5, 0.85], 'w': [10.0] * 5, 'deg': 2, 'pthr': 0.5},
              {'kind': 'pfd', 'x': [0.0, 1.0, 2.0, 3.0, 4.0], 'y': [0.0] * 5, 'w': [10.0] * 5, 'deg': 2, 'pthr': 0.5}]
    # ---- directed cases: one per branch of the model that random generation does not reach in every run
    o4 = [2.5, -2.5, 0.0, 7.0]
    cases += [
        {'kind': 'tst', 'layout': 'ns1', 'ns': 0.0, 'll': 0.0, 'a': 0.5, 'b': 0.0, 'others': o4, 'pass_grads': True},
        {'kind': 'tst', 'layout': 'ns2', 'ns': -0.0, 'll': 1.0, 'a': 0.0, 'b': -0.0, 'others': o4, 'pass_grads': False},
        {'kind': 'ts', 'layout': 'ns2', 'ns': 1.0, 'll': 1.0, 'others': o4, 'fp_cut': 2},
        {'kind': 'ts', 'layout': 'nsig', 'ns': -1.0, 'll': 1.0, 'others': o4, 'tsname': 'nsignal'},
        {'kind': 'pg', 'seed': 5, 'n': 0, 'eta': 3.0, 'thr': 3.5, 'n_max': 500000},
        {'kind': 'pg', 'seed': 5, 'n': 2000, 'eta': 3.0, 'thr': 2.5, 'n_max': 500000},
        {'kind': 'pg', 'seed': 5, 'n': 2000, 'eta': 3.0, 'thr': 3.5, 'n_max': 700},
        {'kind': 'poly', 'x': [0.0, 1.0, 2.0, 3.0, 4.0], 'y': [0.0] * 5, 'w': [10.0] * 5, 'deg': 1, 'pthr': 0.5},
        {'kind': 'poly', 'x': [0.0, 1.0, 2.0, 3.0, 4.0], 'y': [0.0] * 5, 'w': [10.0] * 5, 'deg': 2, 'pthr': 0.5},
        {'kind': 'poly', 'x': [0.0, 1.0, 2.0, 3.0, 4.0, 5.0], 'y': [0.1, 0.2, 0.35, 0.5, 0.6, 0.8], 'w': [10.0] * 6, 'deg': 3, 'pthr': 0.5},
        {'kind': 'poly', 'x': [0.0, 1.0, 2.0, 3.0, 4.0, 5.0], 'y': [0.1, 0.2, 0.35, 0.5, 0.6, 0.8], 'w': [10.0] * 6, 'deg': 0, 'pthr': 0.5},
        {'kind': 'mix', 'tsv': [1.0, 2.0, 4.0], 'thr': 3.5, 'switch': None, 'eta': 2.0, 'op': None, 'n_max': None},
        {'kind': 'pv', 'tsv': [], 'thr': 1.0, 'op': 0}, {'kind': 'pv', 'tsv': [], 'thr': 1.0, 'op': 1}, {'kind': 'pv', 'tsv': [], 'thr': 1.0, 'op': 2},
    ]
    base_m = {'Rs': [[[1.5, 0.3, 1.0], [2.0, 0.1, 0.5]], [[], []]], 'Ns': [8, 4], 'W': [1.0, 2.0], 'Y': [[1.0, 2.0], [2.0, 1.0]]}
    mhs += [
        dict(base_m, kind='mh', obj='multi', ops=[['g', 0.0], ['E', 0.5], ['g', 0.5], ['n'], ['g', 0.5], ['t']]),
        dict(base_m, kind='mh', obj='profile', ns0=0.5, ops=[['E', 0.0], ['t'], ['n'], ['E', 0.0], ['g', 1, 0.0], ['g', 0, 0.0], ['u']]),
    ]
    lhs += [{'kind': 'lh', 'R': [0.0, 2.0, 1.0], 'N': 4, 'ops': [['g', 0.0], ['e', 3.998], ['g', 3.998], ['n'], ['t']]},
            {'kind': 'lh', 'R': [1.0, 1.0], 'N': 2, 'ops': [['u']]}]
    # ---- correspondence, one driver batch (+ the multi-round batch for the real objects)
    reqs = [corr_request(c) for c in cases]
    models = ctx.driver('C12', reqs)
    suspicious = []
    for c, m in zip(cases, models):
        ctx.case(nontrivial=True, key={k_: v_ for k_, v_ in c.items() if k_ != '_impl'},
                 desc={k_: v_ for k_, v_ in c.items() if k_ != '_impl'} if ctx.evaluations % 389 == 0 else None)
        ctx.count('corr:' + c['kind'])
        for lab in _branches(c, m):
            ctx.count('branch:' + lab)
        d = r7.compare(ctx, c, m, _fl, _f) if c['kind'] == 'pfd' else corr_compare(c, m)
        if d:
            suspicious.append((c, m, d))
    for c, d in zip(reals, _corr_real(ctx, reals)):
        ctx.case(nontrivial=True, key=c, desc=c if ctx.evaluations % 97 == 0 else None)
        ctx.count('corr:real')
        if d:
            suspicious.append((c, None, d))
    for c, d in zip(lhs, _corr_lh(ctx, lhs)):
        ctx.case(nontrivial=True, key=c, desc=c if ctx.evaluations % 97 == 0 else None)
        ctx.count('corr:lh')
        if d:
            suspicious.append((c, None, d))
    for c, d in zip(mhs, _corr_mh(ctx, mhs)):
        ctx.case(nontrivial=True, key=c, desc=c if ctx.evaluations % 97 == 0 else None)
        ctx.count('corr:mh')
        if d:
            suspicious.append((c, None, d))
    for c, d in zip(hists, _corr_hist(ctx, hists)):
        ctx.case(nontrivial=True, key=c, desc=c if ctx.evaluations % 197 == 0 else None)
        ctx.count('corr:hist')
        if d:
            suspicious.append((c, None, d))
    # ---- property oracles on the implementation
    for name, oc in ocases:
        ctx.case(nontrivial=True, key=(name, oc), desc={'oracle': name, 'case': oc} if ctx.evaluations % 499 == 0 else None)
        ctx.count('oracle:' + name)
        res = ORACLES[name](ctx, oc)
        if res:
            if name == 'ts_history':
                oc = _shrink_hist(ctx, oc, o_ts_history)
                res = o_ts_history(ctx, oc) or res
            ctx.violation(name, oc, res, signature=_signature(name, oc, res))
    # ---- disagreements: look for a failing input, else report the relation that no longer holds
    seen = set()
    for c, m, d in suspicious:
        k = c['kind']
        tag = (k, d.split(':')[0])
        if tag in seen:
            continue
        seen.add(tag)
        hit = None
        for name, conv in _ORACLE_OF_KIND.get(k, []):
            oc = conv(c)
            hit = ORACLES[name](ctx, oc)
            if hit:
                ctx.violation(name, oc, hit, model_output=m, signature='C12/%s/%s' % (name, _classify(hit)))
                break
        if not hit:
            ctx.violation('corr', c, 'model and implementation disagree (%s) but no property oracle fails on this input' % d,
                          kind='correspondence', relation='C12 correspondence ' + d.split(':')[0], model_output=m,
                          signature='C12/corr/' + d.split(':')[0], no_failing_input=True)
    ctx.extra['correspondence_disagreements'] = len(suspicious)
    zero = [b_ for b_ in ALL_BRANCHES if ctx.counters.get('branch:' + b_, 0) == 0]
    ctx.extra['model_branches'] = {'total': len(ALL_BRANCHES), 'hit': len(ALL_BRANCHES) - len(zero),
                                   'zero_hit': [b_ for b_ in zero if b_ not in UNREACHABLE_BY_CONSTRUCTION],
                                   'unreachable_by_construction': {b_: UNREACHABLE_BY_CONSTRUCTION[b_] for b_ in zero if b_ in UNREACHABLE_BY_CONSTRUCTION}}
    if ctx.extra['model_branches']['zero_hit']:
        ctx.note('model branches without a correspondence case in this run: ' + ', '.join(ctx.extra['model_branches']['zero_hit']))


MANIFEST = dict(
    text=('Lean theorems over ℝ / any linear order for the executable model Model/Stat.lean: TS = 2 sgn(ns) logΛ with sgn(0)=+1, '
          'zero-ns Taylor TS = documented -2a²/(4b) where a, b are proved to be the first and second ns-derivative of logΛ, '
          'b < 0 (so the quotient exists), p-values in [0,1], antitone in the threshold, inclusive >= strict, p_sigma real, '
          'degree-1/2 inversion returns a point of the fitted curve on its rising branch, degree switch, and — from the data — the fitted curve is the weighted least-squares polynomial (np.polyfit inside the model); call-compatibility of '
          'calculate_ns_grad2 and of the Analysis -> TestStatistic call chain decided over signatures regenerated from the source. '
          'The model is compared on every run with the real TestStatistic classes (real ParameterModelMapper, real single- and '
          'multi-dataset LLH ratios; single calls and histories of calls on one instance), calculate_pval_from_trials(_mixed), polynomial_fit and the Python interpreter\'s keyword binding.'),
    note=('the model is stateless: object state of the TestStatistic classes is covered by history-level correspondence and a '
          'fresh-vs-used-object oracle, not by a state-machine theorem; np.polyfit: its least-squares problem and argument checks are modelled (Model/PolyFitR7.lean, exact rationals; theorem: the result minimises the weighted cost), the rounding of LAPACK is covered by a conditioning-dependent tolerance and rank-deficient samples are not compared; the gamma-fit branch of the mixed p-value is only checked for routing; IEEE rounding '
          'is outside the theorems; the second derivative is proved for the numerically stable regime (which contains ns = 0).'),
    design='DESIGN.md section 4 C12',
    technique='Lean 4 proof (real analysis: HasDerivAt, order/counting induction, algebra) + decide over generated signatures + '
              'model/implementation correspondence with exact-fraction and finite-difference oracles')
