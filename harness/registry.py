"""Per-property metadata from which MANIFEST.json is generated (tools/mkmanifest.py)."""

COMMON_NOTE = ('Trusted: Lean 4.33 kernel (+ leanchecker in the thorough tier); axioms propext, Classical.choice, Quot.sound only '
               '(audited with #print axioms on every run; no sorry/native_decide/bv_decide/own axioms); the hand-written model is '
               'tied to /repo by the correspondence check run on every invocation (harness/props/*.py + Driver/*.lean) and by '
               'constants/signatures regenerated from the source (harness/extract.py). Theorems are over the reals/rationals/any '
               'linear order: IEEE rounding, numpy/scipy/astropy internals and the OS are outside the theorems. ')

CHECKS = {
    'C14': dict(
        text=('Lean theorems over any linear order: is_on <-> membership in a half-open interval (incl. touching and zero-length '
              'intervals), window query = on-time ∩ window as point sets (empty when there is none), returned pieces lie inside the '
              'window and inside an original interval, event-subset mask, integrity check. The executable model (index arithmetic as '
              'coded, plus the specification form) is compared bit-exactly with Livetime.is_on / get_uptime_intervals_between / '
              'get_livetime_upto / draw_ontimes on every run; exact-fraction oracles search the implementation for failing inputs.'),
        note=('Proved for the specification form betweenSpec; equality of the index-arithmetic form with it, get_livetime_upto = measure and '
              'draw_ontimes in on-time are exhibited by the bit-exact correspondence and exact-fraction oracles only (partial).'),
        design='DESIGN.md section 4 C14',
        technique='Lean 4 proof (order theory, induction over interval lists) + bit-exact model/implementation correspondence'),
}

# properties not claimed, with the reason (kept current; empty reason = still to be built)
NOT_APPLICABLE = {}

# guarded hook commits in /repo (MANIFEST.hooks.source_commits)
HOOK_COMMITS = []
