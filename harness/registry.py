"""Per-property metadata from which MANIFEST.json is generated (tools/mkmanifest.py)."""

COMMON_NOTE = ('Trusted: Lean 4.33 kernel (+ leanchecker in the thorough tier); axioms propext, Classical.choice, Quot.sound only '
               '(audited with #print axioms on every run; no sorry/native_decide/bv_decide/own axioms); the hand-written model is '
               'tied to /repo by the correspondence check run on every invocation (harness/props/*.py + Driver/*.lean) and by '
               'constants/signatures regenerated from the source (harness/extract.py). Theorems are over the reals/rationals/any '
               'linear order: IEEE rounding, numpy/scipy/astropy internals and the OS are outside the theorems. Which callables of the '
               'anchored files are inside the Lean model (and which are only exercised through callers / oracles) is regenerated from the '
               'current source into evidence coverage.model_map on every run; when the tree under test differs from source_baseline.json '
               'the run continues with two further derived seeds (coverage.source_drift). ')

# properties whose check is built, self-tested and integrated (the MANIFEST text of each lives in
# harness/props/<id>.py : MANIFEST)
CLAIMED = ['C01', 'C02', 'C03', 'C04', 'C05', 'C06', 'C07', 'C08', 'C09', 'C10', 'C11', 'C12', 'C13', 'C14', 'C15', 'C16', 'C17', 'C18', 'C19', 'C20']

# properties not claimed, with the reason (kept current; empty reason = still to be built)
NOT_APPLICABLE = {}

# guarded hook commits in /repo (MANIFEST.hooks.source_commits)
HOOK_COMMITS = ['c295dca', '040551e']
