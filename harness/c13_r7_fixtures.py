"""Round 7 (C13): correspondence of skyllh.core.utils.flux_model
(create_scipy_stats_rv_continuous_from_TimeFluxProfile) with Model/FluxRvR7.lean.

A case = time profile spec, optional `pd` applied to the profile AFTER the random variable was created
(the variable holds a reference to the live profile but froze its support and normalisation), evaluation
points.  Only public attributes are read (t_start, t_stop, sigma_t, rv.pdf, rv.cdf)."""
import math
import warnings

import numpy as np

from harness.core import f2b, b2f, flist, parse_flist

RV_BRANCHES = [
    'rvNorm:zero', 'rvNorm:nonzero', 'rvNew:some', 'rvNew:none',
    'totalT:unityT', 'totalT:box', 'totalT:gauss',
    'rvPdf:inside', 'rvPdf:outside', 'rvCdf:above', 'rvCdf:inside', 'rvCdf:below',
    'cdfT:some', 'cdfT:none',
]
# `scale > 0` is false only for another literal in `.freeze(scale=…)`: not reachable with the current source
RV_BRANCHES_EXCLUDED = ['rvPdf:scale<=0 (freeze(scale=1) in the source)', 'rvCdf:scale<=0 (freeze(scale=1) in the source)']


def gen_rv_cases(ctx, c13):
    rng = ctx.rng
    cases = []

    def points(s, e, s1, e1):
        w = (e - s) if math.isfinite(e - s) and e > s else 1.0
        cand = [s - 0.3 * w, s, s + rng.random() * w, 0.5 * (s + e), e, e + 0.2 * w, s1, e1,
                0.5 * (s + s1), 0.5 * (e + e1)]
        return [x for x in cand if math.isfinite(x)] or [-5.0, 0.0, 58000.5]

    for _ in range(ctx.n(24, 300)):
        kind = rng.choice(['box', 'gauss', 'gauss', 'box', 'unityT'])
        spec = c13.gen_time_spec(rng, kind=kind)
        pd = []
        if kind != 'unityT' and rng.random() < 0.5:   # stale: the profile changes after the creation
            p = spec['p']
            if kind == 'box':
                pd = rng.choice([[['tw', p['tw'] * rng.choice([0.5, 2.0, 0.25])]], [['t0', p['t0'] + 0.3 * p['tw']]],
                                 [['t0', p['t0'] - 0.2 * p['tw']], ['tw', p['tw'] * 0.5]]])
            else:
                pd = rng.choice([[['sigma_t', p['sigma_t'] * rng.choice([0.5, 2.0])]], [['t0', p['t0'] + p['sigma_t']]],
                                 [['t0', p['t0'] - 2 * p['sigma_t']], ['sigma_t', p['sigma_t'] * 0.5]]])
        cases.append({'type': 'rv', 'spec': spec, 'pd': pd})
    # directed: zero-width box (total integral 0 -> norm stays at its default), unity, not a time profile
    cases.append({'type': 'rv', 'spec': {'kind': 'box', 'p': {'t0': 3.0, 'tw': 0.0}, 'unit': 'day'}, 'pd': []})
    cases.append({'type': 'rv', 'spec': {'kind': 'box', 'p': {'t0': 58000.0, 'tw': 0.0}, 'unit': 's'}, 'pd': [['tw', 2.0]]})
    cases.append({'type': 'rv', 'spec': {'kind': 'box', 'p': {'t0': 0.0, 'tw': 1.0}, 'unit': 'day'}, 'pd': [['tw', 0.5]]})
    cases.append({'type': 'rv', 'spec': {'kind': 'unityT', 'p': {}, 'unit': 'day'}, 'pd': []})
    cases.append({'type': 'rv', 'spec': {'kind': 'pl', 'p': {'E0': 1.0, 'gamma': 2.0}, 'unit': 'GeV'}, 'pd': []})
    for c in cases:
        c['points'] = points
    return cases


def _state(prof, kind):
    s, e = float(prof.t_start), float(prof.t_stop)
    sg = float(prof.sigma_t) if kind == 'gauss' else 0.0
    return s, e, sg


def run_rv_cases(ctx, c13, BR, suspicious, cases=None):
    """appends (case, impl, model, diff) to `suspicious`; counts branches in BR; `cases` given = replay of recorded
    cases (each with its evaluation point `x`)"""
    from scipy.special import erf
    from skyllh.core.utils.flux_model import create_scipy_stats_rv_continuous_from_TimeFluxProfile as mkrv
    replay = cases is not None
    cases = [dict(c) for c in cases] if replay else gen_rv_cases(ctx, c13)
    recs = []   # (case, kind, st0, st1, x, impl_pdf, impl_cdf)
    for c in cases:
        pts = c.pop('points', None) or (lambda *a_, _x=c.get('x'): [_x])
        spec, kind = c['spec'], c['spec']['kind']
        if not replay:
            ctx.case(nontrivial=True, key=('rv', spec, c['pd']))
            ctx.count('corr:rv' + (':stale' if c['pd'] else ''))
        with warnings.catch_warnings():
            warnings.simplefilter('ignore')
            with np.errstate(all='ignore'):
                prof = c13.build(spec)
                try:
                    rv = mkrv(prof)
                except TypeError:
                    recs.append((c, kind, None, None, None, 'TypeError', None))
                    continue
                except Exception as e:  # noqa
                    suspicious.append((c, 'EXC:' + type(e).__name__, None,
                                       'creating the random variable of %r raised %s: %s' % (spec, type(e).__name__, e)))
                    continue
                st0 = _state(prof, kind)
                if c['pd']:
                    prof.set_params(dict((k_, v_) for k_, v_ in c['pd']))
                st1 = _state(prof, kind)
                for x in pts(st0[0], st0[1], st1[0], st1[1]):
                    try:
                        ip = float(rv.pdf(x))
                        ic = float(rv.cdf(x)) if kind != 'unityT' else None
                    except Exception as e:  # noqa
                        suspicious.append((dict(c, x=x), 'EXC:' + type(e).__name__, None,
                                           'pdf/cdf(%r) of the random variable of %r raised %s: %s' % (x, spec, type(e).__name__, e)))
                        continue
                    recs.append((dict(c, x=x), kind, st0, st1, x, ip, ic))
    # phase 1: erf arguments of the gaussians (creation state: total integral; live state: cdf at x)
    need = [i for i, r in enumerate(recs) if r[1] == 'gauss']
    l1 = []
    for i in need:
        _, _, st0, st1, x, _, _ = recs[i]
        l1.append('gargs %s %s %s %s %s' % (f2b(st0[0]), f2b(st0[1]), f2b(st0[2]), f2b(x), f2b(x)))
        l1.append('gargs %s %s %s %s %s' % (f2b(st1[0]), f2b(st1[1]), f2b(st1[2]), f2b(x), f2b(x)))
    a1 = ctx.driver('C13', l1) if l1 else []
    tabs = {}
    for k_, i in enumerate(need):
        xs = sorted(set(parse_flist(a1[2 * k_]) + parse_flist(a1[2 * k_ + 1])))
        tabs[i] = (xs, [float(erf(v)) for v in xs])
    lines = []
    for i, (c, kind, st0, st1, x, ip, ic) in enumerate(recs):
        if st0 is None:
            z = f2b(0.0)
            lines.append('rv %s %s %s %s %s %s %s %s - -' % (kind, z, z, z, z, z, z, z))
            continue
        xs, ys = tabs.get(i, ((), ()))
        lines.append('rv %s %s %s %s %s %s %s %s %s %s' % (kind, f2b(st0[0]), f2b(st0[1]), f2b(st0[2]), f2b(st1[0]), f2b(st1[1]),
                                                          f2b(st1[2]), f2b(x), flist(xs), flist(ys)))
    outs = ctx.driver('C13', lines) if lines else []
    for (c, kind, st0, st1, x, ip, ic), o in zip(recs, outs):
        if st0 is None or o == 'ERR':
            BR['rvNew:none'] += 1
            if not (st0 is None and o == 'ERR'):
                suspicious.append((c, ip, o, 'random variable of %r: implementation %s, model %r' % (c['spec'], ip, o)))
            continue
        BR['rvNew:some'] += 1
        BR['totalT:' + kind] += 1
        hdr, mp, mc = o.split(' ')
        a, b, norm = parse_flist(hdr)
        BR['rvNorm:' + ('zero' if norm == 0.0 and kind != 'unityT' else 'nonzero')] += 1
        BR['rvPdf:' + ('inside' if a <= x <= b else 'outside')] += 1
        if mp == 'none':
            suspicious.append((c, ip, o, 'random variable of %r: model pdf = none (scale <= 0), implementation %r' % (c['spec'], ip)))
            continue
        mpv = b2f(mp)
        if not (ip == mpv or abs(ip - mpv) <= 1e-9 * max(abs(ip), abs(mpv)) + 1e-300 or (math.isnan(ip) and math.isnan(mpv))):
            suspicious.append((c, ip, mpv, 'random variable of %r%s: pdf(%r) implementation %r, model %r'
                               % (c['spec'], ' after set_params(%r)' % c['pd'] if c['pd'] else '', x, ip, mpv)))
            continue
        if mc == 'none':
            BR['cdfT:none'] += 1
            if kind != 'unityT':
                suspicious.append((c, ic, o, 'random variable of %r: model cdf = none, implementation %r' % (c['spec'], ic)))
            continue
        BR['cdfT:some'] += 1
        BR['rvCdf:' + ('above' if x >= b else ('inside' if x > a else 'below'))] += 1
        mcv = b2f(mc)
        if not (ic == mcv or abs(ic - mcv) <= 1e-9 or (math.isnan(ic) and math.isnan(mcv))):
            suspicious.append((c, ic, mcv, 'random variable of %r%s: cdf(%r) implementation %r, model %r'
                               % (c['spec'], ' after set_params(%r)' % c['pd'] if c['pd'] else '', x, ic, mcv)))
