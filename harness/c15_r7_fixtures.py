"""Round-7 material of property C15 (imported by harness/props/c15.py only).

* structure constants of the current source for Generated/C15.lean: the `searchsorted` sides and the index shift of the three
  IrregularParameterGrid roundings, the literal factor of the parabola gradient;
* correspondence kinds `ilinrun` (Linear1D method over an irregular grid inside a ParameterGridSet, call histories), `gsetx` / `isetx`
  (ParameterGridSet.add_extra_lower_and_upper_bin over regular / irregular grids incl. a raising member), `irrp` / `parp` (the
  parametrised model functions instantiated with the generated constants);
* oracle `ilin`: irregular linear interpolation on the implementation alone (grid points reproduced, degree 1 exact, gradient = slope of
  the cell, used object = fresh object, outside [first, last) raises and leaves the object usable).
"""
import ast
import os
from fractions import Fraction

import numpy as np

from harness.core import f2b, flist, ilist, parse_flist

KINDS = ('ilinrun', 'gsetx', 'isetx', 'irrp', 'parp')

DEFAULTS = {'irrLowerSideRight': True, 'irrLowerShift': 1, 'irrUpperSideRight': True, 'irrNearestSideRight': False, 'parGradFactor': 2}

BRANCHES = {
    'ilin:lower-raises': None, 'ilin:upper-raises': None, 'ilin:raise-wrong-length': None, 'ilin:raise-manifold-length': None,
    'ilin:first-call': None, 'ilin:no-state-id': None, 'ilin:miss-state-change': None, 'ilin:miss-other-cell': None, 'ilin:hit': None,
    'gset:complete': None, 'gset:raised': None, 'gset:D=1': None, 'gset:D>=2': None, 'iset:complete': None, 'iset:raised': None,
    'irrp:evaluated': None, 'parp:evaluated': None,
}


# ------------------------------------------------------------------------------------------
# structure constants of the current source

def _method(tree, cls, name):
    c = [n for n in ast.walk(tree) if isinstance(n, ast.ClassDef) and n.name == cls][0]
    return [f for f in c.body if isinstance(f, ast.FunctionDef) and f.name == name and not f.decorator_list][0]


def _searchsorted(fn):
    """(side == 'right', integer subtracted from the result) of the single searchsorted call of a rounding method"""
    calls = [n for n in ast.walk(fn) if isinstance(n, ast.Call) and isinstance(n.func, ast.Attribute) and n.func.attr == 'searchsorted']
    if len(calls) != 1:
        raise ValueError('%d searchsorted calls in %s' % (len(calls), fn.name))
    side = 'left'
    for kw in calls[0].keywords:
        if kw.arg == 'side':
            side = kw.value.value
    if len(calls[0].args) >= 3:
        side = calls[0].args[2].value
    if side not in ('left', 'right'):
        raise ValueError('side=%r' % (side,))
    shift = 0
    for n in ast.walk(fn):
        if isinstance(n, ast.BinOp) and n.left is calls[0]:
            if isinstance(n.op, ast.Sub) and isinstance(n.right, ast.Constant) and isinstance(n.right.value, int) and n.right.value >= 0:
                shift = n.right.value
            else:
                raise ValueError('arithmetic on the searchsorted result is not `- <int>`')
    return side == 'right', shift


def extract(repo):
    """-> (constants, notes).  Falls back to the recorded value (with a note) for whatever cannot be read."""
    out, notes = dict(DEFAULTS), []
    try:
        with open(os.path.join(repo, 'skyllh/core/parameters.py')) as f:
            tree = ast.parse(f.read())
        for key, meth in (('Lower', 'round_to_lower_grid_point'), ('Upper', 'round_to_upper_grid_point'), ('Nearest', 'round_to_nearest_grid_point')):
            try:
                right, shift = _searchsorted(_method(tree, 'IrregularParameterGrid', meth))
                out['irr%sSideRight' % key] = right
                if key == 'Lower':
                    out['irrLowerShift'] = shift
                elif shift != 0:
                    raise ValueError('index shift %d' % shift)
            except Exception as e:  # noqa
                notes.append(('irr%sSideRight' % key, 'IrregularParameterGrid.%s: %s: %s' % (meth, type(e).__name__, e)))
    except Exception as e:  # noqa
        notes.append(('irrLowerSideRight', 'parameters.py: %s: %s' % (type(e).__name__, e)))
    try:
        with open(os.path.join(repo, 'skyllh/core/interpolate.py')) as f:
            tree = ast.parse(f.read())
        fn = _method(tree, 'Parabola1DGridManifoldInterpolationMethod', '__call__')
        found = None
        for n in ast.walk(fn):
            if isinstance(n, ast.Assign) and len(n.targets) == 1 and isinstance(n.targets[0], ast.Name) and n.targets[0].id == 'grads':
                # grads = <c> * a * x_minus_x1 + b : the left-most constant of the product
                e = n.value
                while isinstance(e, ast.BinOp):
                    e = e.left
                if isinstance(e, ast.Constant) and float(e.value) == int(e.value) and 0 <= int(e.value) <= 100:
                    found = int(e.value)
        if found is None:
            raise ValueError('no `grads = <integer literal> * …` in Parabola1D…__call__')
        out['parGradFactor'] = found
    except Exception as e:  # noqa
        notes.append(('parGradFactor', '%s: %s' % (type(e).__name__, e)))
    return out, notes


def lean_consts(c):
    b = lambda x: 'true' if x else 'false'      # noqa
    return ('/-- `np.searchsorted(self.grid, value, side=…)` in `IrregularParameterGrid.round_to_lower_grid_point` (`true` = \'right\') -/\n'
            'def irrLowerSideRight : Bool := %s\n'
            '/-- the integer subtracted from that index -/\n'
            'def irrLowerShift : Nat := %d\n'
            '/-- side of `IrregularParameterGrid.round_to_upper_grid_point` -/\n'
            'def irrUpperSideRight : Bool := %s\n'
            '/-- side of `IrregularParameterGrid.round_to_nearest_grid_point` (search in the bin centres) -/\n'
            'def irrNearestSideRight : Bool := %s\n'
            '/-- the literal of `grads = 2. * a * x_minus_x1 + b` in `Parabola1DGridManifoldInterpolationMethod.__call__` -/\n'
            'def parGradFactor : Nat := %d\n'
            % (b(c['irrLowerSideRight']), c['irrLowerShift'], b(c['irrUpperSideRight']), b(c['irrNearestSideRight']), c['parGradFactor']))


# ------------------------------------------------------------------------------------------
# building objects

def _H():
    from harness.props import c15
    return c15


def mk_irr_method(case, persistent=True, record=None):
    """(method object, irregular grid object, g0, delta of the stub manifold's coordinate)"""
    H = _H()
    from skyllh.core import interpolate as ip
    from skyllh.core.parameters import ParameterGridSet
    g = H.mk_irr({'arr': case['arr'], 'extra': case.get('extra', 0), 'via': case.get('via', ())})
    G = [float(x) for x in g.grid]
    g0 = G[0]
    delta = (G[-1] - G[0]) / max(1, len(G) - 1) or 1.0
    func = H.mk_func(case['func'], case['ns'], g0, delta, record, persistent, case.get('bad_len', 0))
    pgs = ParameterGridSet([g])
    if case.get('set_via') == 'copy':
        pgs = pgs.copy()
    m = ip.Linear1DGridManifoldInterpolationMethod(func=func, param_grid_set=pgs)
    return m, g, g0, delta


def _scale(fspec, G, g0, delta, ns):
    H = _H()
    us = [(x - g0) / delta for x in G]
    mx = max(abs(H.f_eval(fspec, u)) for u in us) * (1.0 + 0.25 * max(1, max(ns))) + 0.5 * 6 * max(abs(u) for u in us) + 1.0
    return mx


# ------------------------------------------------------------------------------------------
# correspondence

def lines(case):
    H = _H()
    k = case['kind']
    if k == 'ilinrun':
        m, g, g0, delta = mk_irr_method(case)
        ns = case['ns']
        bad = case.get('bad_len', 0)
        G = [float(x) for x in g.grid]
        table, impl = {}, []
        for sid, xs in case['calls']:
            xa = np.array(xs, dtype=np.float64)
            for fn in (g.round_to_lower_grid_point, g.round_to_upper_grid_point):
                try:
                    gp_ = fn(xa)
                except IndexError:
                    continue
                key = (sid, tuple(f2b(x) for x in gp_))
                if key not in table:
                    table[key] = np.concatenate([H.manifold_values(case['func'], sid, gp_.tolist(), ns, g0, delta), np.ones(bad)])
            try:
                v, gr = H.call_method(m, ns, sid, xs, case.get('pr_form', 'plain'))
                impl.append((v.tolist(), gr[0].tolist()))
            except H.InputChanged:
                raise
            except Exception:  # noqa
                impl.append('ERR')
        sd = lambda x: 'N' if x is None else '%d' % x          # noqa
        tab = ';'.join('%s:%s:%s' % (sd(sid), ','.join(key), flist(vals)) for (sid, key), vals in table.items()) or '-'
        cl = ';'.join('%s:%s' % (sd(sid), flist(xs)) for sid, xs in case['calls'])
        widths = [b - a for a, b in zip(G, G[1:])] or [1.0]
        return ['ilinrun %s %s %s %s' % (flist(G), ilist(ns), tab, cl)], \
            {'res': impl, 'scale': _scale(case['func'], G, g0, delta, ns), 'span': G[-1] - G[0], 'wmin': min(widths),
             'absx': max(abs(G[0]), abs(G[-1])), 'store': H.manifold_of(m).changed()}
    if k == 'gsetx':
        from skyllh.core.parameters import ParameterGridSet
        objs, toks = [], []
        for i, sp in enumerate(case['grids']):
            g = H.mk_grid(dict(sp, extra=0))
            g.name = 'p%d' % i
            toks.append('%s|%s|%d|%s' % (flist(sp['arr']), f2b(sp['delta']), sp['decimals'], 'E' if sp.get('emptied') else '-'))
            if sp.get('emptied'):
                g.grid = []
            objs.append(g)
        pgs = ParameterGridSet(objs)
        if case.get('set_via') == 'copy':
            pgs = pgs.copy()
        try:
            pgs.add_extra_lower_and_upper_bin()
            done = 'complete'
        except Exception:  # noqa
            done = 'raised'
        st = [(float(o.lower_bound), float(o.delta), [float(x) for x in o.grid]) for o in pgs.objects]
        return ['gsetx %s' % ';'.join(toks)], {'done': done, 'states': st, 'nperm': len(pgs.parameter_permutation_dict_list)}
    if k == 'isetx':
        from skyllh.core.parameters import IrregularParameterGrid, ParameterGridSet
        objs = [IrregularParameterGrid('p%d' % i, np.array(a, dtype=np.float64)) for i, a in enumerate(case['grids'])]
        pgs = ParameterGridSet(objs)
        if case.get('set_via') == 'copy':
            pgs = pgs.copy()
        try:
            pgs.add_extra_lower_and_upper_bin()
            done = 'complete'
        except Exception:  # noqa
            done = 'raised'
        return ['isetx %s' % ';'.join(flist(a) for a in case['grids'])], \
            {'done': done, 'grids': [[float(x) for x in o.grid] for o in pgs.objects]}
    if k == 'irrp':
        g = H.mk_irr({'arr': case['arr']})
        G = [float(x) for x in g.grid]
        impl = []
        for v in case['vs']:
            r = []
            for fn in (g.round_to_nearest_grid_point, g.round_to_lower_grid_point, g.round_to_upper_grid_point):
                try:
                    r.append(float(fn(float(v))))
                except IndexError:
                    r.append('ERR')
            impl.append(r)
        return ['irrp %s %s' % (flist(G), f2b(v)) for v in case['vs']], impl
    if k == 'parp':
        # the parabola method on a regular grid with one source / one value: the reported gradient
        spec, fspec, x = case['grid'], case['func'], case['x']
        g = H.mk_grid(spec)
        rec = []
        m = H.mk_method('parabola', g, fspec, [1], record=rec)
        v, gr = H.call_method(m, [1], 1, [x])
        x1 = float(g.round_to_nearest_grid_point(x))
        byg = {f2b(gs[0]): vals[0] for _, gs, vals in rec}
        x0, x2 = float(g.round_to_nearest_grid_point(x1 - g.delta)), float(g.round_to_nearest_grid_point(x1 + g.delta))
        M0, M1, M2 = byg[f2b(x0)], byg[f2b(x1)], byg[f2b(x2)]
        d = float(g.delta)
        return ['parp %s %s %s %s %s %s' % (f2b(x1), f2b(d), f2b(M0), f2b(M1), f2b(M2), f2b(x))], \
            {'grad': float(gr[0][0]), 'tol': 1e-9 * (abs(M0) + 2 * abs(M1) + abs(M2) + 1e-300) / d}
    raise ValueError(k)


def compare(case, impl, model, diag):
    H = _H()
    k = case['kind']
    if k == 'ilinrun':
        if impl.get('store'):
            return 'irregular history: ' + impl['store']
        parts = model[0].split(';')
        if len(parts) != len(impl['res']):
            return 'irregular history: %d answers from the model for %d calls' % (len(parts), len(impl['res']))
        # values: |M| scale times the conditioning of (x - x0)/(x1 - x0) (span / narrowest cell, one ulp of the abscissae each)
        cond = 1.0 + (impl['absx'] + impl['span']) / impl['wmin']
        tol = 1e-9 * impl['scale'] * min(cond, 1e6)
        for i, (a, b) in enumerate(zip(impl['res'], parts)):
            if a == 'ERR' or b == 'ERR':
                if a != b:
                    return 'irregular history call %d: implementation %s, model %s' % (
                        i, 'raises' if a == 'ERR' else 'returns', 'raises' if b == 'ERR' else 'returns')
                continue
            mv, mg = [parse_flist(x) for x in b.split(':')]
            r = H._cmp_flists('call %d values' % i, a[0], mv, tol, diag) or H._cmp_flists('call %d grads' % i, a[1], mg, tol / impl['wmin'], diag)
            if r:
                return 'irregular history ' + r
        return None
    if k == 'gsetx':
        body, done = model[0].rsplit(' ', 1)
        if done != impl['done']:
            return 'grid set extension: implementation %s, model %s' % (impl['done'], done)
        sts = body.split(';') if body else []
        if len(sts) != len(impl['states']):
            return 'grid set extension: %d states from the model for %d grids' % (len(sts), len(impl['states']))
        for i, (s, (lb, d, G)) in enumerate(zip(sts, impl['states'])):
            mlb, md, mG = s.split('|')
            tol = 1e-9 * d
            if not H._close(lb, parse_flist(mlb)[0], tol) or not H._close(d, parse_flist(md)[0], tol):
                return 'grid set extension, grid %d: descriptors (%r, %r), model (%r, %r)' % (i, lb, d, parse_flist(mlb)[0], parse_flist(md)[0])
            r = H._cmp_flists('grid set extension, grid %d' % i, G, parse_flist(mG), tol, diag)
            if r:
                return r
        return None
    if k == 'isetx':
        body, done = model[0].rsplit(' ', 1)
        if done != impl['done']:
            return 'irregular grid set extension: implementation %s, model %s' % (impl['done'], done)
        gs = body.split(';') if body else []
        if len(gs) != len(impl['grids']):
            return 'irregular grid set extension: %d grids from the model for %d' % (len(gs), len(impl['grids']))
        for i, (s, G) in enumerate(zip(gs, impl['grids'])):
            tol = 4 * np.finfo(float).eps * max(1.0, max(abs(x) for x in G))
            r = H._cmp_flists('irregular grid set extension, grid %d' % i, G, parse_flist(s), tol, diag)
            if r:
                return r
        return None
    if k == 'irrp':
        for v, a, b in zip(case['vs'], impl, model):
            mt = b.split(' ')
            for nm, x, y in zip(('nearest', 'lower', 'upper'), a, mt):
                if x == 'ERR' or y == 'ERR':
                    if x != y:
                        return 'irregular %s(%r): implementation %s, model with the sides of the source %s' % (nm, v, x, y)
                elif x != parse_flist(y)[0]:
                    return 'irregular %s(%r): implementation %r, model with the sides of the source %r' % (nm, v, x, parse_flist(y)[0])
        return None
    if k == 'parp':
        mg = parse_flist(model[0])[0]
        if mg != impl['grad']:
            diag[0] += 1
        if not H._close(mg, impl['grad'], impl['tol']):
            return 'parabola gradient: implementation %r, model with the factor of the source %r' % (impl['grad'], mg)
        return None
    raise ValueError(k)


def oracles_for(case):
    k = case['kind']
    if k == 'ilinrun':
        c = {x: case[x] for x in ('arr', 'extra', 'via', 'func', 'ns', 'calls', 'pr_form', 'set_via') if x in case}
        return [('ilin', c), ('ilin', dict(c, func={'kind': 'poly', 'c': [0.75, -1.25, 0.0]}))]
    if k == 'irrp':
        return [('irr', {'grid': {'arr': case['arr'], 'extra': 0, 'via': []}, 'vs': case['vs']})]
    if k == 'parp':
        c = {'grid': case['grid'], 'method': 'parabola', 'func': case['func'], 'ns': [1], 'xs': [case['x']], 'sid': 1}
        return [('interp', c)]
    if k in ('gsetx', 'isetx'):
        return [('gridset', {x: case[x] for x in ('kind', 'grids', 'set_via') if x in case})]
    return []


# ------------------------------------------------------------------------------------------
# oracles on the implementation alone

def _exact_line(x0, x1, m0, m1, x):
    x0, x1, m0, m1, x = [Fraction(float(t)) for t in (x0, x1, m0, m1, x)]
    s = (m1 - m0) / (x1 - x0)
    return s * (x - x0) + m0, s


def o_ilin(ctx, case):
    """Linear interpolation over an irregular grid (implementation alone): every value of source k is the exact line through the
    manifold values the method was given at source k's own neighbouring grid members, the gradient is its slope; at a grid member the
    manifold value is reproduced; a polynomial of degree 1 is reproduced everywhere; the used object answers like a fresh one; outside
    [first, last) the call raises IndexError and the next valid call answers like a fresh object."""
    H = _H()
    ns = case['ns']
    used, g, g0, delta = mk_irr_method(case, persistent=True)
    G = [float(x) for x in g.grid]
    fspec = case['func']
    eps = float(np.finfo(float).eps)
    for ci, (sid, xs) in enumerate(case['calls']):
        rec = []
        fresh, _, _, _ = mk_irr_method(case, persistent=False, record=rec)
        valid = len(xs) in (1, len(ns))
        inside = all(G[0] <= x < G[-1] for x in xs)
        try:
            fv, fg = H.call_method(fresh, ns, sid, xs)
            fres = None
        except H.InputChanged:
            raise
        except Exception as e:  # noqa
            fres = e
        try:
            uv, ug = H.call_method(used, ns, sid, xs, case.get('pr_form', 'plain'))
            ures = None
        except H.InputChanged:
            raise
        except Exception as e:  # noqa
            ures = e
        if (fres is None) != (ures is None):
            return 'irregular grid %r, call %d (state %r, xs=%r): the used object %s, a fresh object %s' % (
                G, ci, sid, xs, 'raises %s' % type(ures).__name__ if ures is not None else 'answers',
                'raises %s' % type(fres).__name__ if fres is not None else 'answers')
        if fres is not None:
            if valid and inside:
                return 'irregular grid %r, xs=%r inside [first, last): the linear method raises %s: %s' % (G, xs, type(fres).__name__, fres)
            continue
        if not valid:
            return 'irregular grid %r: %d parameter values for %d sources are accepted' % (G, len(xs), len(ns))
        if not inside:
            return 'irregular grid %r, xs=%r: a value outside [first, last) is answered (%r)' % (G, xs, fv.tolist()[:4])
        if fg.shape != (1, sum(ns)) or fv.shape != (sum(ns),):
            return 'irregular grid: shapes %r, %r for %d values' % (fv.shape, fg.shape, sum(ns))
        # the manifold values the fresh object was given, by grid values
        byg = {tuple(f2b(t) for t in gs): vals for _, gs, vals in rec}
        per = xs if len(xs) == len(ns) else [xs[0]] * len(ns)
        lo = [max(t for t in G if t <= x) for x in xs]
        up = [min(t for t in G if t > x) for x in xs]
        M0, M1 = byg.get(tuple(f2b(t) for t in lo)), byg.get(tuple(f2b(t) for t in up))
        if M0 is None or M1 is None:
            return 'irregular grid %r, xs=%r: the manifold function was not asked for the neighbouring grid members %r / %r but for %r' % (
                G, xs, lo, up, [r[1] for r in rec])
        i = 0
        for k_, n in enumerate(ns):
            x = per[k_]
            x0 = lo[k_ % len(lo)]
            x1 = up[k_ % len(up)]
            for _j in range(n):
                ev, es = _exact_line(x0, x1, M0[i], M1[i], x)
                w = x1 - x0
                # (M1-M0)/(x1-x0) and m*x + (M0 - m*x0): a few roundings of terms of size |m|*max|x|, |M|
                slope_mag = (abs(M0[i]) + abs(M1[i])) / w
                tol_s = 16 * eps * slope_mag + 1e-300
                tol_v = 32 * eps * (slope_mag * (abs(x) + abs(x0)) + abs(M0[i]) + abs(M1[i])) + 1e-300
                if abs(Fraction(float(fv[i])) - ev) > tol_v:
                    return ('irregular grid %r, xs=%r (state %r): value %d of source %d is %r, the line through (%r, %r) and (%r, %r) at %r is %r'
                            % (G, xs, sid, i, k_, float(fv[i]), x0, M0[i], x1, M1[i], x, float(ev)))
                if abs(Fraction(float(fg[0][i])) - es) > tol_s:
                    return ('irregular grid %r, xs=%r (state %r): gradient %d of source %d is %r, the slope of the line through (%r, %r) and (%r, %r) is %r'
                            % (G, xs, sid, i, k_, float(fg[0][i]), x0, M0[i], x1, M1[i], float(es)))
                if x == x0 and abs(float(fv[i]) - M0[i]) > tol_v:
                    return 'irregular grid %r: at the grid member %r value %d is %r, the manifold value is %r' % (G, x, i, float(fv[i]), M0[i])
                if abs(float(uv[i]) - float(fv[i])) > 2 * tol_v or abs(float(ug[0][i]) - float(fg[0][i])) > 2 * tol_s:
                    return ('irregular grid %r, call %d of the history %r: the used object returns value/gradient %r/%r, a fresh object %r/%r'
                            % (G, ci, case['calls'][:ci + 1], float(uv[i]), float(ug[0][i]), float(fv[i]), float(fg[0][i])))
                if fspec['kind'] == 'poly' and fspec['c'][2] == 0 and (sid or 0) % 7 == 0:
                    u = (Fraction(x) - Fraction(g0)) / Fraction(delta)
                    want = (Fraction(fspec['c'][0]) + Fraction(fspec['c'][1]) * u) * (1 + Fraction(1, 4) * _j)
                    if abs(Fraction(float(fv[i])) - want) > 4 * tol_v + 64 * eps * abs(want):
                        return 'irregular grid %r: degree-1 manifold function, value %d at %r is %r, the function is %r' % (
                            G, i, x, float(fv[i]), float(want))
                i += 1
        # purity: what the caller does with the answer must not reach the object
        uv *= 2.0
        ug *= 2.0
    ch = H.manifold_of(used).changed()
    if ch:
        return 'irregular history: ' + ch
    return None


def o_gridset(ctx, case):
    """ParameterGridSet.add_extra_lower_and_upper_bin (implementation alone): when it completes, every grid of the set has two more
    points, its former points are kept in the middle, the permutation list has prod(n_i + 2) entries, and every member answers the
    roundings like a freshly constructed grid with the same points."""
    H = _H()
    from skyllh.core.parameters import IrregularParameterGrid, ParameterGridSet
    if case['kind'] == 'isetx':
        objs = [IrregularParameterGrid('p%d' % i, np.array(a, dtype=np.float64)) for i, a in enumerate(case['grids'])]
    else:
        if any(sp.get('emptied') for sp in case['grids']):
            return None        # grid setter: outside the quantifier (only the model comparison sees it)
        objs = []
        for i, sp in enumerate(case['grids']):
            g = H.mk_grid(dict(sp, extra=0))
            g.name = 'p%d' % i
            objs.append(g)
    before = [[float(x) for x in o.grid] for o in objs]
    pgs = ParameterGridSet(objs)
    if case.get('set_via') == 'copy':
        pgs = pgs.copy()
    try:
        pgs.add_extra_lower_and_upper_bin()
    except Exception as e:  # noqa
        if all(len(b) >= 2 for b in before):
            return 'grid set %r: add_extra_lower_and_upper_bin raises %s: %s' % (before, type(e).__name__, e)
        return None
    if any(len(b) < 2 for b in before) and case['kind'] == 'isetx':
        return 'grid set %r: an irregular grid with fewer than two points was extended' % (before,)
    nperm = 1
    for b, o in zip(before, pgs.objects):
        G = [float(x) for x in o.grid]
        nperm *= len(G)
        tol = 1e-9 * (float(o.delta) if case['kind'] == 'gsetx' else max(1.0, max(abs(x) for x in G)) * 1e-6)
        if len(G) != len(b) + 2 or any(abs(x - y) > tol for x, y in zip(G[1:-1], b)):
            return 'grid set: the grid %r became %r' % (b, G)
        if not all(x < y for x, y in zip(G, G[1:])):
            return 'grid set: the extended grid %r is not increasing' % (G,)
        if case['kind'] == 'gsetx':
            d = float(o.delta)
            if abs((G[1] - G[0]) - d) > tol or abs((G[-1] - G[-2]) - d) > tol:
                return 'grid set: the extended grid %r is not equidistant (delta %r)' % (G, d)
            for v in (G[0], G[0] + 0.3 * d, G[-2] + 0.5 * d, G[-1]):
                k = int(np.floor((v - G[0]) / d + 1e-6))
                got = float(o.round_to_lower_grid_point(v))
                if got != G[min(k, len(G) - 1)]:
                    return 'grid set member %r after the extension: round_to_lower_grid_point(%r) = %r is not the member %r' % (
                        G, v, got, G[min(k, len(G) - 1)])
    if len(pgs.parameter_permutation_dict_list) != nperm:
        return 'grid set: %d permutations for grids of sizes %r' % (len(pgs.parameter_permutation_dict_list), [len(o.grid) for o in pgs.objects])
    return None


ORACLES = {'ilin': o_ilin, 'gridset': o_gridset}


# ------------------------------------------------------------------------------------------
# generation

def gen(ctx, rng):
    """-> (correspondence cases, oracle cases)"""
    H = _H()
    corr, orc = [], []
    # directed: every branch of the irregular linear call
    _P = {'kind': 'poly', 'c': [0.5, 1.5, 0.0]}
    directed = [
        {'arr': [1.0, 2.0, 4.0, 8.0], 'func': _P, 'ns': [2, 1], 'calls': [[1, [2.5, 5.0]], [1, [3.0, 7.0]], [1, [1.5, 7.0]], [2, [1.5, 7.0]],
                                                                           [None, [1.5, 7.0]], [1, [8.0, 7.0]], [1, [0.5, 3.0]],
                                                                           [1, [2.0, 3.0, 5.0]], [1, [2.0]], [1, [2.0, 2.0]], [1, [4.0, 4.0]]]},
        {'arr': [1.0, 2.0, 4.0, 8.0], 'func': _P, 'ns': [2, 1], 'calls': [[1, [2.5, 5.0]], [1, [2.5, 5.0]]], 'bad_len': 1},
        {'arr': [-3.0, 0.0, 0.5], 'func': {'kind': 'sin', 'a': 0.3, 'b': 1.0}, 'ns': [1], 'calls': [[1, [0.0]], [1, [0.25]], [1, [0.5]], [1, [-3.0]]]},
    ]
    for c in directed:
        corr.append(dict(c, kind='ilinrun'))
        orc.append(('ilin', {x: c[x] for x in c if x != 'bad_len'}))
    for gi in range(ctx.n(60, 1500)):
        spec = H.gen_irregular(rng)
        if len(spec['arr']) < 2:
            spec['arr'] = spec['arr'] + [spec['arr'][-1] + 1.5]
        try:
            g = H.mk_irr(spec)
        except Exception:  # noqa
            continue
        G = [float(x) for x in g.grid]
        n = len(G)
        nsrc = rng.randint(1, 4)
        ns = H.gen_ns(rng, nsrc)
        calls = []
        for _ in range(rng.randint(2, 6)):
            r = rng.random()
            if calls and r < 0.3:
                prev = calls[-1][1]
                xs = [min(max(x + rng.choice([0.0, 0.0, 0.1, -0.1]) * (G[-1] - G[0]) / n, G[0]), np.nextafter(G[-1], -np.inf)) for x in prev]
                xs = [float(x) for x in xs]
            elif calls and r < 0.45 and nsrc > 1:
                prev = calls[-1][1]
                xs = [prev[0]] * nsrc if len(prev) != nsrc else [prev[0]]
            else:
                xs = []
                for _s in range(1 if rng.random() < 0.3 else nsrc):
                    k = rng.randrange(n - 1)
                    c = rng.random()
                    if c < 0.3:
                        x, tag = G[k], 'on-grid'
                    elif c < 0.45:
                        x, tag = (G[k] + G[k + 1]) / 2, 'half-way'
                    elif c < 0.55:
                        x, tag = float(np.nextafter(G[k + 1], -np.inf)), 'just-below-a-member'
                    elif c < 0.62:
                        x, tag = rng.choice([G[-1], G[-1] + 1.0, G[0] - 1.0, float(np.nextafter(G[0], -np.inf))]), 'out-of-range'
                    else:
                        x, tag = rng.uniform(G[k], G[k + 1]), 'random'
                        if not (G[k] <= x < G[k + 1]):
                            x = G[k]
                    ctx.count('ilin-x:%s' % tag)
                    xs.append(float(x))
            if rng.random() < 0.1:
                xs = H.wrong_length(rng, nsrc, xs)
            calls.append([rng.choice([1, 1, 1, 2, None]), xs])
        c = {'arr': spec['arr'], 'extra': spec['extra'], 'via': spec['via'], 'func': H.gen_func(rng), 'ns': ns, 'calls': calls,
             'pr_form': rng.choice(H.PR_FORMS), 'set_via': rng.choice(['direct', 'copy'])}
        corr.append(dict(c, kind='ilinrun'))
        if gi % 12 == 0 and sum(ns) >= 2:
            corr.append(dict(c, kind='ilinrun', bad_len=1))
        orc.append(('ilin', c))
        ctx.count('ilin:n_sources=%d' % nsrc)
        # the parametrised roundings with the sides of the source
        vs = [G[rng.randrange(n)], (G[0] + G[1]) / 2, G[0] - 1.0, G[-1], rng.uniform(G[0], G[-1])]
        corr.append({'kind': 'irrp', 'arr': G, 'vs': [float(v) for v in vs]})
    # grid sets (regular: explicit spacing and decimals as in the `obj` histories; one member may have been emptied by the grid
    # setter, then the loop raises there and the members before it stay extended)
    from skyllh.core.py import get_number_of_float_decimals as nd
    n_sets = 0
    while n_sets < ctx.n(40, 600):
        D = rng.randint(1, 3)
        grids = []
        for _ in range(D):
            sp = H.gen_regular(rng)
            dl = sp['delta'] if sp['delta'] is not None else float(np.mean(np.diff(sp['arr'])))
            dec = max(nd(sp['arr'][0]), nd(dl))
            if dec > 12:
                continue
            grids.append({'arr': sp['arr'][:rng.choice([2, 3, 5, 12])], 'delta': dl, 'decimals': dec})
        if not grids:
            continue
        if n_sets % 5 == 1:
            grids[rng.randrange(len(grids))]['emptied'] = True
        n_sets += 1
        case = {'kind': 'gsetx', 'grids': grids, 'set_via': rng.choice(['direct', 'copy'])}
        corr.append(case)
        orc.append(('gridset', case))
        ctx.count('gridset:regular:D=%d' % len(grids))
    for gi in range(ctx.n(30, 400)):
        D = rng.randint(1, 3)
        grids = [H.gen_irregular(rng)['arr'] for _ in range(D)]
        if gi % 4 == 0:
            grids = [g if len(g) >= 2 else g + [g[-1] + 2.0] for g in grids]
        case = {'kind': 'isetx', 'grids': grids, 'set_via': rng.choice(['direct', 'copy'])}
        corr.append(case)
        orc.append(('gridset', case))
        ctx.count('gridset:irregular:D=%d' % D)
    # the parabola gradient with the factor of the source
    for gi in range(ctx.n(40, 400)):
        sp = H.gen_regular(rng)
        try:
            g = H.mk_grid(sp)
        except Exception:  # noqa
            continue
        if len(g.grid) < 3 or not float(g.delta) > 0:
            continue
        k = rng.randrange(1, len(g.grid) - 1)
        x = float(g.grid[k] + rng.uniform(-0.45, 0.45) * float(g.delta))
        corr.append({'kind': 'parp', 'grid': sp, 'func': H.gen_func(rng), 'x': x})
    return corr, orc
