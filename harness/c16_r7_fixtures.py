"""C16 round 7 — the constructor of DataFieldRecordArray with its options (keep_fields, dtype_conversions,
dtype_conversion_except_fields, copy) on its documented input kinds (dict of arrays, structured ndarray,
DataFieldRecordArray), tied to Model/StoreR7.lean (`ctorLoop`, driver lines `ctorD` / `ctorT`).

A case (JSON-able):
  {'cols': [[name index, {'dt', 'v', 'layout'?}], ...], 'src': 'dict' | 'struct' | 'dfra' | 'copy',
   'keep': None | [name index], 'keep_form': 'list'|'tuple'|'str', 'convs': None | [[dt, dt], ...],
   'exc': None | [name index], 'exc_form': 'list'|'tuple'|'str', 'copy': None (argument omitted) | True | False}
'src' = 'copy': `dfra.copy(keep_fields)` (the method; only `keep` is used).
"""
import ast

import numpy as np

from harness import store_fixtures as sf
from harness.store_fixtures import UNIVERSE, NP_DT

DTS = ['b', 'i16', 'i64', 'f32', 'f64']
STORAGE = 'skyllh/core/storage.py'


# ------------------------------------------------------------------------------------------
# translator: signatures / call sites read from the current source

RECORDED = dict(ctor_copy=True, ctor_keep_none=True, ctor_convs_none=True, ctor_exc_none=True, copy_keep_none=True,
                rename_must_exist=False, copy_call_keywords=['keep_fields'], getsel_copy=False, copy_effective_copy=True,
                writers={'_data_fields': ['__init__', '__setitem__', 'append', 'append_field', 'convert_dtypes', 'remove_field',
                                          'rename_fields', 'set_field_dtype', 'sort_by_field'],
                         '_field_name_list': ['__init__', 'append_field', 'remove_field', 'rename_fields'],
                         '_len': ['__init__', 'append'], '_indices': ['__init__', 'append', 'indices'],
                         'arrays': ['set_selection']},
                delegates={'__getitem__': ['get_selection'], '__setitem__': ['append_field', 'set_selection'],
                           'tidy_up': ['remove_field']},
                atomic=[['append', True], ['rename_fields', True], ['set_selection', True]])

CACHES = ['_data_fields', '_field_name_list', '_len', '_indices']
MUTATING = {'append', 'remove', 'pop', 'update', 'clear', 'extend', 'insert', 'sort', 'setdefault', 'popitem', 'reverse'}


def cache_writers():
    """which methods of DataFieldRecordArray assign / mutate which of the four state attributes *directly* (assignment,
    augmented assignment, item assignment, mutating method call — also through a local alias `x = self._attr`), which write
    into the stored arrays (`self._data_fields[f][i] = …`: key 'arrays'), and which public methods they call on self"""
    from harness import extract
    cls = extract.find_class(extract.parse(STORAGE), 'DataFieldRecordArray')

    def self_attr(n):
        return n.attr if isinstance(n, ast.Attribute) and isinstance(n.value, ast.Name) and n.value.id == 'self' else None

    W = {a: set() for a in CACHES + ['arrays']}
    D = {}
    for f in cls.body:
        if not isinstance(f, ast.FunctionDef):
            continue
        alias = {}
        for n in ast.walk(f):
            if isinstance(n, ast.Assign) and len(n.targets) == 1 and isinstance(n.targets[0], ast.Name) and self_attr(n.value) in CACHES:
                alias[n.targets[0].id] = self_attr(n.value)

        def owner(n):
            a = self_attr(n)
            if a in CACHES:
                return a
            if isinstance(n, ast.Name) and n.id in alias:
                return alias[n.id]
            return None

        def target(t):
            if isinstance(t, (ast.Tuple, ast.List)):
                for e in t.elts:
                    target(e)
            elif self_attr(t) in CACHES:
                W[self_attr(t)].add(f.name)
            elif isinstance(t, ast.Subscript):
                if owner(t.value):
                    W[owner(t.value)].add(f.name)
                elif isinstance(t.value, ast.Subscript) and owner(t.value.value) == '_data_fields':
                    W['arrays'].add(f.name)

        for n in ast.walk(f):
            if isinstance(n, ast.Assign):
                for t in n.targets:
                    target(t)
            elif isinstance(n, (ast.AugAssign, ast.AnnAssign)):
                target(n.target)
            elif isinstance(n, ast.Delete):
                for t in n.targets:
                    target(t)
            elif isinstance(n, ast.Call) and isinstance(n.func, ast.Attribute):
                if n.func.attr in MUTATING and owner(n.func.value):
                    W[owner(n.func.value)].add(f.name)
                if isinstance(n.func.value, ast.Name) and n.func.value.id == 'self':
                    D.setdefault(f.name, set()).add(n.func.attr)
    return {k: sorted(v) for k, v in W.items()}, {k: sorted(v) for k, v in sorted(D.items())}


def _ctor_calls(func):
    """keywords of every call `DataFieldRecordArray(...)` inside DataFieldRecordArray.<func>: [(n positional, {kw: node})]"""
    from harness import extract
    cls = extract.find_class(extract.parse(STORAGE), 'DataFieldRecordArray')
    f = extract.find_func(cls, func)
    res = []
    for node in ast.walk(f):
        if isinstance(node, ast.Call) and isinstance(node.func, ast.Name) and node.func.id == 'DataFieldRecordArray':
            res.append((len(node.args), {k.arg: k.value for k in node.keywords}))
    return res


ATOMIC_METHODS = ('append', 'rename_fields', 'set_selection')


def atomic_methods():
    """for append / rename_fields / set_selection: True iff in the source text every `raise` statement and every look-up in an
    argument (`arr[fname]`: KeyError when the partner misses a field) comes *before* the first statement that writes self
    state (assignment to / mutation of the four attributes, item assignment into a stored array, a mutator called on self).
    This is the structure the compute-then-commit model (`tableOp` then `place`) relies on for `c16_error_no_change`."""
    from harness import extract
    cls = extract.find_class(extract.parse(STORAGE), 'DataFieldRecordArray')

    def self_attr(n):
        return n.attr if isinstance(n, ast.Attribute) and isinstance(n.value, ast.Name) and n.value.id == 'self' else None

    out = {}
    for f in cls.body:
        if not isinstance(f, ast.FunctionDef) or f.name not in ATOMIC_METHODS:
            continue
        params = [a.arg for a in f.args.args if a.arg != 'self']
        alias = {}
        for n in ast.walk(f):
            if isinstance(n, ast.Assign) and len(n.targets) == 1 and isinstance(n.targets[0], ast.Name) and self_attr(n.value) in CACHES:
                alias[n.targets[0].id] = self_attr(n.value)

        def owner(n):
            a = self_attr(n)
            if a in CACHES:
                return a
            if isinstance(n, ast.Name) and n.id in alias:
                return alias[n.id]
            if isinstance(n, ast.Subscript):
                return owner(n.value)
            return None

        writes, risky = [], []

        def target(t):
            if isinstance(t, (ast.Tuple, ast.List)):
                for e in t.elts:
                    target(e)
            elif owner(t):
                writes.append(t.lineno)

        for n in ast.walk(f):
            if isinstance(n, ast.Assign):
                for t in n.targets:
                    target(t)
            elif isinstance(n, (ast.AugAssign, ast.AnnAssign)):
                target(n.target)
            elif isinstance(n, ast.Call) and isinstance(n.func, ast.Attribute) and n.func.attr in MUTATING and owner(n.func.value):
                writes.append(n.lineno)
            elif (isinstance(n, ast.Call) and isinstance(n.func, ast.Attribute) and isinstance(n.func.value, ast.Name)
                  and n.func.value.id == 'self' and n.func.attr in ('append_field', 'remove_field', 'set_selection', 'append')):
                writes.append(n.lineno)
            elif isinstance(n, ast.Raise):
                risky.append(n.lineno)
            elif isinstance(n, ast.Subscript) and isinstance(n.ctx, ast.Load) and isinstance(n.value, ast.Name) and n.value.id in params:
                risky.append(n.lineno)
        out[f.name] = (max(risky) < min(writes)) if (writes and risky) else True
    return [[m, bool(out[m])] for m in ATOMIC_METHODS]


def read_source(ctx):
    from harness import extract
    out = dict(RECORDED)

    def attempt(key, fn):
        try:
            out[key] = fn()
        except Exception as e:  # noqa
            ctx.note('C16 generated(): %s not extracted (%s: %s); recorded value %r used' % (key, type(e).__name__, e, RECORDED[key]))

    C = 'DataFieldRecordArray'
    attempt('ctor_copy', lambda: extract.arg_default(STORAGE, C, '__init__', 'copy') is True)
    attempt('ctor_keep_none', lambda: extract.arg_default(STORAGE, C, '__init__', 'keep_fields') is None)
    attempt('ctor_convs_none', lambda: extract.arg_default(STORAGE, C, '__init__', 'dtype_conversions') is None)
    attempt('ctor_exc_none', lambda: extract.arg_default(STORAGE, C, '__init__', 'dtype_conversion_except_fields') is None)
    attempt('copy_keep_none', lambda: extract.arg_default(STORAGE, C, 'copy', 'keep_fields') is None)
    attempt('rename_must_exist', lambda: extract.arg_default(STORAGE, C, 'rename_fields', 'must_exist') is True)

    def copy_kw():
        calls = _ctor_calls('copy')
        assert len(calls) == 1 and calls[0][0] == 1, calls
        return sorted(calls[0][1])

    def getsel_copy():
        calls = _ctor_calls('get_selection')
        assert len(calls) == 1 and sorted(calls[0][1]) == ['copy'], calls
        return bool(ast.literal_eval(calls[0][1]['copy']))

    def copy_effective():
        calls = _ctor_calls('copy')
        assert len(calls) == 1, calls
        kw = calls[0][1]
        return bool(ast.literal_eval(kw['copy'])) if 'copy' in kw else (extract.arg_default(STORAGE, C, '__init__', 'copy') is True)

    attempt('copy_effective_copy', copy_effective)
    return out


def read_structure(ctx):
    """evidence only (depends on private attribute names and on syntax): direct writers of the state attributes, delegations
    on self, raise-before-write of the three repaired methods; None for what cannot be extracted"""
    out = {}
    for key, fn in (('writers', lambda: cache_writers()[0]), ('delegates', lambda: cache_writers()[1]), ('atomic', atomic_methods)):
        try:
            out[key] = fn()
        except Exception as e:  # noqa
            out[key] = None
            ctx.note('C16 source structure (evidence only): %s not extracted (%s)' % (key, type(e).__name__))
    return out


def generated_text(ctx):
    """Only facts whose change is a behaviour change go into Generated/C16.lean: the defaults of public parameters (read by
    their public names) and the `copy` flag in effect in the constructor call inside copy().  Everything that depends on
    private attribute names or on the syntactic shape of the class body (writers of the state attributes, delegations,
    raise-before-write) is evidence only (coverage.source_structure).  Whatever is not recognised falls back to the recorded
    value with a note (read_source.attempt) — the text never changes because names or syntax moved."""
    s = read_source(ctx)
    L = lambda x: 'true' if x else 'false'  # noqa: E731
    return ('/- GENERATED by harness/props/c16.py from the signatures in skyllh/core/storage.py (ast). Do not edit. -/\n'
            'import SkyllhModel.Model.StoreR7\n'
            'namespace Gen.C16\n'
            '/-- default of `DataFieldRecordArray.__init__(copy=…)` -/\n'
            'def ctorCopyDefault : Bool := %s\n'
            '/-- `keep_fields=None` is the default of the constructor -/\n'
            'def ctorKeepDefaultIsNone : Bool := %s\n'
            '/-- `dtype_conversions=None` is the default of the constructor -/\n'
            'def ctorConvsDefaultIsNone : Bool := %s\n'
            '/-- `dtype_conversion_except_fields=None` is the default of the constructor -/\n'
            'def ctorExcDefaultIsNone : Bool := %s\n'
            '/-- `keep_fields=None` is the default of `copy()` -/\n'
            'def copyKeepDefaultIsNone : Bool := %s\n'
            '/-- default of `rename_fields(must_exist=…)` -/\n'
            'def renameMustExistDefault : Bool := %s\n'
            '/-- the value of `copy` in effect in the constructor call inside `copy()` (explicit keyword, else the default) -/\n'
            'def copyEffectiveCopyFlag : Bool := %s\n'
            '/-- the options of the call `DataFieldRecordArray(data)` -/\n'
            'def ctorDefaults : Store.CtorOpts :=\n'
            '  ⟨if ctorKeepDefaultIsNone then none else some [], [], [], ctorCopyDefault⟩\n'
            'end Gen.C16\n') % (L(s['ctor_copy']), L(s['ctor_keep_none']), L(s['ctor_convs_none']), L(s['ctor_exc_none']),
                                L(s['copy_keep_none']), L(s['rename_must_exist']), L(s['copy_effective_copy']))


# ------------------------------------------------------------------------------------------
# cases

def gen_col(rng, n, dt=None):
    dt = dt or rng.choice(DTS)
    v = [rng.randrange(2) for _ in range(n)] if dt == 'b' else [rng.randint(-9, 9) for _ in range(n)]
    col = {'dt': dt, 'v': v}
    if rng.random() < 0.25:
        col['layout'] = rng.choice(['strided', 'reversed', 'struct'])
    return col


def gen_names(rng, have, allow_str=True):
    """a name argument: subset of the fields (sometimes a name that is no field), in one of the documented forms"""
    form = rng.choice(['list', 'tuple', 'str'] if allow_str else ['list', 'tuple'])
    pool = list(have) + [i for i in range(len(UNIVERSE)) if i not in have][:2]
    if form == 'str':
        return [rng.choice(pool)], 'str'
    p = rng.choice([0.0, 0.3, 0.6, 1.0])
    ks = [i for i in pool if rng.random() < p]
    rng.shuffle(ks)
    return ks, form


def gen_ctor(rng):
    n = rng.choice([0, 1, 2, 3, 5, 8])
    k = rng.randrange(1, 6)
    names = rng.sample(range(len(UNIVERSE)), k)
    cols = [[nm, gen_col(rng, n)] for nm in names]
    src = rng.choice(['dict', 'dict', 'struct', 'dfra', 'copy'])
    case = {'cols': cols, 'src': src, 'keep': None, 'keep_form': None, 'convs': None, 'exc': None, 'exc_form': None, 'copy': None}
    if rng.random() < 0.7:
        case['keep'], case['keep_form'] = gen_names(rng, names)
    if src == 'copy':
        return case
    if rng.random() < 0.6:
        olds = rng.sample(DTS, rng.choice([1, 1, 2, 3]))
        # mostly conversions numpy's copyto accepts (same kind); sometimes one it refuses (TypeError)
        convs = []
        for o in olds:
            ok = [d for d in DTS if np.can_cast(NP_DT[o], NP_DT[d], 'same_kind')]
            convs.append([o, rng.choice(ok) if rng.random() < 0.8 else rng.choice(DTS)])
        case['convs'] = convs
        if rng.random() < 0.5:
            case['exc'], case['exc_form'] = gen_names(rng, names)
    case['copy'] = rng.choice([None, True, False, False])
    if src == 'dict' and len(cols) > 1 and rng.random() < 0.3:
        # a dict whose values have different lengths: the first value, a later kept one, a later dropped one
        i = rng.choice([0, 0, rng.randrange(len(cols))])
        m = rng.choice([1, n + 1, max(0, n - 1), n + 2])
        if m == n:
            m = n + 1
        cols[i][1] = gen_col(rng, m, cols[i][1]['dt'])
    return case


def grid_cases():
    """a small complete grid: input kind x keep x conversions x except x copy x length pattern"""
    base = [(0, 'i64', [3, 1]), (1, 'f64', [5, 6]), (4, 'b', [1, 0])]
    for src in ('dict', 'struct', 'dfra'):
        for keep in (None, [1], [1, 0], [], [4, 7]):
            for convs in (None, [['f64', 'f32']], [['i64', 'b']], [['i64', 'i16'], ['b', 'f32']]):
                for exc in (None, [0]):
                    if exc is not None and convs is None:
                        continue
                    for cp in (None, True, False):
                        for pat in ((0, 0, 0), (1, 0, 0), (0, 1, 0), (0, 0, 1)) if src == 'dict' else ((0, 0, 0),):
                            cols = [[n, {'dt': dt, 'v': v + [1] * e}] for (n, dt, v), e in zip(base, pat)]
                            yield {'cols': cols, 'src': src, 'keep': keep, 'keep_form': 'list' if keep is not None else None,
                                   'convs': convs, 'exc': exc, 'exc_form': 'list' if exc is not None else None, 'copy': cp}


# ------------------------------------------------------------------------------------------
# the real constructor

def _bytes(arr):
    return (str(arr.dtype), arr.shape, np.ascontiguousarray(arr).tobytes())


def impl_ctor(case):
    """('ok', snapshot, {field: shares memory with the input array of that name}, inputs_unchanged) | ('err', kind)"""
    D = sf.DFRA()
    arrs = {}
    for n, col in case['cols']:
        arrs[UNIVERSE[n]] = sf.mkarr(col)
    src = case['src']
    if src == 'struct':
        n = len(case['cols'][0][1]['v'])
        data = np.empty(n, dtype=[(nm, a.dtype) for nm, a in arrs.items()])
        for nm, a in arrs.items():
            data[nm] = a
        arrs = {nm: data[nm] for nm in arrs}
    elif src in ('dfra', 'copy'):
        data = D(dict(arrs), copy=False)
    else:
        data = dict(arrs)
    kw = {}
    if case['keep'] is not None:
        kw['keep_fields'] = sf.names_arg(case['keep'], case['keep_form'])
    if case['convs'] is not None:
        kw['dtype_conversions'] = {NP_DT[a]: NP_DT[b] for a, b in case['convs']}
    if case['exc'] is not None:
        kw['dtype_conversion_except_fields'] = sf.names_arg(case['exc'], case['exc_form'])
    if case['copy'] is not None:
        kw['copy'] = case['copy']
    before = {nm: _bytes(a) for nm, a in arrs.items()}
    try:
        if src == 'copy':
            a = data.copy(**({'keep_fields': kw['keep_fields']} if 'keep_fields' in kw else {}))
        else:
            a = D(data, **kw)
    except (ValueError, TypeError, KeyError, IndexError) as e:
        return ('err', sf.errkind(e))
    share = {nm: bool(np.shares_memory(a[nm], arrs[nm])) for nm in a.field_name_list if nm in a and nm in arrs and a[nm].size}
    cross = [(x, y) for x in a.field_name_list for y in arrs if x != y and x in a and a[x].size and np.shares_memory(a[x], arrs[y])]
    unchanged = all(_bytes(arrs[nm]) == before[nm] for nm in arrs)
    if src in ('dfra', 'copy'):
        unchanged = unchanged and list(data.field_name_list) == list(arrs) and all(data[nm] is arrs[nm] for nm in arrs) \
            and len(data) == len(case['cols'][0][1]['v'])
    return ('ok', sf.snap(a), share, unchanged, cross)


def line(case):
    cs = '+'.join('%d:%s:%s' % (n, col['dt'], sf.il(col['v'])) for n, col in case['cols']) or '-'
    keep = 'N' if case['keep'] is None else sf.il(case['keep'])
    convs = ','.join('%s:%s' % (a, b) for a, b in (case['convs'] or [])) or '-'
    exc = sf.il(case['exc'] or [])
    cp = case['copy']
    if cp is None:
        cp = RECORDED_DEFAULT['copy']
    if case['src'] == 'dict':
        return 'ctorD %s %s %s %s %d' % (cs, keep, convs, exc, 1 if cp else 0)
    return 'ctorT %d %s %s %s %s %d' % (len(case['cols'][0][1]['v']), cs, keep, convs, exc, 1 if cp else 0)


# the value of an omitted `copy` argument is the default read from the current source (set by run_ctor)
RECORDED_DEFAULT = {'copy': True}


def parse_answer(ans):
    if ans.startswith('err/'):
        return ('err', ans[4:])
    _, ln, body = ans.split(' ')
    cols, prov = [], {}
    if body != '-':
        for f in body.split('+'):
            n, p, dt, vs = f.split(':')
            cols.append([UNIVERSE[int(n)], dt, sf._plist(vs)])
            prov[UNIVERSE[int(n)]] = p
    return ('ok', int(ln[1:]), cols, prov)


def compare(case, ri, ans):
    m = parse_answer(ans)
    if ri[0] != m[0]:
        return 'implementation %r, model %r' % (ri[:2] if ri[0] == 'err' else 'returns', m[:2] if m[0] == 'err' else 'returns')
    if ri[0] == 'err':
        return None if ri[1] == m[1] else 'implementation raises %s, model raises %s' % (ri[1], m[1])
    snap = ri[1]
    if snap['len'] != m[1]:
        return 'len: implementation %d, model %d' % (snap['len'], m[1])
    if snap['cols'] != m[2]:
        return 'columns: implementation %r, model %r' % (snap['cols'], m[2])
    for nm, sh in ri[2].items():
        if sh and m[3].get(nm) != 'k':
            return 'field %r shares memory with the input array although the model allocates a fresh one' % nm
    if ri[4]:
        return 'fields share memory with input arrays of other names: %r' % (ri[4][:3],)
    return None


# ------------------------------------------------------------------------------------------
# property oracle (implementation only): the result is the plain table "kept fields, converted dtypes" of the input

def ctor_check(case):
    """None | (mode, text)"""
    try:
        ri = impl_ctor(case)
    except (AssertionError, IndexError):
        return None
    names = [UNIVERSE[n] for n, _ in case['cols']]
    cols = {UNIVERSE[n]: col for n, col in case['cols']}
    keep = None if case['keep'] is None else [UNIVERSE[i] for i in case['keep']]
    kept = [nm for nm in names if keep is None or nm in keep]
    exc = [UNIVERSE[i] for i in (case['exc'] or [])]
    convs = dict((a, b) for a, b in (case['convs'] or []))
    if case['src'] == 'copy':
        convs, exc = {}, []
    want_dt = {nm: (convs.get(cols[nm]['dt'], cols[nm]['dt']) if nm not in exc else cols[nm]['dt']) for nm in kept}
    lens = sorted(set(len(cols[nm]['v']) for nm in kept))
    all_lens = set(len(c['v']) for c in cols.values())
    castable = all(np.can_cast(NP_DT[cols[nm]['dt']], NP_DT[want_dt[nm]], 'same_kind') for nm in kept)
    what = 'DataFieldRecordArray(%s of %r%s)' % (case['src'], [(nm, cols[nm]['dt'], len(cols[nm]['v'])) for nm in names],
                                                  ''.join(', %s=%r' % (k, case[k]) for k in ('keep', 'convs', 'exc', 'copy') if case[k] is not None))
    if ri[0] == 'err':
        if len(all_lens) <= 1 and castable:
            return ('raises-' + str(ri[1]), '%s raises %s although the input is a proper table and every conversion is allowed' % (what, ri[1]))
        if ri[1] not in ('value', 'type'):
            return ('raises-' + str(ri[1]), '%s raises %s' % (what, ri[1]))
        return None
    snap, share, unchanged, cross = ri[1], ri[2], ri[3], ri[4]
    if len(lens) > 1:
        return ('no-raise', '%s returns a container although the kept columns have different lengths %r' % (what, lens))
    want_len = lens[0] if lens else 0
    if snap['len'] != want_len:
        return ('wrong-len', '%s: len() = %d, the kept columns have length %d' % (what, snap['len'], want_len))
    if snap['names'] != kept:
        return ('wrong-fields', '%s: field_name_list = %r, expected %r' % (what, snap['names'], kept))
    for nm, dt, vals in snap['cols']:
        if vals is None:
            return ('wrong-fields', '%s: field %r is listed but not accessible' % (what, nm))
        wv = sf.ivals(np.array(cols[nm]['v'], dtype=np.int64).astype(NP_DT[cols[nm]['dt']]).astype(NP_DT[want_dt[nm]]))
        if dt != want_dt[nm]:
            return ('wrong-dtype', '%s: field %r has dtype %s, expected %s' % (what, nm, dt, want_dt[nm]))
        if vals != wv:
            return ('wrong-values', '%s: field %r = %r, expected %r' % (what, nm, vals[:8], wv[:8]))
    if snap['idx'] != list(range(want_len)):
        return ('stale-indices', '%s: indices = %r' % (what, snap['idx']))
    if snap['has'] != [n for n in UNIVERSE if n in kept]:
        return ('wrong-fields', '%s: `in` says %r, expected %r' % (what, snap['has'], kept))
    if not unchanged:
        return ('modified-in-place', '%s modified its input' % what)
    copying = case['copy'] in (None, True) or case['src'] == 'copy'
    for nm, sh in share.items():
        if sh and (copying or want_dt[nm] != cols[nm]['dt']):
            return ('shared-memory', '%s: field %r shares memory with the input array although %s' % (
                what, nm, 'copy=True' if copying else 'its dtype is converted'))
    if cross:
        return ('shared-memory', '%s: fields share memory with input arrays of other names: %r' % (what, cross[:3]))
    return None


def branches(case, ans):
    """the branches of ctorKept / ctorConv / ctorField / ctorLen / ctorUpd this case goes through (for the counters)"""
    out = []
    keep, exc = case['keep'], case['exc'] or []
    convs = dict((a, b) for a, b in (case['convs'] or []))
    cp = RECORDED_DEFAULT['copy'] if case['copy'] is None else case['copy']
    length = len(case['cols'][0][1]['v'])
    cur = None
    for n, col in case['cols']:
        if keep is None:
            out.append('ctorKept:keep_fields None')
        elif n in keep:
            out.append('ctorKept:in keep_fields')
        else:
            out.append('ctorKept:not in keep_fields')
            continue
        if n in exc:
            out.append('ctorConv:except field')
            dt = None
        elif col['dt'] in convs:
            out.append('ctorConv:converted')
            dt = convs[col['dt']]
        else:
            out.append('ctorConv:no conversion')
            dt = None
        if dt is not None or cp:
            if len(col['v']) != length:
                out.append('ctorField:%s:length ValueError' % ('conv' if dt is not None else 'copy'))
                break
            if dt is not None and not np.can_cast(NP_DT[col['dt']], NP_DT[dt], 'same_kind'):
                out.append('ctorField:conv:same_kind TypeError')
                break
            out.append('ctorField:%s:ok' % ('conv' if dt is not None else 'copy'))
        else:
            out.append('ctorField:nocopy')
        if cur is None:
            out.append('ctorLen:first field')
            cur = len(col['v'])
        elif cur != len(col['v']):
            out.append('ctorLen:ValueError')
            break
        else:
            out.append('ctorLen:same length')
    else:
        out.append('ctorUpd:no field stored' if cur is None else 'ctorUpd:fields stored')
    return out


EXPECTED_BRANCHES = [
    'ctorKept:keep_fields None', 'ctorKept:in keep_fields', 'ctorKept:not in keep_fields',
    'ctorConv:except field', 'ctorConv:converted', 'ctorConv:no conversion',
    'ctorField:conv:length ValueError', 'ctorField:copy:length ValueError', 'ctorField:conv:same_kind TypeError',
    'ctorField:conv:ok', 'ctorField:copy:ok', 'ctorField:nocopy',
    'ctorLen:first field', 'ctorLen:ValueError', 'ctorLen:same length', 'ctorUpd:no field stored', 'ctorUpd:fields stored']


def run_ctor(ctx, n_random):
    """correspondence + oracle for the constructor with options; returns the number of disagreements"""
    src_now = read_source(ctx)
    RECORDED_DEFAULT['copy'] = src_now['ctor_copy']
    # structure of the class body the model was written against (evidence only, never a verdict: a behaviour-preserving
    # rewrite may move a cache update into a helper): direct writers of the four state attributes, delegations, and
    # "every raise / partner look-up precedes the first write" for the three repaired methods
    struct = read_structure(ctx)
    ctx.extra['source_structure'] = struct
    ctx.extra['source_structure_differs_from_recorded'] = [k for k in ('writers', 'delegates', 'atomic')
                                                           if struct[k] is not None and struct[k] != RECORDED[k]]
    cases = [('grid', c) for c in grid_cases()]
    for _ in range(n_random):
        cases.append(('random', gen_ctor(ctx.rng)))
    lines = [line(c) for _, c in cases]
    out = ctx.driver('C16', lines)
    bad = 0
    seen = set()
    for i, ((kind, case), ans) in enumerate(zip(cases, out)):
        ctx.case(key=('ctor', repr(case)), desc={'ctor': case} if i % 997 == 0 else None)
        ctx.count('ctor:%s' % kind)
        ctx.count('ctor:input %s' % case['src'])
        ctx.count('branch:constructor copy argument %s' % ('omitted' if case['copy'] is None else case['copy']))
        for f in ('keep_form', 'exc_form'):
            if case.get(f):
                ctx.count('branch:name argument as %s' % case[f])
        for b in branches(case, ans):
            ctx.count('modelbranch:' + b)
        r = ctor_check(case)
        if r is not None:
            sig = 'C16/ctor/%s' % r[0]
            if sig not in seen:
                seen.add(sig)
                ctx.violation('ctor', case, r[1], signature=sig)
            continue
        ri = impl_ctor(case)
        ctx.count('outcome:ctor:%s' % (ri[0] if ri[0] == 'ok' else 'err-' + str(ri[1])))
        d = compare(case, ri, ans)
        if d:
            bad += 1
            if 'corr' not in seen:
                seen.add('corr')
                ctx.violation('ctor_corr', case, 'constructor: model and implementation disagree (%s) but the result is the expected plain table' % d,
                              kind='correspondence', relation='exact: outcome class, len, fields, dtypes, values; sharing implementation ⊆ model',
                              signature='C16/corr/ctor', no_failing_input=True)
    ctx.extra['ctor_cases'] = len(cases)
    ctx.extra['ctor_zero_hit_model_branches'] = [b for b in EXPECTED_BRANCHES if ctx.counters.get('modelbranch:' + b, 0) == 0]
    return bad


def o_ctor(ctx, case):
    r = ctor_check(case.get('ctor', case))
    return None if r is None else r[1]


def o_ctor_corr(ctx, case):
    case = case.get('ctor', case)
    RECORDED_DEFAULT['copy'] = read_source(ctx)['ctor_copy']
    return compare(case, impl_ctor(case), ctx.driver('C16', [line(case)])[0])


# ------------------------------------------------------------------------------------------
# the read-only public accessors that the snapshots do not use: __str__, as_numpy_record_array, get_field_dtype,
# __sizeof__ — callable at any point of a history, on any table (no fields, no rows included)

def accessor_check(a):
    """None | (mode, text) for one live container"""
    import sys
    names = list(a.field_name_list)
    if any(n not in a for n in names):
        return None          # a stale field list is reported by the table oracle
    what = 'container with fields %r and %d rows' % ([(n, str(a[n].dtype)) for n in names], len(a))
    try:
        s = str(a)
    except Exception as e:  # noqa
        return ('str-raises', 'str() of a %s raises %s: %s' % (what, type(e).__name__, e))
    for n in names:
        if n not in s:
            return ('str-incomplete', 'str() of a %s does not mention field %r' % (what, n))
    try:
        rec = a.as_numpy_record_array()
    except Exception as e:  # noqa
        return ('record-raises', 'as_numpy_record_array() of a %s raises %s: %s' % (what, type(e).__name__, e))
    if list(rec.dtype.names or ()) != names or rec.shape != (len(a),):
        return ('record-wrong', 'as_numpy_record_array() of a %s has fields %r and shape %r' % (what, rec.dtype.names, rec.shape))
    for n in names:
        if rec.dtype.fields[n][0] != a[n].dtype or rec[n].tolist() != a[n].tolist():
            return ('record-wrong', 'as_numpy_record_array() of a %s: field %r is %s %r' % (what, n, rec.dtype.fields[n][0], rec[n].tolist()[:8]))
        if a[n].size and np.shares_memory(rec, a[n]):
            return ('record-shared', 'as_numpy_record_array() of a %s shares memory with column %r' % (what, n))
        try:
            dt = a.get_field_dtype(n)
        except Exception as e:  # noqa
            return ('dtype-raises', 'get_field_dtype(%r) of a %s raises %s' % (n, what, type(e).__name__))
        if dt != a[n].dtype:
            return ('dtype-wrong', 'get_field_dtype(%r) of a %s says %s' % (n, what, dt))
    try:
        sz = sys.getsizeof(a)
    except Exception as e:  # noqa
        return ('sizeof-raises', 'sys.getsizeof() of a %s raises %s' % (what, type(e).__name__))
    if not isinstance(sz, int) or sz <= 0:
        return ('sizeof-wrong', 'sys.getsizeof() of a %s returns %r' % (what, sz))
    return None


def accessors_after_each_step(ops, resolve):
    """None | (mode, step, text): run the history on the real containers, look at every container after every step"""
    conts = []
    for k, op in enumerate(ops):
        try:
            op = resolve(op, len(conts))
            if not sf.legal(conts, op):
                return None
            sf.impl_apply(conts, op)
        except (IndexError, AssertionError, KeyError):
            return None
        for ci, a in enumerate(conts):
            r = accessor_check(a)
            if r is not None:
                return (r[0], k, 'step %d (%s), container %d: %s' % (k, op['op'], ci, r[1]))
    return None


# ------------------------------------------------------------------------------------------
# the constructor with options as an operation of a history:
#   {'op': 'ctor', 'd': container, 'keep': None|[idx], 'keep_form', 'convs': None|[[dt, dt]], 'exc': None|[idx], 'exc_form',
#    'copy': None|True|False}
# (wrappers around the store_fixtures functions, which know nothing about this operation)

def ctor_kwargs(op):
    kw = {}
    if op.get('keep') is not None:
        kw['keep_fields'] = sf.names_arg(op['keep'], op.get('keep_form') or 'list')
    if op.get('convs') is not None:
        kw['dtype_conversions'] = {NP_DT[a]: NP_DT[b] for a, b in op['convs']}
    if op.get('exc') is not None:
        kw['dtype_conversion_except_fields'] = sf.names_arg(op['exc'], op.get('exc_form') or 'list')
    if op.get('copy') is not None:
        kw['copy'] = op['copy']
    return kw


def _copy_flag(op):
    return RECORDED_DEFAULT['copy'] if op.get('copy') is None else op['copy']


def impl_apply(conts, op, held=None):
    if op['op'] != 'ctor':
        return sf.impl_apply(conts, op, held)
    try:
        conts.append(sf.DFRA()(conts[op['d']], **ctor_kwargs(op)))
        return ('ok', ['cont', len(conts) - 1])
    except (KeyError, ValueError, TypeError) as e:
        return ('err', sf.errkind(e, 'ctor'))


def op_line(op, perm=None):
    if op['op'] != 'ctor':
        return sf.op_line(op, perm)
    return 'ctor %d %s %s %s %d' % (op['d'], 'N' if op.get('keep') is None else sf.il(op['keep']),
                                    ','.join('%s:%s' % (a, b) for a, b in (op.get('convs') or [])) or '-',
                                    sf.il(op.get('exc') or []), 1 if _copy_flag(op) else 0)


def _ctor_plan(op, names, dtype_of):
    """[(name, new dtype | None)] of the fields the new table gets, or RefErr"""
    keep = None if op.get('keep') is None else [UNIVERSE[i] for i in op['keep']]
    exc = [UNIVERSE[i] for i in (op.get('exc') or [])]
    conv = {NP_DT[a]: NP_DT[b] for a, b in (op.get('convs') or [])}
    plan = []
    for nm in names:
        if keep is not None and nm not in keep:
            continue
        dt = dtype_of(nm)
        new = conv[dt] if (nm not in exc and dt in conv) else None
        if new is not None and not np.can_cast(dt, new, 'same_kind'):
            raise sf.RefErr('type')
        plan.append((nm, new))
    return plan


def ref_apply(tabs, op, impl_out=None):
    if op['op'] != 'ctor':
        return sf.ref_apply(tabs, op, impl_out=impl_out)
    t = tabs[op['d']]
    try:
        plan = _ctor_plan(op, t.names, lambda nm: t.cells[nm].a.dtype)
    except sf.RefErr as e:
        return ('err', e.kind)
    pairs = []
    for nm, new in plan:
        cell = t.cells[nm]
        if new is not None:
            pairs.append((nm, cell.a.astype(new)))
        elif _copy_flag(op):
            pairs.append((nm, np.array(cell.a, copy=True)))
        else:
            pairs.append((nm, cell))                 # the array object of the input itself
    tabs.append(sf.RefTable(pairs, t.n if pairs else 0))
    return ('ok', ['cont', len(tabs) - 1])


def row_apply(rows, op, impl_out=None, blocked=False, impl_ok=True):
    if op['op'] != 'ctor':
        return sf.row_apply(rows, op, impl_out=impl_out, blocked=blocked, impl_ok=impl_ok)
    t = rows[op['d']]
    if t is None:
        if impl_ok:
            rows.append(None)
        return None
    try:
        plan = _ctor_plan(op, t.names, lambda nm: t.arr.dtype[nm])
    except sf.RefErr as e:
        return ('err', e.kind)
    pairs = [(nm, t.arr[nm].astype(new) if new is not None else np.array(t.arr[nm], copy=True)) for nm, new in plan]
    rows.append(sf.RowTable(pairs, t.n if pairs else 0))
    return ('ok', ['cont', len(rows) - 1])


def gen_ctor_op(rng, d, have):
    op = {'op': 'ctor', 'd': d, 'keep': None, 'keep_form': None, 'convs': None, 'exc': None, 'exc_form': None,
          'copy': rng.choice([None, True, False, False])}
    if rng.random() < 0.6:
        op['keep'], op['keep_form'] = gen_names(rng, have)
    if rng.random() < 0.6:
        convs = []
        for o in rng.sample(DTS, rng.choice([1, 2, 3])):
            ok = [x for x in DTS if np.can_cast(NP_DT[o], NP_DT[x], 'same_kind')]
            convs.append([o, rng.choice(ok) if rng.random() < 0.85 else rng.choice(DTS)])
        op['convs'] = convs
        if rng.random() < 0.4:
            op['exc'], op['exc_form'] = gen_names(rng, have)
    return op


def record_snap(a):
    """as_numpy_record_array() of a live container as a public snapshot ('cols' part), or ('err', class)"""
    try:
        rec = a.as_numpy_record_array()
    except (KeyError, ValueError, TypeError) as e:
        return ('err', sf.errkind(e))
    return ('ok', len(rec), [[n, sf.dtname(rec.dtype.fields[n][0]), sf.ivals(rec[n])] for n in (rec.dtype.names or ())])


def record_compare(impl, ans):
    """as_numpy_record_array: implementation vs. `asRecord` of the heap model"""
    if ans.startswith('err/'):
        return None if impl == ('err', ans[4:]) else 'as_numpy_record_array: implementation %r, model %s' % (impl[:2], ans)
    t = sf.parse_T(ans[3:])[0]
    if impl[0] != 'ok':
        return 'as_numpy_record_array: implementation raises %s, model returns a table' % impl[1]
    # (columns by name: the order of the record array is checked against the container's own field list by accessor_check)
    if impl[1] != t['len'] or sorted(impl[2]) != sorted(t['cols']):
        return 'as_numpy_record_array: implementation %d rows %r, model %d rows %r' % (impl[1], impl[2], t['len'], t['cols'])
    return None
