"""Fixtures of C07: a synthetic dataset (extra user fields, narrow dtypes), every scrambling / background
generation method of skyllh, and an LLHRatioAnalysis whose collaborators that are irrelevant for the data
flow (llhratio, pmm, test statistic, signal generator, event selection) are stubs implementing the
repository's interfaces.  All methods that move event data are the real ones."""
import hashlib

import numpy as np

from harness import store_fixtures as sf

UNIVERSE = ['ra', 'dec', 'time', 'run', 'azi', 'zen', 'uid', 'user', 'log_energy', 'ang_err', 'mcweight',
            'true_ra', 'pre', 'stat', 'atmo', 'astro', 'true_dec', 'sin_true_dec', 'true_energy', 'sin_dec', 'gfp']
IDX = {n: i for i, n in enumerate(UNIVERSE)}
TWO_PI = 2 * np.pi

SCRAMBLERS = ['uniform', 'uniform_range', 'i3time', 'seasonal', 'time']
# fields each scrambling method documents to change, in the order of assignment
DOCUMENTED = {'uniform': ['ra'], 'uniform_range': ['ra'], 'i3time': ['time', 'ra'], 'seasonal': ['time', 'ra'],
              'time': ['time', 'ra', 'dec']}
RA_RANGE = {'uniform': (0.0, TWO_PI), 'uniform_range': (1.0, 2.5), 'i3time': (0.0, TWO_PI), 'seasonal': (0.0, TWO_PI),
            'time': (0.0, TWO_PI)}


def ra_range_of(spec, scr):
    """the configured RA range of a scrambling method in this world (`uniform_range`: taken from the spec)"""
    if scr == 'uniform_range':
        return tuple(float(x) for x in spec.get('ra_range', RA_RANGE['uniform_range']))
    return RA_RANGE[scr]


def gen_ra_range(rng):
    """legal ranges of UniformRAScramblingMethod: inside [0, 2pi), straddling 0, straddling 2pi, entirely below 0 /
    above 2pi, zero width, tiny width, not representable in float32"""
    k = rng.choice(['inside', 'inside', 'straddle0', 'straddle0', 'straddle2pi', 'straddle2pi', 'below', 'above',
                    'zero', 'tiny', 'wide'])
    if k == 'inside':
        lo = rng.uniform(0, 5.5)
        return [lo, lo + rng.uniform(0.01, TWO_PI - lo - 1e-3)]
    if k == 'straddle0':
        return rng.choice([[-0.4, 0.4], [-rng.uniform(0.01, 3), rng.uniform(0.01, 3)]])
    if k == 'straddle2pi':
        return rng.choice([[6.0, 6.6], [TWO_PI - rng.uniform(0.01, 2), TWO_PI + rng.uniform(0.01, 2)]])
    if k == 'below':
        hi = -rng.uniform(0.0, 3)
        return [hi - rng.uniform(0.01, 4), hi]
    if k == 'above':
        lo = TWO_PI + rng.uniform(0.0, 3)
        return [lo, lo + rng.uniform(0.01, 4)]
    if k == 'zero':
        x = rng.choice([0.0, 1.25, -0.4, 6.6, TWO_PI])
        return [x, x]
    if k == 'tiny':
        x = rng.choice([0.0, 1.0, -0.4, 6.6, 3.0])
        return [x, rng.choice([float(np.nextafter(x, np.inf)), x + 1e-12, x + 1e-7])]
    return [-rng.uniform(0, 10), TWO_PI + rng.uniform(0, 10)]


def enc(arr):
    """value encoding of the model: bool -> 0/1, ints -> the integer, floats -> an integer that is injective on the float64
    bit patterns AND order preserving (positive floats: their bit pattern; negative floats: -(magnitude bits) - 1), so that
    the model can check that an index field of float type (dec, sin_dec, time) is sorted"""
    arr = np.asarray(arr)
    if arr.dtype.kind == 'f':
        out = []
        for b in arr.astype(np.float64).view(np.uint64).tolist():
            b = int(b)
            out.append(b if b < (1 << 63) else -(b - (1 << 63)) - 1)
        return out
    return [int(v) for v in arr.tolist()]


def col_tok(name, arr):
    return '%d:%s:%s' % (IDX[name], sf.dtname(arr.dtype), sf.il(enc(arr)))


def cols_tok(pairs):
    pairs = list(pairs)
    return '+'.join(col_tok(n, a) for n, a in pairs) if pairs else '-'


def _col(a, n):
    try:
        return a[n]
    except KeyError:
        return None          # listed in field_name_list, but no data behind it


def sha(a):
    """byte-wise fingerprint of a container: field order, dtypes, bytes of every column, length"""
    h = hashlib.sha1()
    h.update(repr((len(a), list(a.field_name_list))).encode())
    for n in a.field_name_list:
        arr = _col(a, n)
        h.update(n.encode() + (b'<no data>' if arr is None else str(arr.dtype).encode() + np.ascontiguousarray(arr).tobytes()))
    return h.hexdigest()


def colshas(a):
    out = {}
    for n in a.field_name_list:
        arr = _col(a, n)
        out[n] = ('<no data>', '') if arr is None else (str(arr.dtype), hashlib.sha1(np.ascontiguousarray(arr).tobytes()).hexdigest()[:12])
    return out


class StubLLH:
    """reads every trial data field, changes nothing"""
    mean_n_sig_0 = 0

    def __init__(self, tdm):
        self.tdm = tdm
        self.reads = 0

    def initialize_for_new_trial(self, tl=None):
        pass

    def maximize(self, rss, tl=None):
        ev = self.tdm.events
        # the evaluation of the LLH ratio re-calculates the data fields that depend on global fit parameters: the real
        # TrialDataManager assigns them into tdm.events
        self.gamma = getattr(self, 'gamma', 2.0) + 0.25
        self.tdm.calculate_global_fitparam_data_fields(shg_mgr=self.shg, pmm=self.pmm, global_fitparams_dict={'gamma': self.gamma})
        s = 0.0
        for n in ev.field_name_list:
            s += float(np.sum(self.tdm.get_data(n).astype(np.float64))) if len(ev) else 0.0
        self.reads += 1
        return (s * 0.0, np.array([]), {})


class StubPMM:
    def create_global_params_dict(self, gflp_values):
        return {}


class World:
    """one synthetic dataset + analysis; `spec` is JSON-able and fixes everything but the random draws"""

    def __init__(self, spec):
        from skyllh.core.analysis import LLHRatioAnalysis
        from skyllh.core.background_generation import CompositeMCDataSamplingBkgGenMethod, MCDataSamplingBkgGenMethod
        from skyllh.core.background_generator import DatasetBackgroundGenerator, MultiDatasetBackgroundGenerator
        from skyllh.core.config import Config
        from skyllh.core.dataset import Dataset, DatasetData
        from skyllh.core.event_selection import EventSelectionMethod
        from skyllh.core.livetime import Livetime
        from skyllh.core.random import RandomStateService
        from skyllh.core.scrambling import DataScrambler, TimeScramblingMethod, UniformRAScramblingMethod
        from skyllh.core.source_hypo_grouping import SourceHypoGroupManager
        from skyllh.core.storage import DataFieldRecordArray as D
        from skyllh.core.times import LivetimeTimeGenerationMethod, TimeGenerator
        from skyllh.core.trialdata import TrialDataManager
        from skyllh.i3.background_generation import FixedScrambledExpDataI3BkgGenMethod
        from skyllh.i3.dataset import I3DatasetData
        from skyllh.i3.scrambling import I3SeasonalVariationTimeScramblingMethod, I3TimeScramblingMethod

        self.spec = spec
        self.D = D
        rs = np.random.RandomState(spec['data_seed'])
        n, m = spec['n_exp'], spec['n_mc']
        narrow = spec['narrow']
        f = np.float32 if narrow else np.float64
        i = np.int16 if narrow else np.int64

        def table(k, uid0, mc):
            d = {'ra': rs.uniform(0, TWO_PI, k).astype(f), 'dec': rs.uniform(-1.5, 1.5, k).astype(f),
                 'time': np.sort(rs.uniform(55000, 55010, k)).astype(np.float32 if spec.get('time32') else np.float64),
                 'run': rs.randint(0, max(2, k // 2 + 1), k).astype(i),
                 'azi': rs.uniform(0, TWO_PI, k).astype(f), 'zen': rs.uniform(0, np.pi, k),
                 'log_energy': rs.uniform(2, 6, k).astype(f), 'ang_err': rs.uniform(0.01, 0.1, k)}
            rs.shuffle(d['time'])
            if spec['extra']:
                d['uid'] = (uid0 + np.arange(k)).astype(np.int64)
                d['user'] = rs.randint(0, 2, k).astype(np.bool_)
            if mc:
                d['mcweight'] = rs.uniform(0.5, 1.5, k) * 1e9
                d['true_ra'] = rs.uniform(0, TWO_PI, k)
                # what the real point-source signal generation method needs
                td = np.arcsin(rs.uniform(-1, 1, k))
                d['true_dec'] = td
                d['sin_true_dec'] = np.sin(td)
                d['true_energy'] = 10 ** rs.uniform(2, 6, k)
                d['sin_dec'] = np.sin(d['dec'].astype(np.float64))
            return d
        self.cfg = Config()
        exp_tab = table(n, 1000, False)
        for lack in spec.get('exp_lacks', []):
            exp_tab.pop(lack, None)     # a field the configuration lists for the analysis, absent in exp, present in MC
        self.exp = D(exp_tab, copy=True)
        self.mc = D(table(m, 5000, True), copy=True)
        ivs = np.array([[55000., 55004.5], [55004.5, 55010.]])
        self.lt = Livetime(ivs)
        self.ds = Dataset(cfg=self.cfg, name='ds', exp_pathfilenames=None, mc_pathfilenames=None, livetime=None,
                          default_sub_path_fmt='', version=1)
        grl = D({'start': ivs[:, 0].copy(), 'stop': ivs[:, 1].copy()}, copy=True)
        self.data = I3DatasetData(DatasetData(data_exp=self.exp, data_mc=self.mc, livetime=self.lt.livetime), grl)
        self.shg = SourceHypoGroupManager()
        tg = TimeGenerator(LivetimeTimeGenerationMethod(self.lt))
        self.scr = {
            'uniform': lambda: UniformRAScramblingMethod(),
            'uniform_range': lambda: UniformRAScramblingMethod(ra_range=ra_range_of(spec, 'uniform_range')),
            'i3time': lambda: I3TimeScramblingMethod(tg),
            'seasonal': lambda: I3SeasonalVariationTimeScramblingMethod(self.data),
            'time': lambda: TimeScramblingMethod(timegen=tg, hor_to_equ_transform=lambda azi, zen, mjd: (
                np.mod(azi + mjd, TWO_PI), np.asarray(zen) - np.pi / 2)),
        }
        world = self

        class _Lazy(dict):
            def __missing__(self_, k):      # noqa: N805
                self_[k] = FixedScrambledExpDataI3BkgGenMethod(DataScrambler(world.scr[k]()), cfg=world.cfg)
                return self_[k]
        self.fixed = _Lazy()

        class PreSel(EventSelectionMethod):
            def __init__(self):
                super().__init__(shg_mgr=world.shg)

            def change_shg_mgr(self, m):
                pass

            def select_events(self, events, src_evt_idxs=None, ret_original_evt_idxs=False, tl=None):
                idx = np.arange(len(events))[::2]
                sel = events[idx]
                # a list, so that re-assigning the event indices after the sort works (C05 is not the subject here)
                return (sel, [np.zeros(len(idx), dtype=np.int64), np.arange(len(idx))])
        self.PreSel = PreSel
        mcv = spec['mc_variant']
        keep = list(mcv.get('keep', ['mcweight']))

        def prob(dataset, data, events):
            # uses the MC weight when the user kept it, the component rates when they are there, else uniform
            w_ = np.ones(len(events), dtype=np.float64)
            if 'mcweight' in events:
                w_ = w_ * events['mcweight']
            if 'atmo' in events:
                w_ = w_ * (events['atmo'] + events['astro'])
            return w_ / np.sum(w_)

        mean_factor = float(mcv.get('mean_factor', 0.5))

        def mean(dataset, data, events):
            # expected number of background events: a rate x live-time style number, in general not an integer
            return float(len(events)) * mean_factor
        self.mean_func = mean
        self.mc_method = MCDataSamplingBkgGenMethod(
            get_event_prob_func=prob, get_mean_func=mean,
            data_scrambler=None if mcv['scr'] is None else DataScrambler(self.scr[mcv['scr']]()),
            keep_mc_data_fields=keep,
            pre_event_selection_method=PreSel() if mcv['presel'] else None,
            cfg=self.cfg)
        # background components of the composite method: rate of each MC event (simple callables)
        self.comp_rates = {'atmo': lambda dataset, data, events: np.full(len(events), 0.5),
                           'astro': lambda dataset, data, events: np.full(len(events), 0.25)}
        self.comp_method = CompositeMCDataSamplingBkgGenMethod(
            bkg_component_rate_calc_func_dict=dict(self.comp_rates),
            get_event_prob_func=prob, get_mean_func=mean,
            data_scrambler=None if mcv['scr'] is None else DataScrambler(self.scr[mcv['scr']]()),
            keep_mc_data_fields=keep,
            pre_event_selection_method=PreSel() if mcv['presel'] else None,
            cfg=self.cfg)
        self.DataScrambler = DataScrambler
        self.DBG, self.MBG = DatasetBackgroundGenerator, MultiDatasetBackgroundGenerator
        self.RSS = RandomStateService

        class Ana(LLHRatioAnalysis):
            def construct_llhratio(self, *a, **k):
                return None
        tc = spec['trial']
        self.tdm = TrialDataManager(index_field_name=tc['index'])
        if tc['pre']:
            self.tdm.add_data_field('pre', lambda tdm, shg_mgr, pmm: tdm.events['ra'].astype(np.float64) * 2.0, pre_evt_sel=True)
        if tc.get('gfp'):
            self.tdm.add_data_field(
                'gfp', lambda tdm, shg_mgr, pmm, global_fitparams_dict: tdm.events['ra'].astype(np.float64) + global_fitparams_dict['gamma'],
                global_fitparam_names=['gamma'])
        if tc['stat']:
            self.tdm.add_data_field('stat', lambda tdm, shg_mgr, pmm: np.arange(len(tdm.events), dtype=np.float64) + 0.5)
        ana = object.__new__(Ana)
        ana._cfg = self.cfg
        ana._shg_mgr = self.shg
        ana._pmm = StubPMM()
        ana._test_statistic = lambda pmm, log_lambda, fitparam_values, **kw: 0.0
        ana._bkg_generator_cls = MultiDatasetBackgroundGenerator
        ana._sig_generator_cls = None
        ana._dataset_list = [self.ds]
        ana._data_list = [self.data]
        ana._tdm_list = [self.tdm]
        from skyllh.core.event_selection import AllEventSelectionMethod
        # 'all': the real pass-through selection (returns the events object it was given)
        ana._event_selection_method_list = [AllEventSelectionMethod(shg_mgr=self.shg) if tc['sel'] == 'all' else PreSel() if tc['sel'] else None]
        ana._bkg_generator_list = [None]
        ana._bkg_generator = None
        ana._sig_generator_list = [None]
        ana._llhratio = StubLLH(self.tdm)
        ana._llhratio.shg, ana._llhratio.pmm = self.shg, ana._pmm
        ana._pdfratio_list = [None]
        ana._detsigyield_service = ana._src_detsigyield_weights_service = ana._ds_sig_weight_factors_service = None

        class SigGen:
            def generate_signal_events(self_, rss, mean, **kw):   # noqa: N805
                ev = world.make_signal(rss, int(mean))
                return (len(ev), {0: ev})
        ana._sig_generator = SigGen()
        self.ana = ana
        self.sig_uid = -1

    # -- building blocks -------------------------------------------------------------------
    def real_signal_generator(self, valid_ranges=False):
        """the real MCMultiDatasetSignalGenerator + PointLikeSourceI3SignalGenerationMethod on this data set (set-up
        helpers of harness/siggen_fixtures.py, read-only reuse); only the detector signal yield is prescribed"""
        key = 'sigreal%d' % valid_ranges
        if key not in self.__dict__:
            from harness import siggen_fixtures as fx
            from skyllh.core.signal_generator import MCMultiDatasetSignalGenerator
            shg = fx.make_shg_mgr(self.cfg, [dict(sources=[(1.0, 0.1, 1.0), (4.0, -0.3, 0.5)], hbw=1.0)])
            (_, _, dswf) = fx.make_weight_services(shg, np.ones((1, shg.n_sources)))
            vr = [{'dec': (-1.45, 1.45)}] if valid_ranges else None    # events outside are re-drawn (set_selection by mask); wide, so that valid candidates exist
            self.__dict__[key] = MCMultiDatasetSignalGenerator(
                shg_mgr=shg, dataset_list=[self.ds], data_list=[self.data], valid_event_field_ranges_dict_list=vr,
                ds_sig_weight_factors_service=dswf, cfg=self.cfg)
        return self.__dict__[key]

    def make_signal(self, rss, k):
        """k signal events with the fields of the experimental data (wider dtypes than the narrow data set)"""
        d = {}
        for n in self.exp.field_name_list:
            dt = self.exp[n].dtype
            if n == 'uid':
                d[n] = (self.sig_uid - np.arange(k)).astype(np.int64)
                self.sig_uid -= k
            elif dt.kind == 'f':
                d[n] = rss.random.uniform(0, 1, k)
            elif dt.kind == 'b':
                d[n] = np.zeros(k, dtype=np.bool_)
            else:
                d[n] = rss.random.randint(0, 3, k).astype(np.int64)
        return self.D(d, copy=False)

    def set_bkg_method(self, method):
        self.ana._bkg_generator = self.MBG(
            cfg=self.cfg, dataset_list=[self.ds], data_list=[self.data],
            bkg_generator_list=[self.DBG(cfg=self.cfg, dataset=self.ds, data=self.data, bkg_gen_method=method)])

    def exp_field_names(self):
        from skyllh.core.datafields import DataFields, DataFieldStages as DFS
        return list(DataFields.get_joint_names(datafields=self.cfg['datafields'], stages=(DFS.ANALYSIS_EXP))) + \
            list(self.data.exp_field_names)


def gen_keep(rng):
    """keep_mc_data_fields: none, partial, all MC-only fields, overlapping the experimental fields"""
    allmc = ['mcweight', 'true_ra', 'true_dec', 'sin_true_dec', 'true_energy', 'sin_dec']      # every MC-only field
    return rng.choice([[], ['mcweight'], ['mcweight'], ['true_ra'], ['mcweight', 'true_ra'], allmc, allmc,
                       ['mcweight', 'dec'], ['dec', 'ra'], ['uid'], allmc + ['dec', 'uid', 'run'],
                       ['time', 'mcweight', 'true_ra']])


def scramblers_for(spec):
    return [k for k in SCRAMBLERS if not (k == 'seasonal' and spec['n_exp'] == 0)]


def gen_spec(rng):
    lacks = rng.choice([[], [], [], ['run'], ['log_energy'], ['run', 'ang_err']])
    index = rng.choice([None, 'run', 'run', 'time', 'dec', 'dec'])     # int16/int64 with ties, float time, float dec with negatives
    if index in lacks:
        index = 'time'
    n_exp = rng.choice([0, 0, 1, 2, 3, 5, 8, 13])
    mscr = rng.choice([None, 'uniform', 'i3time', 'uniform_range', 'seasonal'])
    if n_exp == 0 and mscr == 'seasonal':
        mscr = 'i3time'      # the seasonal method divides by the number of experimental events when it is constructed
    return {'data_seed': rng.randrange(10**6), 'n_exp': n_exp, 'n_mc': rng.choice([2, 4, 9, 20, 20, 60, 150]),
            'narrow': rng.random() < 0.6, 'extra': True, 'ra_range': gen_ra_range(rng), 'exp_lacks': lacks,
            'mc_variant': {'scr': mscr, 'presel': rng.random() < 0.4,
                           'keep': gen_keep(rng),
                           # integer, half-integer and generic (rate x live time) expected means
                           'mean_factor': rng.choice([0.5, 1.0, 0.6173, 1.0 / 7.0, 0.873, 0.31, 2.31])},
            'time32': rng.random() < 0.3,
            'trial': {'index': index, 'pre': rng.random() < 0.5,
                      'stat': rng.random() < 0.7, 'sel': rng.choice([False, False, True, True, 'all']),
                      'gfp': rng.random() < 0.6}}
