"""C02 fixtures: stacked analyses with an arbitrary *parameter layout* around the real skyllh classes.

Builds on harness/llh_fixtures.py (read-only, shared).  What is added here:

* a layout-driven ParameterModelMapper: global parameters in any declaration order (``ns`` anywhere), each
  fixed or floating, each mapped to a subset of the sources, for every source under the local name ``gamma``
  (id 0) or ``ecut`` (id 1) — several global parameters may feed the same local name of different sources and one
  global parameter may carry different local names for different sources (per-source alias);
* analytic leaves (functions of the local source parameters, so that finite differences of the
  implementation's own value make sense):
      rA[k,e] = cA[k,e] * exp(sA[k,e] * (gamma_k - 2))          factor A of the PDF ratio   (StubPDFRatio)
      rB[k,e] = cB[k,e] * exp(sB[k,e] * (ecut_k  - 1))          factor B                    (StubPDFRatio)
      Y[j,k]  = y0[j,k] * exp(u[j,k]*(gamma_k - 2) + v[j,k]*(ecut_k - 1))    detector signal yield (StubDetSigYield)
                + lg[j,k]*(gamma_k - gamma_k(theta)) + lx[j,k]*(ecut_k - ecut_k(theta))
  y0 may be 0 (single entries, a whole dataset row = dataset without any signal yield, a whole source column); the
  optional linear terms lg / lx vanish at the case's own parameter point theta, so a zero yield can still carry a
  non-zero yield gradient there;
  a source without the local parameter uses gamma = 2 resp. ecut = 1;
* the real chain  PDFRatioProduct(A, B) -> SourceWeightedPDFRatio -> ZeroSigH0SingleDatasetTCLLHRatio (per
  dataset) -> MultiDatasetTCLLHRatio  with the real SrcDetSigYieldWeightsService /
  DatasetSignalWeightFactorsService;
* an independent computation of the leaves from the case alone (no skyllh object involved) for the model.

A case is a JSON-able dict:
  K, groups [sizes], W [K],
  layout: list of  {'ns': True}  |  {'fixed': bool, 'map': [K x (-1 unmapped | 0 gamma | 1 ecut | 2 beta)], 'value': float,
                                      optional 'declared_fixed': bool (status at declaration; changed to 'fixed' afterwards)}
  theta:  values of the floating parameters in declaration order (including ns)
  ds:     list of {'N', 'E', 'mask': None | K x E 0/1, 'cA','sA','cB','sB': K x E, 'y0','u','v': [K],
                   optional 'lg','lx': [K], optional 'parA','parB': bool (False: that factor is a parameter-free
                   PDF ratio whose get_gradient returns the int 0 — the yields still depend on the parameter)}
  A dataset whose yield row is all zero may have selected events (SourceWeightedPDFRatio keeps the zero numerator,
  `if A != 0`).
"""
import numpy as np

from harness import llh_fixtures as fx

LOCAL_NAMES = ['gamma', 'ecut', 'beta']      # 'beta' is inert: no leaf depends on it
DEFAULTS = [2.0, 1.0, 0.0]
NN = len(LOCAL_NAMES)
VMIN, VMAX = 1.0, 2.0          # range of every non-ns global parameter (inside the ranges of gamma and ecut)


# --------------------------------------------------------------------------------------------------
# layout helpers (pure python, no skyllh)

def layout_string(case):
    """the line-protocol form of the layout: `<fixed>:<per-source 0|name+1>` joined by `;`"""
    K = case['K']
    parts = []
    for p in case['layout']:
        if p.get('ns'):
            parts.append('0:' + ','.join(['0'] * K))
        else:
            parts.append('%d:%s' % (1 if p['fixed'] else 0, ','.join(str(p['map'][k] + 1) for k in range(K))))
    return ';'.join(parts)


def well_formed(case):
    seen = set()
    for p in case['layout']:
        if p.get('ns'):
            continue
        for k, nm in enumerate(p['map']):
            if nm < 0:
                continue
            if (k, nm) in seen:
                return False
            seen.add((k, nm))
    return True


def floating_positions(case):
    """declaration indices of the floating parameters"""
    return [g for g, p in enumerate(case['layout']) if p.get('ns') or not p['fixed']]


def ns_fit_index(case):
    fl = floating_positions(case)
    g = [g for g, p in enumerate(case['layout']) if p.get('ns')][0]
    return fl.index(g)


def global_values(case, theta=None):
    """value of every global parameter (floating ones from theta)"""
    theta = case['theta'] if theta is None else theta
    fl = floating_positions(case)
    vals = []
    for g, p in enumerate(case['layout']):
        if g in fl:
            vals.append(float(theta[fl.index(g)]))
        else:
            vals.append(float(p['value']))
    return vals


def local_values(case, theta=None):
    """(K, 2) local parameter values (defaults where a source has no such parameter) — from the case alone"""
    K = case['K']
    gv = global_values(case, theta)
    loc = np.tile(np.array(DEFAULTS), (K, 1))
    for g, p in enumerate(case['layout']):
        if p.get('ns'):
            continue
        for k, nm in enumerate(p['map']):
            if nm >= 0:
                loc[k, nm] = gv[g]
    return loc


# --------------------------------------------------------------------------------------------------
# leaves from the case alone

def leaf_tables(case, j, loc):
    d = case['ds'][j]
    cA, sA, cB, sB = (np.array(d[n], dtype=np.float64) for n in ('cA', 'sA', 'cB', 'sB'))
    if not d.get('parA', True):
        sA = np.zeros_like(sA)          # factor A is a parameter-free PDF ratio
    if not d.get('parB', True):
        sB = np.zeros_like(sB)
    rA = cA * np.exp(sA * (loc[:, 0:1] - DEFAULTS[0]))
    rB = cB * np.exp(sB * (loc[:, 1:2] - DEFAULTS[1]))
    return rA, rB, sA * rA, sB * rB


def lin_terms(case, j):
    d = case['ds'][j]
    K = case['K']
    return (np.array(d.get('lg') or [0.0] * K, dtype=np.float64), np.array(d.get('lx') or [0.0] * K, dtype=np.float64))


def yield_tables(case, j, loc):
    """yields and their local derivatives at the local values `loc` (linear terms are centred at the case's theta)"""
    d = case['ds'][j]
    y0, u, v = (np.array(d[n], dtype=np.float64) for n in ('y0', 'u', 'v'))
    lg, lx = lin_terms(case, j)
    loc0 = local_values(case)
    E = y0 * np.exp(u * (loc[:, 0] - DEFAULTS[0]) + v * (loc[:, 1] - DEFAULTS[1]))
    Y = E + lg * (loc[:, 0] - loc0[:, 0]) + lx * (loc[:, 1] - loc0[:, 1])
    return Y, u * E + lg, v * E + lx


def mask_of(case, j, trial=0):
    """event-selection mask of dataset j; trial > 0: another pseudo-data trial on the same event table (other
    selected events / (source, event) pairs, see `trial_n_events`)"""
    d = case['ds'][j]
    if d.get('mask') is None:
        m = np.ones((case['K'], d['E']), dtype=bool)
    else:
        m = np.array(d['mask'], dtype=bool).reshape((case['K'], d['E']))
    if trial:
        ee, kk = np.meshgrid(np.arange(d['E']), np.arange(case['K']))
        flip = ((ee * 7 + kk * 3 + trial) % 3) == 0
        m = np.where(flip, ~m, m)
        if not m.any() and any(d['y0']) and d['E'] > 0:
            m[0, 0] = True
    return m


def trial_n_events(case, j, trial=0):
    return case['ds'][j]['N'] + 3 * trial


# --------------------------------------------------------------------------------------------------
# the real objects

def make_pmm_layout(sources, layout, ns_max=1e9):
    """ParameterModelMapper with models [det] + sources and the global parameters of `layout` in that order.
    Raises whatever map_param raises (KeyError for an ill-formed layout)."""
    from skyllh.core.model import DetectorModel
    from skyllh.core.parameters import Parameter, ParameterModelMapper
    det = DetectorModel('det')
    models = [det] + list(sources)
    pmm = ParameterModelMapper(models=models)
    i = 0
    later = []
    for p in layout:
        if p.get('ns'):
            pmm.map_param(Parameter('ns', 1.0, -ns_max, ns_max), models=det)
            continue
        i += 1
        par = Parameter('p%d' % i, float(p['value']), min(VMIN, float(p['value'])), max(VMAX, float(p['value'])))
        # 'declared_fixed': the parameter is declared with the other status and fixed / floated after all parameters are
        # mapped (ParameterSet.make_params_fixed / make_params_floating, as analyses do for profile scans)
        declared = p.get('declared_fixed', p['fixed'])
        if declared != p['fixed']:
            later.append((par.name, p))
        if declared:
            par.make_fixed(float(p['value']))
        ms = [sources[k] for k, nm in enumerate(p['map']) if nm >= 0]
        if not ms:
            # a global parameter that no source uses (e.g. a detector nuisance parameter)
            pmm.map_param(par, models=det, model_param_names='aux%d' % i)
            continue
        # one local name per pmm model (only the entries of the mapped models are used)
        names = ['unused'] + [LOCAL_NAMES[nm] if nm >= 0 else 'unused' for nm in p['map']]
        pmm.map_param(par, models=ms, model_param_names=names)
    for (name, p) in later:
        if p['fixed']:
            pmm.global_paramset.make_params_fixed({name: float(p['value'])})
        else:
            v = float(p['value'])
            pmm.global_paramset.make_params_floating({name: (v, min(VMIN, v), max(VMAX, v))})
    return pmm


def _loc(params, name_id, K):
    name = LOCAL_NAMES[name_id]
    v = params[name] if name in params else None
    if v is None:
        return np.full((K,), DEFAULTS[name_id])
    v = np.asarray(v, dtype=np.float64)
    return np.where(np.isnan(v), DEFAULTS[name_id], v)


class Built(object):
    pass


def build(case, trial=0):
    """the whole real object graph for a case (initialised with pseudo-data trial `trial`)"""
    from skyllh.core.pdfratio import PDFRatioProduct, SourceWeightedPDFRatio
    B = Built()
    K, J = case['K'], len(case['ds'])
    cfg = fx.make_cfg()
    sources = fx.make_sources(K, weights=case['W'])
    shg_mgr = fx.make_shg_mgr(cfg, sources, group_sizes=case['groups'])
    pmm = make_pmm_layout(sources, case['layout'])
    B.cfg, B.sources, B.shg_mgr, B.pmm = cfg, sources, shg_mgr, pmm

    y0 = np.array([d['y0'] for d in case['ds']], dtype=np.float64)
    u = np.array([d['u'] for d in case['ds']], dtype=np.float64)
    v = np.array([d['v'] for d in case['ds']], dtype=np.float64)

    lg = np.array([lin_terms(case, j)[0] for j in range(J)], dtype=np.float64)
    lx = np.array([lin_terms(case, j)[1] for j in range(J)], dtype=np.float64)
    loc0 = local_values(case)

    def Yexp(params):
        g, x = _loc(params, 0, K), _loc(params, 1, K)
        return y0 * np.exp(u * (g - DEFAULTS[0]) + v * (x - DEFAULTS[1]))

    def Y(params):
        g, x = _loc(params, 0, K), _loc(params, 1, K)
        return Yexp(params) + lg * (g - loc0[:, 0]) + lx * (x - loc0[:, 1])

    dY = {'gamma': lambda params: u * Yexp(params) + lg, 'ecut': lambda params: v * Yexp(params) + lx}
    (dsy, sdw, dswf) = fx.make_weight_services(shg_mgr, Y, dY=dY)
    B.services = (dsy, sdw, dswf)
    B.tdms, B.inner, B.outer, B.llhs = [], [], [], []
    for j in range(J):
        d = case['ds'][j]
        cA, sA, cB, sB = (np.array(d[n], dtype=np.float64) for n in ('cA', 'sA', 'cB', 'sB'))
        if not d.get('parA', True):
            sA = np.zeros_like(sA)
        if not d.get('parB', True):
            sB = np.zeros_like(sB)

        def RA(params, cA=cA, sA=sA):
            return cA * np.exp(sA * (_loc(params, 0, K)[:, None] - DEFAULTS[0]))

        def RB(params, cB=cB, sB=sB):
            return cB * np.exp(sB * (_loc(params, 1, K)[:, None] - DEFAULTS[1]))

        esm = None
        if d.get('mask') is not None or trial:
            esm = fx.StubEventSelection(shg_mgr, mask_of(case, j, trial))
        tdm = fx.make_tdm(shg_mgr, pmm, fx.make_events(d['E']), n_events=trial_n_events(case, j, trial), evt_sel_method=esm)
        # a parameter-free factor has no param_names and returns the int 0 from get_gradient
        a = fx.StubPDFRatio(cfg, RA, dR={'gamma': (lambda params, RA=RA, sA=sA: sA * RA(params))}) \
            if d.get('parA', True) else fx.StubPDFRatio(cfg, RA, dR=None, param_names=[])
        b = fx.StubPDFRatio(cfg, RB, dR={'ecut': (lambda params, RB=RB, sB=sB: sB * RB(params))}) \
            if d.get('parB', True) else fx.StubPDFRatio(cfg, RB, dR=None, param_names=[])
        prod = PDFRatioProduct(a, b, cfg=cfg)
        outer = SourceWeightedPDFRatio(dataset_idx=j, src_detsigyield_weights_service=sdw, pdfratio=prod, cfg=cfg)
        B.tdms.append(tdm)
        B.inner.append((a, b, prod))
        B.outer.append(outer)
        B.llhs.append(fx.make_single_llhratio(cfg, pmm, shg_mgr, tdm, outer))
    B.multi = fx.make_multi_llhratio(cfg, pmm, sdw, dswf, B.llhs)
    B.multi.initialize_for_new_trial()
    return B


def start_trial(B, case, trial):
    """a new pseudo-data trial on the *used* object graph B (what Analysis.initialize_trial does)"""
    for j, tdm in enumerate(B.tdms):
        d = case['ds'][j]
        esm = fx.StubEventSelection(B.shg_mgr, mask_of(case, j, trial))
        tdm.initialize_trial(shg_mgr=B.shg_mgr, pmm=B.pmm, events=fx.make_events(d['E']),
                             n_events=trial_n_events(case, j, trial), evt_sel_method=esm)
    B.multi.initialize_for_new_trial()


def evaluate(B, theta):
    """(value, grads, nsgrad2) of the real MultiDatasetTCLLHRatio at theta"""
    theta = np.array(theta, dtype=np.float64)
    (val, grads) = B.multi.evaluate(theta)
    ns_pidx = B.pmm.get_gflp_idx('ns')
    rec = B.pmm.create_src_params_recarray(gflp_values=theta)
    g2 = B.multi.calculate_ns_grad2(ns=theta[ns_pidx], ns_pidx=ns_pidx, src_params_recarray=rec)
    return float(val), np.array(grads, dtype=np.float64), float(g2)


def alphas(case):
    """per dataset the list of ns_j * X_i / ns = f_j * X_i of the selected events (computed from the case alone, with the
    `if A != 0` guard of SourceWeightedPDFRatio)"""
    loc = local_values(case)
    W = np.array(case['W'], dtype=np.float64)
    a = np.array([W * yield_tables(case, j, loc)[0] for j in range(len(case['ds']))])
    f = a.sum(axis=1) / a.sum()
    out = []
    for j, d in enumerate(case['ds']):
        rA, rB, _, _ = leaf_tables(case, j, loc)
        m = mask_of(case, j)
        sel = m.any(axis=0)
        R = ((rA * rB * m) * a[j][:, None]).sum(axis=0)
        if a[j].sum() != 0:
            R = R / a[j].sum()
        out.append(f[j] * (R[sel] - 1.0) / d['N'])
    return out


def f_and_X(case, trial=0, theta=None):
    """(f_j, [X_i of the selected events of dataset j], [(N_j, nSel_j)]) at theta for pseudo-data trial `trial` — from the
    case alone (what MultiDatasetTCLLHRatio.evaluate hands to the single-dataset llh ratios)"""
    loc = local_values(case, theta)
    W = np.array(case['W'], dtype=np.float64)
    a = np.array([W * yield_tables(case, j, loc)[0] for j in range(len(case['ds']))])
    f = a.sum(axis=1) / a.sum()
    Xs, sizes = [], []
    for j, d in enumerate(case['ds']):
        rA, rB, _, _ = leaf_tables(case, j, loc)
        m = mask_of(case, j, trial)
        sel = m.any(axis=0)
        R = ((rA * rB * m) * a[j][:, None]).sum(axis=0)
        if a[j].sum() != 0:
            R = R / a[j].sum()
        N = trial_n_events(case, j, trial)
        Xs.append((R[sel] - 1.0) / N)
        sizes.append((int(N), int(sel.sum())))
    return f, Xs, sizes


def all_stable(case, opa, margin=1e-6):
    """every selected event of every dataset is in the stable regime at theta (computed from the case alone)"""
    ns = case['theta'][ns_fit_index(case)]
    return all(np.all(ns * x > (opa - 1.0) + margin) for x in alphas(case))



# --------------------------------------------------------------------------------------------------
# a real gpidx consumer: SignalMultiDimGridPDFSet (skyllh/core/signalpdf.py) under SigOverBkgPDFRatio
#
# grid case (JSON-able): K, W [K], y [K] (constant yields), layout (as above; only local name 0 = 'gamma' feeds the
# PDF set, 'ecut' parameters are inert), theta, interp 'linear'|'parabola', x [E] event values in [0, 1], N

GRID_EDGES = np.linspace(0.0, 1.0, 6)
GRID_DELTA = 0.1
GRID_VALUES = np.around(0.7 + GRID_DELTA * np.arange(17), 1)      # 0.7 .. 2.3, parameter range [1, 2] well inside


def grid_sig(g):
    c = float(g) - 1.0
    return 1.0 + c * GRID_EDGES + 0.3 * c * c * GRID_EDGES ** 2 + 0.2 * np.sin(3.0 * c) * (1.0 - GRID_EDGES)


def grid_sig2(g):
    """a second signal PDF manifold on the same gamma grid (e.g. an angular-error PDF set made on the spectral-index grid)"""
    c = float(g) - 1.0
    return 0.8 + 0.5 * c * (1.0 - GRID_EDGES) + 0.15 * c * c * GRID_EDGES + 0.1 * np.cos(2.0 * c) * GRID_EDGES ** 2


def grid_bkg():
    return 1.5 - 1.0 * GRID_EDGES


def _grid_x(case, trial, j=0):
    x = np.array(case['x'], dtype=np.float64)
    if j:
        x = np.mod(x * 0.61 + 0.17 * j, 0.96) + 0.02
    return x if not trial else np.mod(x * 0.37 + 0.21 * trial, 0.96) + 0.02


def _grid_mask(case, trial, j):
    """event selection of dataset j (None: all events for all sources): a non-trivial (source, event) pair list"""
    if not case.get('sel'):
        return None
    K, E = case['K'], len(case['x'])
    ee, kk = np.meshgrid(np.arange(E), np.arange(K))
    m = ((ee * 5 + kk * 3 + j + trial) % 4) != 0
    if not m.any():
        m[0, 0] = True
    return m


def build_grid(case, trial=0):
    from skyllh.core.backgroundpdf import BackgroundMultiDimGridPDF
    from skyllh.core.binning import BinningDefinition
    from skyllh.core.interpolate import (Linear1DGridManifoldInterpolationMethod,
                                         Parabola1DGridManifoldInterpolationMethod)
    from skyllh.core.parameters import Parameter, ParameterGrid, ParameterSet
    from skyllh.core.pdfratio import SigOverBkgPDFRatio, SourceWeightedPDFRatio
    from skyllh.core.signalpdf import SignalMultiDimGridPDF, SignalMultiDimGridPDFSet
    B = Built()
    K = case['K']
    cfg = fx.make_cfg()
    sources = fx.make_sources(K, weights=case['W'])
    shg_mgr = fx.make_shg_mgr(cfg, sources, group_sizes=case.get('groups'))
    pmm = make_pmm_layout(sources, case['layout'])
    B.cfg, B.sources, B.shg_mgr, B.pmm = cfg, sources, shg_mgr, pmm
    axes = [BinningDefinition('x', GRID_EDGES)]
    # 'edge_grid': the grid spans the parameter range [VMIN, VMAX] plus the one extra bin on each side that skyllh's PDF
    # sets add (ParameterGrid.add_extra_lower_and_upper_bin): the bounds are the outermost legal grid points
    gvals = np.around(VMIN - GRID_DELTA + GRID_DELTA * np.arange(13), 1) if case.get('edge_grid') else GRID_VALUES
    grid = ParameterGrid('gamma', gvals, delta=GRID_DELTA, decimals=1)
    icls = Linear1DGridManifoldInterpolationMethod if case['interp'] == 'linear' \
        else Parabola1DGridManifoldInterpolationMethod
    J = case.get('J', 1)
    Y = np.array([np.array(case['y'], dtype=np.float64) * (1.0 + 0.3 * j) if j % 2 == 0
                  else np.array(case['y'], dtype=np.float64)[::-1] * (1.0 + 0.3 * j) for j in range(J)])
    (dsy, sdw, dswf) = fx.make_weight_services(shg_mgr, Y)
    B.tdms, B.llhs, B.inners = [], [], []
    for j in range(J):
        # one PDF set / ratio object per dataset (each keeps per-trial caches)
        pdfs = []
        for g in gvals:
            # public constructor only: it builds the linear RegularGridInterpolator on the bin edges itself
            pdfs.append(({'gamma': float(g)}, SignalMultiDimGridPDF(pmm=pmm, axis_binnings=axes, pdf_grid_data=grid_sig(g), cfg=cfg)))
        sigset = SignalMultiDimGridPDFSet(
            pmm=pmm, param_set=ParameterSet([Parameter('gamma', 1.5, float(gvals[0]), float(gvals[-1]))]),
            param_grid_set=grid, gridparams_pdfs=pdfs, interpol_method_cls=icls, cfg=cfg)
        if case.get('sig_product'):
            # the signal PDF is a product pdf1*pdf2 (SignalPDFProduct -> PDFProduct.get_pd): 'both' = both factors are PDF
            # sets on the gamma grid (both depend on the same fit parameters), 'first' / 'second' = the other factor is a
            # parameter-free signal PDF
            from skyllh.core.pdf import SignalPDFProduct
            if case['sig_product'] == 'both':
                pdfs2 = [({'gamma': float(g)}, SignalMultiDimGridPDF(pmm=pmm, axis_binnings=axes, pdf_grid_data=grid_sig2(g), cfg=cfg))
                         for g in gvals]
                other = SignalMultiDimGridPDFSet(
                    pmm=pmm, param_set=ParameterSet([Parameter('gamma', 1.5, float(gvals[0]), float(gvals[-1]))]),
                    param_grid_set=ParameterGrid('gamma', gvals, delta=GRID_DELTA, decimals=1), gridparams_pdfs=pdfs2,
                    interpol_method_cls=icls, cfg=cfg)
            else:
                other = SignalMultiDimGridPDF(pmm=pmm, axis_binnings=axes, pdf_grid_data=grid_sig2(1.4), cfg=cfg)
            sigset = SignalPDFProduct(sigset, other, cfg=cfg) if case['sig_product'] != 'second' \
                else SignalPDFProduct(other, sigset, cfg=cfg)
        bkg = BackgroundMultiDimGridPDF(pmm=pmm, axis_binnings=axes, pdf_grid_data=grid_bkg(), cfg=cfg)
        inner = SigOverBkgPDFRatio(sig_pdf=sigset, bkg_pdf=bkg, same_axes=False, cfg=cfg)
        outer = SourceWeightedPDFRatio(dataset_idx=j, src_detsigyield_weights_service=sdw, pdfratio=inner, cfg=cfg)
        x = _grid_x(case, trial, j)
        m = _grid_mask(case, trial, j)
        esm = fx.StubEventSelection(shg_mgr, m) if m is not None else None
        tdm = fx.make_tdm(shg_mgr, pmm, fx.make_events(len(x), x=x), n_events=case['N'] + 3 * trial, evt_sel_method=esm)
        B.tdms.append(tdm)
        B.inners.append(inner)
        B.llhs.append(fx.make_single_llhratio(cfg, pmm, shg_mgr, tdm, outer))
    B.multi = fx.make_multi_llhratio(cfg, pmm, sdw, dswf, B.llhs)
    B.multi.initialize_for_new_trial()
    B.tdm = B.tdms[0]
    return B


def start_trial_grid(B, case, trial):
    for j, tdm in enumerate(B.tdms):
        x = _grid_x(case, trial, j)
        m = _grid_mask(case, trial, j)
        esm = fx.StubEventSelection(B.shg_mgr, m) if m is not None else None
        tdm.initialize_trial(shg_mgr=B.shg_mgr, pmm=B.pmm, events=fx.make_events(len(x), x=x), n_events=case['N'] + 3 * trial,
                             evt_sel_method=esm)
    B.multi.initialize_for_new_trial()


# --------------------------------------------------------------------------------------------------
# the IceCube consumers of <name>:gpidx (skyllh/i3): the real SingleParamFluxPointLikeSourceI3DetSigYield as yield
# leaf (analytic log-yield table -> RectBivariateSpline) and the real SplinedI3EnergySigSetOverBkgPDFRatio (tiny
# synthetic MC; recipe of harness/cache_fixtures.build_i3) times a parameter-free spatial-like ratio:
#   PDFRatioProduct -> SourceWeightedPDFRatio -> ZeroSigH0SingleDatasetTCLLHRatio (J datasets) -> MultiDatasetTCLLHRatio
#
# i3 case (JSON-able): K, W [K], groups, layout (local name 0 = 'gamma' mapped to every source), theta,
#   interp 'linear'|'parabola', J, N [J], E [J], ev_seed, order 'first'|'second' (position of the energy ratio)

I3_SIN_DEC_RANGES = [(-1.0, 1.0), (-0.3, 1.0), (-1.0, 0.5)]


def i3_log_yield_table(j, g):
    sd = np.linspace(I3_SIN_DEC_RANGES[j][0], I3_SIN_DEC_RANGES[j][1], 9)
    gam = np.linspace(0.5, 4.5, 17)
    (SD, G) = np.meshgrid(sd, gam, indexing='ij')
    logY = (np.log(1.0 + 0.7 * j + 0.3 * g) + 0.6 * SD - 0.2 * SD ** 2 - (0.4 + 0.35 * j + 0.2 * g) * G
            + 0.03 * (j + 1) * G ** 2 * SD)
    return sd, gam, logY


_I3_INPUTS = {}


def _i3_energy_inputs(cfg):
    """signal PDF set + background PDF from synthetic MC; built once per process (they are read-only inputs of the
    SplinedI3EnergySigSetOverBkgPDFRatio constructor, which creates its own splines and caches per object)"""
    if 'v' not in _I3_INPUTS:
        _I3_INPUTS['v'] = _i3_energy_inputs_build(cfg)
    return _I3_INPUTS['v']


def _i3_energy_inputs_build(cfg):
    from skyllh.core.binning import BinningDefinition
    from skyllh.core.flux_model import PowerLawEnergyFluxProfile, SteadyPointlikeFFM
    from skyllh.core.parameters import Parameter
    from skyllh.core.storage import DataFieldRecordArray
    from skyllh.i3.backgroundpdf import DataBackgroundI3EnergyPDF
    from skyllh.i3.signalpdf import SignalI3EnergyPDFSet
    rng = np.random.RandomState(7)
    n = 3000
    lte = rng.uniform(1.5, 7.0, n)
    mc = DataFieldRecordArray({'true_energy': 10 ** lte,
                               'log_energy': np.clip(lte - 0.3 + rng.normal(0, 0.4, n), 1.05, 6.95),
                               'sin_dec': rng.uniform(-1, 1, n), 'mcweight': 10 ** lte * rng.uniform(0.5, 1.5, n)}, copy=True)
    ne = 600
    exp = DataFieldRecordArray({'log_energy': np.clip(rng.normal(3.2, 0.9, ne), 1.05, 6.95),
                                'sin_dec': rng.uniform(-1, 1, ne)}, copy=True)
    sb = BinningDefinition('sin_dec', np.linspace(-1, 1, 5))
    eb = BinningDefinition('log_energy', np.linspace(1, 7, 7))
    flux = SteadyPointlikeFFM(Phi0=1, energy_profile=PowerLawEnergyFluxProfile(E0=1e3, gamma=2, cfg=cfg), cfg=cfg)
    # range = [VMIN, VMAX]: SignalI3EnergyPDFSet adds one extra grid bin on each side itself, so the parameter bounds are
    # the outermost legal grid points
    gam = Parameter('gamma', 1.5, VMIN, VMAX)
    sigset = SignalI3EnergyPDFSet(cfg=cfg, data_mc=mc, log10_energy_binning=eb, sin_dec_binning=sb, fluxmodel=flux,
                                  param_grid_set=gam.as_linear_grid(delta=0.1), ncpu=1)
    bkg = DataBackgroundI3EnergyPDF(cfg=cfg, data_exp=exp, log10_energy_binning=eb, sin_dec_binning=sb)
    return sigset, bkg


def _i3_events(case, j, trial):
    rng = np.random.RandomState(case['ev_seed'] + 17 * j + 1000 * trial)
    E = case['E'][j]
    sin_dec = rng.uniform(-0.9, 0.9, E)
    ev = fx.make_events(E, log_energy=rng.uniform(1.2, 6.8, E), sin_dec=sin_dec, dec=np.arcsin(sin_dec))
    return rng, ev


def build_i3(case, trial=0):
    import scipy.interpolate
    from skyllh.core.binning import BinningDefinition
    from skyllh.core.dataset import Dataset
    from skyllh.core.flux_model import SteadyPointlikeFFM
    from skyllh.core.interpolate import (Linear1DGridManifoldInterpolationMethod,
                                         Parabola1DGridManifoldInterpolationMethod)
    from skyllh.core.pdfratio import PDFRatioProduct, SourceWeightedPDFRatio
    from skyllh.core.services import DatasetSignalWeightFactorsService, SrcDetSigYieldWeightsService
    from skyllh.i3.detsigyield import SingleParamFluxPointLikeSourceI3DetSigYield
    from skyllh.i3.pdfratio import SplinedI3EnergySigSetOverBkgPDFRatio
    B = Built()
    K, J = case['K'], case['J']
    cfg = fx.make_cfg()
    sources = fx.make_sources(K, weights=case['W'])
    shg_mgr = fx.make_shg_mgr(cfg, sources, group_sizes=case['groups'])
    pmm = make_pmm_layout(sources, case['layout'])
    B.cfg, B.sources, B.shg_mgr, B.pmm = cfg, sources, shg_mgr, pmm
    flux = SteadyPointlikeFFM(Phi0=1, energy_profile=None, cfg=cfg)
    arr = np.empty((J, len(case['groups'])), dtype=object)
    for j in range(J):
        ds = Dataset(name='DS%d' % j, exp_pathfilenames=None, mc_pathfilenames=None, livetime=100.,
                     default_sub_path_fmt='', version=1, cfg=cfg)
        for g in range(len(case['groups'])):
            sd, gam, logY = i3_log_yield_table(j, g)
            spl = scipy.interpolate.RectBivariateSpline(sd, gam, logY, kx=3, ky=3, s=0)
            arr[j, g] = SingleParamFluxPointLikeSourceI3DetSigYield(
                param_name='gamma', dataset=ds, fluxmodel=flux, livetime=100.,
                sin_dec_binning=BinningDefinition('sin_dec', sd), log_spl_sinDec_param=spl)
    dsy = fx.StubDetSigYieldService(shg_mgr, arr)
    sdw = SrcDetSigYieldWeightsService(detsigyield_service=dsy)
    dswf = DatasetSignalWeightFactorsService(src_detsigyield_weights_service=sdw)
    B.services = (dsy, sdw, dswf)
    icls = Linear1DGridManifoldInterpolationMethod if case['interp'] == 'linear' \
        else Parabola1DGridManifoldInterpolationMethod
    B.energy, B.llhs, B.tdms = [], [], []
    for j in range(J):
        (sigset, bkg) = _i3_energy_inputs(cfg)
        energy = SplinedI3EnergySigSetOverBkgPDFRatio(cfg=cfg, sig_pdf_set=sigset, bkg_pdf=bkg, interpolmethod_cls=icls, ncpu=1)
        E = case['E'][j]
        (_rng, ev) = _i3_events(case, j, trial)
        spatial = fx.StubPDFRatio(cfg, np.exp(np.random.RandomState(case['ev_seed'] + 5 * j).uniform(-1.5, 2.5, size=(K, E))))
        if case.get('no_energy'):
            # a parameter-free PDF ratio product (e.g. spatial ratio x a fixed-spectrum energy ratio): its get_gradient
            # returns the int 0 for gamma, while the I3 detector signal yields do depend on gamma
            energy = fx.StubPDFRatio(cfg, np.exp(np.random.RandomState(case['ev_seed'] + 9 * j).uniform(-1.0, 1.0, size=(K, E))))
        prod = PDFRatioProduct(energy, spatial, cfg=cfg) if case.get('order', 'first') == 'first' \
            else PDFRatioProduct(spatial, energy, cfg=cfg)
        outer = SourceWeightedPDFRatio(dataset_idx=j, src_detsigyield_weights_service=sdw, pdfratio=prod, cfg=cfg)
        tdm = fx.make_tdm(shg_mgr, pmm, ev, n_events=case['N'][j] + 3 * trial)
        B.energy.append(energy)
        B.tdms.append(tdm)
        B.llhs.append(fx.make_single_llhratio(cfg, pmm, shg_mgr, tdm, outer))
    B.multi = fx.make_multi_llhratio(cfg, pmm, sdw, dswf, B.llhs)
    B.multi.initialize_for_new_trial()
    return B


def start_trial_i3(B, case, trial):
    for j, tdm in enumerate(B.tdms):
        (_rng, ev) = _i3_events(case, j, trial)
        tdm.initialize_trial(shg_mgr=B.shg_mgr, pmm=B.pmm, events=ev, n_events=case['N'][j] + 3 * trial)
    B.multi.initialize_for_new_trial()
