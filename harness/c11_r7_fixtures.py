"""Round-7 additions to the C11 harness (own file of C11).

* `status_literals()` : the literals of the status -> decision code of the implementations, read from the current source
  (nlopt success window, scipy methods that get the bounds / constraints, L-BFGS-B flags and task needles, NR threshold).
* `reeval` cases : the real `Minimizer.minimize` around a scripted implementation whose attempt lies outside / inside the
  bounds, with an objective of every return shape (scalar kinds, tuple / list of 0..3 elements) -- a generated dimension.
* `layout` cases : `NR1dNsMinimizerImpl.minimize` called directly inside parameter vectors of 1..4 components.
"""
import ast

import numpy as np

from harness import extract
from harness.core import f2b, b2f, flist, parse_flist

SRC = 'skyllh/core/minimizer.py'
SRC_CRS = 'skyllh/core/minimizers/crs.py'
RECORDED = dict(crs_lo=0, crs_hi=5, scipy_native=['L-BFGS-B', 'TNC', 'SLSQP'], scipy_constr=['COBYLA'],
                lbfgs_conv=0, lbfgs_rep=2, lbfgs_needles=['FACTR', 'ABNORMAL'], nr_conv_thr=0)
F64 = np.float64


def _is_warnflag(node):
    return (isinstance(node, ast.Subscript) and isinstance(node.slice, ast.Constant) and node.slice.value == 'warnflag')


def _method(cls, name, src=SRC):
    c = extract.find_class(extract.parse(src), cls)
    fn = extract.find_func(c, name) if c is not None else None
    if fn is None:
        raise LookupError('%s.%s not found' % (cls, name))
    return fn


def _crs_window():
    fn = _method('CRSMinimizerImpl', 'minimize', SRC_CRS)
    for node in ast.walk(fn):
        if (isinstance(node, ast.Compare) and len(node.ops) == 2 and all(isinstance(o, ast.Lt) for o in node.ops)
                and isinstance(node.comparators[0], ast.Name) and node.comparators[0].id == 'status'):
            return int(extract.literal(node.left)), int(extract.literal(node.comparators[1]))
    raise LookupError('lo < status < hi not found in CRSMinimizerImpl.minimize')


def _scipy_lists():
    fn = _method('ScipyMinimizerImpl', 'minimize')
    native = constr = None
    for node in ast.walk(fn):
        if isinstance(node, ast.Compare) and len(node.ops) == 1 and isinstance(node.left, ast.Attribute) and node.left.attr == '_method':
            if isinstance(node.ops[0], ast.In) and native is None:
                native = [str(v) for v in extract.literal(node.comparators[0])]
            elif isinstance(node.ops[0], ast.Eq) and constr is None:
                constr = [str(extract.literal(node.comparators[0]))]
    if native is None or constr is None:
        raise LookupError('method tests of ScipyMinimizerImpl.minimize not found')
    return native, constr


def _flag_compare(cls, name, op):
    fn = _method(cls, name)
    for node in ast.walk(fn):
        if isinstance(node, ast.Compare) and len(node.ops) == 1 and isinstance(node.ops[0], op) and _is_warnflag(node.left):
            return int(extract.literal(node.comparators[0]))
    raise LookupError('warnflag test of %s.%s not found' % (cls, name))


def _lbfgs_needles():
    fn = _method('LBFGSMinimizerImpl', 'is_repeatable')
    out = []
    for node in ast.walk(fn):
        if (isinstance(node, ast.Compare) and len(node.ops) == 1 and isinstance(node.ops[0], ast.In)
                and isinstance(node.left, ast.Constant) and isinstance(node.left.value, str)):
            out.append(node.left.value)
    if not out:
        raise LookupError('task needles of LBFGSMinimizerImpl.is_repeatable not found')
    return out


_LIT = None


def status_literals(ctx=None):
    global _LIT
    if _LIT is not None and ctx is None:
        return _LIT
    c, fallbacks = dict(RECORDED), []

    def tryset(keys, fn):
        try:
            v = fn()
            if len(keys) == 1:
                c[keys[0]] = v
            else:
                for k, t in zip(keys, v):
                    c[k] = t
        except Exception as e:  # noqa
            fallbacks.append('%s: %s' % ('/'.join(keys), e))
    tryset(('crs_lo', 'crs_hi'), _crs_window)
    tryset(('scipy_native', 'scipy_constr'), _scipy_lists)
    tryset(('lbfgs_conv',), lambda: _flag_compare('LBFGSMinimizerImpl', 'has_converged', ast.Eq))
    tryset(('lbfgs_rep',), lambda: _flag_compare('LBFGSMinimizerImpl', 'is_repeatable', ast.Eq))
    tryset(('lbfgs_needles',), _lbfgs_needles)
    tryset(('nr_conv_thr',), lambda: _flag_compare('NR1dNsMinimizerImpl', 'has_converged', ast.LtE))
    if ctx is not None:
        for f in fallbacks:
            ctx.note('constant extraction failed, using the recorded value (%s)' % f)
            ctx.proof['generated_fallbacks'].append(f)
    _LIT = c
    return c


def generated_r7(ctx):
    c = status_literals(ctx)
    return ('/-- `lo < status < hi` of `CRSMinimizerImpl.minimize` (nlopt result codes counted as success) -/\n'
            'def crsLo : Int := %d\n'
            'def crsHi : Int := %d\n'
            '/-- `if self._method in [...]` of `ScipyMinimizerImpl.minimize`: methods that get `bounds=` -/\n'
            'def scipyNative : List String := %s\n'
            '/-- `elif self._method == ...`: the bounds become inequality constraints -/\n'
            'def scipyConstr : List String := %s\n'
            '/-- `status[\'warnflag\'] == ...` of `LBFGSMinimizerImpl.has_converged` / `.is_repeatable` -/\n'
            'def lbfgsConvFlag : Int := %d\n'
            'def lbfgsRepFlag : Int := %d\n'
            '/-- the `\'...\' in task` tests of `LBFGSMinimizerImpl.is_repeatable` -/\n'
            'def lbfgsNeedles : List String := %s\n'
            '/-- `status[\'warnflag\'] <= ...` of `NR1dNsMinimizerImpl.has_converged` -/\n'
            'def nrConvThr : Int := %d\n') % (
        c['crs_lo'], c['crs_hi'], extract.lean_str_list(c['scipy_native']), extract.lean_str_list(c['scipy_constr']),
        c['lbfgs_conv'], c['lbfgs_rep'], extract.lean_str_list(c['lbfgs_needles']), c['nr_conv_thr'])


def _hex(t):
    return ''.join('%02x' % b for b in t.encode('ascii')) or '-'


def _hexlist(xs):
    return ','.join(_hex(x) for x in xs) or '-'


# --------------------------------------------------------------------------------------------------
# status tables with the source's literals (model definitions parametrised by them)

LBFGS_TASKS = ['CONVERGENCE: REL_REDUCTION_OF_F_<=_FACTR*EPSMCH', 'ABNORMAL', 'ABNORMAL_TERMINATION_IN_LNSRCH',
               'STOP: TOTAL NO. OF ITERATIONS REACHED LIMIT', 'CONVERGENCE: NORM_OF_PROJECTED_GRADIENT_<=_PGTOL', '', 'factr', 'abnormal']
METHODS = ['L-BFGS-B', 'TNC', 'SLSQP', 'COBYLA', 'Nelder-Mead', 'BFGS', 'Powell', 'CG', 'trust-constr', 'l-bfgs-b', 'COBYQA', '']


def statusg_rows():
    c = status_literals()
    rows = []
    for code in range(-6, 9):
        rows.append(('crs', code, 'crsg %d %d %d' % (c['crs_lo'], c['crs_hi'], code)))
    for m in METHODS:
        rows.append(('bmode', m, 'bmodeg %s %s %s' % (_hexlist(c['scipy_native']), _hexlist(c['scipy_constr']), _hex(m))))
    for wf in (-1, 0, 1, 2, 3):
        for task in LBFGS_TASKS:
            for as_bytes in (False, True):
                rows.append(('lbfgs', (wf, task, as_bytes), 'lbfgsg %d %d %s %d %s' % (
                    c['lbfgs_conv'], c['lbfgs_rep'], _hexlist(c['lbfgs_needles']), wf, _hex(repr(task.encode()) if as_bytes else task))))
    for flag in (-3, -2, -1, 0, 1, 2):
        rows.append(('nr', flag, 'nrconvg %d %d' % (c['nr_conv_thr'], flag)))
    return rows


def statusg_reqs(case):
    return [r[2] for r in statusg_rows()]


def _scipy_mode(method):
    """what the real ScipyMinimizerImpl hands to scipy.optimize.minimize for this method"""
    import warnings
    from harness.props import c11
    from skyllh.core.config import Config
    from skyllh.core.minimizer import ScipyMinimizerImpl
    with c11._CaptureMinimize() as cap, warnings.catch_warnings():
        warnings.simplefilter('ignore')
        try:
            ScipyMinimizerImpl(cfg=Config(), method=method).minimize(
                np.array([0.5, 0.5]), np.array([[0.0, 1.0], [-1.0, 2.0]]), lambda x: (0.0, np.zeros(2)))
        except AttributeError:
            pass      # logger.warn may be missing; what was captured before still counts
    if cap.seen.get('bounds') is not None:
        return 'native'
    if cap.seen.get('constraints'):
        return 'constraints'
    return 'dropped'


def o_status_literals(ctx, case, ans=None):
    """the has_converged / is_repeatable / bounds decisions of the real implementations equal the model definitions
    instantiated at the literals read from the source, row by row; and (property level) nlopt codes 5 / 6 and
    non-positive codes are never a success, a converged status is never repeatable."""
    import logging
    from skyllh.core.config import Config
    from skyllh.core.minimizer import LBFGSMinimizerImpl, NR1dNsMinimizerImpl
    rows = statusg_rows()
    if ans is None:
        ans = ctx.driver('C11', [r[2] for r in rows])
    cfg = Config()
    lb, nr = LBFGSMinimizerImpl(cfg=cfg), NR1dNsMinimizerImpl(cfg=cfg)
    lg = logging.getLogger('skyllh.core.minimizer')
    lvl = lg.level
    lg.setLevel(logging.ERROR)
    try:
        for (kind, arg, _), a in zip(rows, ans):
            if kind == 'crs':
                c = status_literals()
                impl = bool(c['crs_lo'] < arg < c['crs_hi'])
                ctx.count('branch:crsSuccessG:%s' % ('true' if a == '1' else 'low' if arg <= c['crs_lo'] else 'high'))
                if (a == '1') != impl:
                    return 'crs: model %s, literal window %r for code %d' % (a, (c['crs_lo'], c['crs_hi']), arg)
                if impl and not (1 <= arg <= 4):
                    return 'CRSMinimizerImpl counts the nlopt result code %d as success (only 1..4 are convergence)' % arg
            elif kind == 'bmode':
                impl = _scipy_mode(arg)
                ctx.count('branch:scipyBoundsModeG:' + a)
                if impl != a:
                    return 'ScipyMinimizerImpl(method=%r): bounds %s in the implementation, %s in the model at the source\'s method lists' % (arg, impl, a)
            elif kind == 'lbfgs':
                (wf, task, as_bytes) = arg
                st = {'warnflag': wf, 'task': task.encode() if as_bytes else task}
                impl = (bool(lb.has_converged(st)), bool(lb.is_repeatable(st)))
                mod = tuple(t == '1' for t in a.split(' '))
                ctx.count('branch:lbfgsRepeatableG:%s' % ('true' if mod[1] else 'flag' if wf != status_literals()['lbfgs_rep'] else 'no-needle'))
                if impl != mod:
                    return 'LBFGSMinimizerImpl status %r: (has_converged, is_repeatable) = %r, model %r' % (st, impl, mod)
                if impl[0] and impl[1]:
                    return 'LBFGSMinimizerImpl status %r is both converged and repeatable' % (st,)
            else:
                impl = bool(nr.has_converged({'warnflag': arg}))
                ctx.count('branch:nrConvergedG:%s' % ('true' if a == '1' else 'false'))
                if impl != (a == '1'):
                    return 'NR1dNsMinimizerImpl.has_converged(warnflag=%d) = %r, model %s' % (arg, impl, a)
    finally:
        lg.setLevel(lvl)
    return None


# --------------------------------------------------------------------------------------------------
# re-evaluation after clipping: every return shape of the objective

SHAPES = ['np64', 'pyfloat', 'np0d', 'tuple1', 'tuple2', 'tuple3', 'list1', 'list2', 'list3', 'tuple0', 'list0']


def _value(case, x):
    t = np.array(case['target'], dtype=np.float64)
    x = np.asarray(x, dtype=np.float64)
    return F64(np.sum((x - t) * (x - t)))


def _shape_of(shape, v, n):
    if shape == 'np64':
        return v
    if shape == 'pyfloat':
        return float(v)
    if shape == 'np0d':
        return np.array(v)
    k = int(shape[-1])
    seq = [v, np.zeros(n), np.eye(n)][:k]
    return tuple(seq) if shape.startswith('tuple') else list(seq)


def run_reeval(case):
    """real Minimizer.minimize around a scripted implementation; the objective returns case['shape']"""
    from skyllh.core.config import Config
    from skyllh.core.minimizer import Minimizer, MinimizerImpl
    from skyllh.core.parameters import Parameter, ParameterSet
    from skyllh.core.random import RandomStateService
    script = case['script']
    state = {'calls': 0, 'fcalls': []}

    class ScriptImpl(MinimizerImpl):
        def minimize(self, initials, bounds, func, func_args=None, **kwargs):
            k = state['calls']
            state['calls'] += 1
            a = script[min(k, len(script) - 1)]
            return (np.array(a['x'], dtype=np.float64), F64(a['f']), {'conv': a['conv'], 'rep': a['rep']})

        def get_niter(self, status):
            return 0

        def has_converged(self, status):
            return bool(status['conv'])

        def is_repeatable(self, status):
            return bool(status['rep'])

    ps = ParameterSet([Parameter('p%d' % i, v, b[0], b[1]) for i, (v, b) in enumerate(zip(case['init'], case['bounds']))])

    def func(x, *args):
        v = _value(case, x)
        state['fcalls'].append(([float(t) for t in x], float(v)))
        return _shape_of(case['shape'], v, len(x))
    m = Minimizer(ScriptImpl(cfg=Config()), max_repetitions=int(case['max_reps']))
    args = {'none': None, 'tuple': (), 'list': []}[case.get('args', 'none')]
    try:
        (x, f, st) = m.minimize(RandomStateService(1), ps, func, args)
    except Exception as e:  # noqa
        return {'err': type(e).__name__, 'msg': str(e)[:200]}, state
    return {'x': [float(v) for v in x], 'fobj': f, 'reps': int(st['skyllh_minimizer_n_reps'])}, state


def _rec(*xs):
    return ':'.join(str(x) for x in xs)


def reeval_reqs(case):
    res, state = run_reeval(case)
    sh = case['shape']
    (code, n) = ('S', 1) if not sh[-1].isdigit() else (sh[0].upper(), int(sh[-1]))
    bs = ';'.join(_rec(f2b(b[0]), f2b(b[1])) for b in case['bounds'])
    full = [case['script'][min(k, len(case['script']) - 1)] for k in range(int(case['max_reps']) + 1)]
    at = ';'.join(_rec('1' if a['conv'] else '0', '1' if a['rep'] else '0', f2b(a['f']), flist(a['x'])) for a in full)
    tab = ';'.join(_rec(code, n, f2b(v), flist(x)) for (x, v) in state['fcalls']) or '-'
    return ['reeval %d %s %s %s' % (int(case['max_reps']), bs, at, tab)]


def _scalar(f):
    """fmin as a plain float if it is one (python / numpy scalar or 0-d array), else None"""
    if isinstance(f, (float, int, np.floating, np.integer)):
        return float(f)
    if isinstance(f, np.ndarray) and f.ndim == 0:
        return float(f)
    return None


def o_reeval_shapes(ctx, case, ans=None):
    """after clipping, fmin is the function value at the clipped point for every return shape of the objective (scalar
    kinds, tuple / list with the value first); an empty sequence raises; without clipping the attempt is passed on."""
    res, state = run_reeval(case)
    if ans is None:
        ans = ctx.driver('C11', reeval_reqs(case))
    tk = ans[0].split(' ')
    script, mr = case['script'], int(case['max_reps'])
    k = 0
    while k < mr and (not script[min(k, len(script) - 1)]['conv']) and script[min(k, len(script) - 1)]['rep']:
        k += 1
    last = script[min(k, len(script) - 1)]
    out = any(not (b[0] <= v <= b[1]) for v, b in zip(last['x'], case['bounds']))
    empty = case['shape'] in ('tuple0', 'list0')
    ctx.count('branch:wrapperRet:%s' % ('not-converged' if not last['conv'] else 'passed-through' if not out else
                                        'reeval-empty' if empty else 'reeval-' + ('scalar' if not case['shape'][-1].isdigit() else case['shape'][:-1])))
    if 'err' in res:
        if not last['conv']:
            return None if (res['err'] == 'ValueError' and tk[0] == 'err') else 'raised %s (%s), model %s' % (res['err'], res['msg'], ans[0][:60])
        if out and empty:
            return None if tk[0] == 'err' else 'implementation raised %s for an empty %s, model answers %s' % (res['err'], case['shape'], ans[0][:60])
        return 'Minimizer.minimize raised %s (%s) with an objective returning %s (attempt x=%r, bounds %r)' % (
            res['err'], res['msg'], case['shape'], last['x'], case['bounds'])
    if not last['conv']:
        return 'Minimizer.minimize returned silently although the last attempt did not converge'
    f = _scalar(res['fobj'])
    if f is not None and tk[0] != 'ok':
        return 'implementation returned x=%r, model raises (%s)' % (res['x'], ans[0][:60])
    if f is None:
        return ('Minimizer.minimize: fmin is %s %r, not the function value: the objective returns %s and the fit values %r were clipped '
                'to %r, the re-evaluation takes element 0 of a tuple only') % (type(res['fobj']).__name__, res['fobj'], case['shape'], last['x'], res['x'])
    want = float(_value(case, res['x'])) if out else float(last['f'])
    if f != want and not (f != f and want != want):
        return 'Minimizer.minimize: fmin=%r, expected %r (objective returning %s, clipped=%r)' % (f, want, case['shape'], out)
    for v, b in zip(res['x'], case['bounds']):
        if not (b[0] <= v <= b[1]):
            return 'Minimizer.minimize: xmin=%r outside the bounds %r' % (res['x'], case['bounds'])
    (_, reps, reev, mf, mx) = tk
    mx = parse_flist(mx)
    if int(reps) != res['reps'] or (reev == '1') != out or mx != res['x'] or f2b(b2f(mf)) != f2b(f):
        return 'model and implementation disagree: implementation x=%r f=%r reps=%d, model %s' % (res['x'], f, res['reps'], ans[0][:120])
    return None


def gen_reeval_case(rng, shape=None):
    n = rng.choice([1, 2, 3])
    bounds = []
    for _ in range(n):
        lo = rng.choice([0.0, -1.5, 2.0, -10.0])
        bounds.append([lo, lo + rng.choice([1.0, 0.5, 4.0, 100.0])])
    init = [b[0] + rng.choice([0.0, 0.25, 1.0]) * (b[1] - b[0]) for b in bounds]
    target = [rng.choice([b[0] - 1.0, b[1] + 2.0, 0.5 * (b[0] + b[1])]) for b in bounds]
    where = rng.choice(['outside', 'outside', 'outside', 'inside', 'on-bound'])
    x = []
    for i, b in enumerate(bounds):
        if where == 'outside':
            x.append(rng.choice([b[0] - rng.choice([1e-9, 0.5]), b[1] + rng.choice([1e-9, 2.0]), 0.5 * (b[0] + b[1])]))
        elif where == 'inside':
            x.append(b[0] + rng.random() * (b[1] - b[0]))
        else:
            x.append(rng.choice(b))
    if where == 'outside' and all(b[0] <= v <= b[1] for v, b in zip(x, bounds)):
        x[0] = bounds[0][1] + 0.25
    nfail = rng.choice([0, 0, 1, 2])
    never = rng.random() < 0.1
    script = [{'x': list(init), 'f': 1.0, 'conv': False, 'rep': True} for _ in range(nfail)]
    script.append({'x': x, 'f': float(rng.choice([0.0, 1.25, -3.0])), 'conv': not never, 'rep': rng.random() < 0.5})
    return {'kind': 'reeval', 'bounds': bounds, 'init': init, 'target': target, 'script': script,
            'max_reps': rng.choice([0, 1, 2, 5]) if rng.random() < 0.3 else 5, 'shape': shape or rng.choice(SHAPES),
            'args': rng.choice(['none', 'tuple', 'list']), 'cls': 'reeval:%s:%s' % (shape or 'any', where)}


# --------------------------------------------------------------------------------------------------
# NR-1D inside a parameter vector: x = copy(initials); x[ns_pidx] = ns

def _quad(x, m, idx):
    d = x[idx] - m
    return (F64(d * d), F64(2.0 * d), F64(2.0))


def run_layout(case):
    from skyllh.core.config import Config
    from skyllh.core.minimizer import NR1dNsMinimizerImpl
    init = np.array(case['init'], dtype=np.float64)
    bounds = np.array(case['bounds'], dtype=np.float64)
    snap = init.copy()
    impl = NR1dNsMinimizerImpl(cfg=Config())
    idx = int(case['idx'])
    kw = {'ns_pidx': idx} if (idx != 0 or case.get('explicit')) else {}
    try:
        (x, f, st) = impl.minimize(init, bounds, lambda x, *a: _quad(x, case['m'], idx), None, **kw)
    except Exception as e:  # noqa
        return {'err': type(e).__name__}
    return {'x': [float(v) for v in x], 'f': float(f), 'flag': int(st['warnflag']), 'unchanged': bool(np.array_equal(snap, init)),
            'shares': bool(np.shares_memory(x, init))}


def layout_reqs(case):
    res = run_layout(case)
    ns = res['x'][case['idx']] if 'err' not in res else 0.0
    return ['layout %s %d %s' % (flist(case['init']), int(case['idx']), f2b(ns))]


def o_nr_layout(ctx, case, ans=None):
    """NR1dNsMinimizerImpl returns the initials with only the ns component replaced (model `nrLayout`), raises for an
    index beyond the vector, leaves the caller's initials alone."""
    res = run_layout(case)
    if ans is None:
        ans = ctx.driver('C11', layout_reqs(case))
    ctx.count('branch:nrLayout:%s' % ('error' if ans[0] == 'ERR' else 'ok'))
    if 'err' in res:
        return None if ans[0] == 'ERR' else 'NR1dNsMinimizerImpl raised %s for ns_pidx=%d of %d parameters' % (res['err'], case['idx'], len(case['init']))
    if ans[0] == 'ERR':
        return 'NR1dNsMinimizerImpl returned %r for ns_pidx=%d beyond the %d parameters' % (res['x'], case['idx'], len(case['init']))
    if parse_flist(ans[0]) != res['x']:
        return 'NR1dNsMinimizerImpl returned x=%r: only component %d may differ from the initials %r' % (res['x'], case['idx'], case['init'])
    if not res['unchanged'] or res['shares']:
        return 'NR1dNsMinimizerImpl changed the caller\'s initials or returned a view of them'
    lo, hi = case['bounds'][case['idx']]
    if not (lo <= res['x'][case['idx']] <= hi):
        return 'NR1dNsMinimizerImpl: ns=%r outside [%r, %r]' % (res['x'][case['idx']], lo, hi)
    return None


def gen_layout_case(rng):
    n = rng.choice([1, 2, 3, 4])
    idx = rng.randrange(n) if rng.random() < 0.85 else n + rng.choice([0, 1])
    bounds = [[0.0, 10.0] if i == idx else [-5.0, 5.0] for i in range(n)]
    init = [rng.choice([0.0, 1.0, 2.5, 10.0]) if i == idx else rng.choice([-5.0, -1.25, 0.0, 3.5]) for i in range(n)]
    return {'kind': 'layout', 'init': init, 'bounds': bounds, 'idx': idx, 'm': rng.choice([-2.0, 3.25, 7.5, 12.0]),
            'explicit': rng.random() < 0.5, 'cls': 'nr-layout:n=%d:%s' % (n, 'beyond' if idx >= n else 'idx=%d' % idx)}


# --------------------------------------------------------------------------------------------------
# TCLLHRatio.maximize: which objective reaches which implementation class

DISPATCH_KINDS = ['nr1d', 'nrScan', 'lbfgs', 'scipy', 'iminuit', 'crs', 'other']


def _probe_class(kind, sub, rec):
    """a subclass (sub levels deep) of the real implementation class whose minimize only probes the objective"""
    import skyllh.core.minimizer as mod
    if kind == 'nr1d':
        base = mod.NR1dNsMinimizerImpl
    elif kind == 'nrScan':
        base = mod.NRNsScan2dMinimizerImpl
    elif kind == 'lbfgs':
        base = mod.LBFGSMinimizerImpl
    elif kind == 'scipy':
        base = mod.ScipyMinimizerImpl
    elif kind == 'iminuit':
        from skyllh.core.minimizers.iminuit import IMinuitMinimizerImpl as base
    elif kind == 'crs':
        from skyllh.core.minimizers.crs import CRSMinimizerImpl as base
    else:
        base = mod.MinimizerImpl

    class Probe(base):
        def minimize(self, initials, bounds, func, func_args=None, **kwargs):
            rec['kw'] = sorted(kwargs)
            x = np.array(initials, dtype=np.float64)
            t = func(x, *(func_args or ()))
            rec['arity'] = len(t)
            rec['f'] = float(t[0])
            return (x, t[0], {'warnflag': 0, 'success': True, 'niter': 0, 'nit': 0, 'nfev': 0, 'last_nr_step': 0.0, 'task': ''})

        def get_niter(self, status):
            return 0

        def has_converged(self, status):
            return True

        def is_repeatable(self, status):
            return False
    cls = Probe
    for _ in range(int(sub)):
        cls = type('Sub' + cls.__name__, (cls,), {})
    return cls


def run_dispatch(case):
    from harness.props import c11
    from skyllh.core.random import RandomStateService
    rec = {}
    cls = _probe_class(case['impl'], case['sub'], rec)
    kw = {'cfg': c11.cfg()}
    if case['impl'] == 'scipy':
        kw['method'] = 'SLSQP'
    if case['impl'] == 'nrScan':
        kw['p2_scan_step'] = 0.5
    import sys
    had = sys.modules.get('nlopt')
    if case['impl'] == 'crs' and had is None:
        sys.modules['nlopt'] = c11._StubNlopt     # CRSMinimizerImpl.__init__ asks for the module; the probe never optimises
    try:
        llh = c11.build_llh(case['llh'], cls(**kw))
        (v, x, st) = llh.maximize(RandomStateService(1))
    finally:
        if case['impl'] == 'crs' and had is None:
            sys.modules.pop('nlopt', None)
    x0 = np.array(c11.init_bounds(case['llh'])[0], dtype=np.float64)
    rec.update(v=float(v), x=[float(t) for t in x], ev=float(llh.evaluate(x0)[0]))
    return rec


def dispatch_reqs(case):
    return ['dispatch ' + case['impl']]


def o_maximize_dispatch(ctx, case, ans=None):
    """TCLLHRatio.maximize hands the three-valued Newton objective (with ns_pidx) to NR1dNsMinimizerImpl /
    NRNsScan2dMinimizerImpl and their subclasses, the (value, gradients) objective (func_provides_grads) to every other
    implementation class -- model `maximizePath` / `objectiveArity`; log_lambda_max is the llh value at the reported point."""
    if ans is None:
        ans = ctx.driver('C11', dispatch_reqs(case))
    (path, arity) = ans[0].split(' ')
    ctx.count('branch:maximizePath:%s' % path)
    try:
        rec = run_dispatch(case)
    except (TypeError, ValueError) as e:
        return ('TCLLHRatio.maximize with a %s implementation (subclass depth %d) raised %s: %s -- the implementation did not get the '
                'objective it unpacks') % (case['impl'], case['sub'], type(e).__name__, str(e)[:120])
    if rec['arity'] != int(arity):
        return 'TCLLHRatio.maximize hands an objective returning %d values to a %s implementation (subclass depth %d); it unpacks %s (model path %s)' % (
            rec['arity'], case['impl'], case['sub'], arity, path)
    want = ['ns_pidx'] if path == 'newton' else ['func_provides_grads']
    if rec['kw'] != want:
        return 'TCLLHRatio.maximize passes the keyword arguments %r to a %s implementation, expected %r' % (rec['kw'], case['impl'], want)
    if rec['f'] != -rec['ev'] or rec['v'] != rec['ev']:
        return 'log_lambda_max=%r, objective=%r, llh.evaluate at the reported point=%r: not the negated value' % (rec['v'], rec['f'], rec['ev'])
    return None


def gen_dispatch_cases(rng, gen_llh_case, have_iminuit=True):
    out = []
    for kind in DISPATCH_KINDS:
        if kind == 'iminuit' and not have_iminuit:
            continue
        for sub in (0, 1, 2):
            cs = gen_llh_case(rng)
            cs.pop('forms', None)
            out.append({'kind': 'dispatch', 'impl': kind, 'sub': sub, 'llh': cs, 'cls': 'dispatch:%s:sub=%d' % (kind, sub)})
    return out


R7_BRANCHES = (['crsSuccessG:true', 'crsSuccessG:low', 'crsSuccessG:high',
                'scipyBoundsModeG:native', 'scipyBoundsModeG:constraints', 'scipyBoundsModeG:dropped',
                'lbfgsRepeatableG:true', 'lbfgsRepeatableG:flag', 'lbfgsRepeatableG:no-needle',
                'nrConvergedG:true', 'nrConvergedG:false', 'nrLayout:ok', 'nrLayout:error',
                'wrapperRet:not-converged', 'wrapperRet:passed-through', 'wrapperRet:reeval-empty',
                'wrapperRet:reeval-scalar', 'wrapperRet:reeval-tuple', 'wrapperRet:reeval-list',
                'maximizePath:newton', 'maximizePath:generic'])
