"""C17, round 7: fixtures for the loader registry / dispatch (`register_FileLoader`, `create_FileLoader`) and the table
header of text files (`TextFileLoader`: header line -> column names -> usecols), compared with
Model/LoadDispatchR7.lean (driver requests `dispatch`, `register`, `header`).

Only public API is used: the registry is observed through `create_FileLoader` (class of the returned loader,
its `pathfilename_list`), the header parsing through `TextFileLoader(...).load_data` (fields of the result; every cell
of file column j holds 100*j + row, so the column a field was read from is visible).  The harness keeps its own mirror of
the registry: the formats of the current source (read by `generated()`), `.c17npy` of the keep-field recorder and
what this module registers.  ASCII names only (the model's `lower` is ASCII `str.lower`)."""
import os

import numpy as np

DERR = {'typeError': 'TypeError', 'keyError': 'KeyError', 'indexError': 'IndexError', 'noLoader': 'RuntimeError',
        'valueError': 'ValueError', 'noColumns': 'ValueError'}

# formats registered once per process; several are (ignoring case) suffixes of others, so that the sorted order of the
# formats decides: `.r7x` < `x.r7x` (the longer one is unreachable), `.R7Y` < `.r7y`, `.gz` < `.r7x.gz`, but `.a.zz` < `.zz`
R7_FORMATS = ['.r7x', 'x.r7x', '.R7Y', '.r7y', '.r7x.gz', '.gz', '.a.zz', '.zz']

_STATE = {'mirror': None, 'classes': {}, 'n': 0}


def enc(s):
    return 'e' if s == '' else '.'.join(str(ord(ch)) for ch in s)


def dec(tok):
    return '' if tok == 'e' else ''.join(chr(int(x)) for x in tok.split('.'))


def enc_list(xs):
    return ','.join(enc(x) for x in xs) if xs else '-'


def dec_list(tok):
    return [] if tok == '-' else [dec(x) for x in tok.split(',')]


def reg_token(reg):
    return ','.join('%s:%s' % (enc(f), c) for f, c in reg) if reg else '-'


def _dummy(name):
    from skyllh.core import storage
    if name not in _STATE['classes']:
        _STATE['classes'][name] = type(name, (storage.FileLoader,), {'load_data': lambda self, **kw: None})
    return _STATE['classes'][name]


def mirror(consts, recording_format):
    """the registry as the harness knows it (list of [format, class name] in registration order)"""
    if _STATE['mirror'] is None:
        from skyllh.core import storage
        recording_format()
        m = [list(e) for e in consts['registry']] + [['.c17npy', 'RecordingNPYFileLoader']]
        for i, f in enumerate(R7_FORMATS):
            cls = _dummy('R7Dummy%d' % i)
            storage.register_FileLoader([f] if i % 2 else f, cls)
            m.append([f, cls.__name__])
        _STATE['mirror'] = m
    return _STATE['mirror']


# ------------------------------------------------------------------------------------------ create_FileLoader

_STEMS = ['a', 'data/exp', '/tmp/x.y/IC86_exp', 'X', '', '.', 'mc.', 'run_00.npy', 'b.csv', 'x', 'ax', '.a', 'z']


def _flip(rng, s):
    return ''.join(ch.upper() if rng.random() < 0.3 else ch.lower() if rng.random() < 0.2 else ch for ch in s)


def gen_name(rng, reg):
    f = rng.choice(reg)[0]
    r = rng.random()
    if r < 0.50:
        ext = _flip(rng, f)
    elif r < 0.60:
        ext = f[1:]
    elif r < 0.68:
        ext = f + rng.choice(['x', '.', ' ', '2'])
    elif r < 0.76:
        ext = f[:-1]
    elif r < 0.88:
        ext = _flip(rng, f) + _flip(rng, rng.choice(reg)[0])
    else:
        ext = rng.choice(['.txt', '', '.h5', 'npy', 'y', '.NPY ', '.np.y'])
    stem = rng.choice(_STEMS)
    if rng.random() < 0.08:
        return ext[-rng.randrange(1, 4):] if ext else ''         # names shorter than the formats
    return stem + ext


def gen_dispatch(rng, reg):
    r = rng.random()
    if r < 0.05:
        return {'paths': [], 'form': rng.choice(['list', 'tuple'])}
    if r < 0.10:
        return {'paths': [], 'form': 'other', 'other': rng.choice(['int', 'list-of-int', 'none', 'bytes'])}
    n = 1 if rng.random() < 0.45 else rng.randrange(2, 5)
    paths = [gen_name(rng, reg) for _ in range(n)]
    return {'paths': paths, 'form': rng.choice(['str', 'list', 'tuple']) if n == 1 else rng.choice(['list', 'tuple'])}


def _arg(case):
    if case['form'] == 'str':
        return case['paths'][0]
    if case['form'] == 'list':
        return list(case['paths'])
    if case['form'] == 'tuple':
        return tuple(case['paths'])
    return {'int': 5, 'list-of-int': [1, 2], 'none': None, 'bytes': b'a.npy'}[case['other']]


def impl_dispatch(case):
    from skyllh.core import storage
    arg = _arg(case)
    snap = list(arg) if isinstance(arg, (list, tuple)) else arg
    try:
        ld = storage.create_FileLoader(arg)
    except Exception as e:  # noqa
        return ('err', next(t.__name__ for t in (KeyError, IndexError, RuntimeError, TypeError, ValueError, Exception)
                            if isinstance(e, t)))
    listed = ld.pathfilename_list
    if not isinstance(listed, list):
        return ('ok', type(ld).__name__, 'pathfilename_list is a %s' % type(listed).__name__)
    if isinstance(arg, (list, tuple)) and list(arg) != snap:
        return ('ok', type(ld).__name__, 'ARGUMENT-MODIFIED %r' % (list(arg),))
    if isinstance(arg, list):
        # the caller keeps using its own list object: the loader's file list must not follow
        arg.append('later.npy')
        arg.reverse()
    return ('ok', type(ld).__name__, list(ld.pathfilename_list))


def dispatch_request(case, reg):
    form = {'str': 'str', 'list': 'seq', 'tuple': 'seq', 'other': 'other'}[case['form']]
    return 'dispatch %s %s %s' % (reg_token(reg), form, enc_list(case['paths']))


def parse_dispatch(ans):
    t = ans.split(' ')
    if t[0] == 'err':
        return ('err', DERR.get(t[1], t[1]))
    return ('ok', t[1], dec_list(t[2]))


def branch_dispatch(case, ans):
    if ans.startswith('err '):
        return 'dispatch:' + ans[4:]
    return 'dispatch:match-str-form' if case['form'] == 'str' else 'dispatch:match'


def o_dispatch(ctx, case, consts=None, recording_format=None):
    """implementation only: (1) the class depends on the first name only and a single name as str = [name];
    (2) the loader gets exactly the listed names; (3) a name that ends (any case) in exactly one registered format gets
    that format's class, a name that ends in none is a RuntimeError."""
    reg = mirror(consts, recording_format) if consts is not None else _STATE['mirror']
    if reg is None:
        return None
    got = impl_dispatch(case)
    if case['form'] == 'other':
        return None if got == ('err', 'TypeError') else 'create_FileLoader(%r) gave %r, documented: TypeError' % (_arg(case), got)
    if not case['paths']:
        return None if got[0] == 'err' else 'create_FileLoader of an empty list returned %r' % (got,)
    p0 = case['paths'][0]
    hits = [(f, c) for f, c in reg if p0.lower().endswith(f.lower())]
    if got[0] == 'ok' and got[2] != list(case['paths']):
        return 'create_FileLoader(%r): the loader lists %r' % (case['paths'], got[2])
    if not hits and got != ('err', 'RuntimeError'):
        return 'create_FileLoader(%r): no registered format matches the first name, documented RuntimeError, got %r' % (case['paths'], got)
    if len(hits) == 1 and (got[0] != 'ok' or got[1] != hits[0][1]):
        return 'create_FileLoader(%r): the first name ends in the format %r registered for %s only, got %r' % (
            case['paths'], hits[0][0], hits[0][1], got)
    if hits and (got[0] != 'ok' or got[1] not in [c for _, c in hits]):
        return 'create_FileLoader(%r): formats %r match the first name, got %r' % (case['paths'], [f for f, _ in hits], got)
    single = impl_dispatch({'paths': [p0], 'form': 'str'})
    if single[:2] != got[:2]:
        return 'create_FileLoader(%r) gives %r, but %r for the first name alone (str)' % (case['paths'], got[:2], single[:2])
    return None


# ------------------------------------------------------------------------------------------ register_FileLoader

def gen_register(rng, reg):
    def new():
        _STATE['n'] += 1
        return '.r7n%d%s' % (_STATE['n'], rng.choice(['', 'A', '.b']))
    r = rng.random()
    if r < 0.12:
        return {'formats': [new()], 'form': 'list', 'cls': 'notloader'}
    if r < 0.22:
        return {'formats': [], 'form': 'other', 'cls': 'loader'}
    if r < 0.40:
        return {'formats': [new()], 'form': 'str', 'cls': 'loader'}
    fs = [new() for _ in range(rng.randrange(1, 4))]
    if rng.random() < 0.55:
        fs.insert(rng.randrange(0, len(fs) + 1), rng.choice(reg)[0])        # an already registered one: KeyError there
    elif rng.random() < 0.3:
        fs.append(fs[0])                                                      # the same new format twice
    return {'formats': fs, 'form': rng.choice(['list', 'tuple']), 'cls': 'loader'}


def ref_register(reg, case, clsname):
    """brute-force reference: registry after the call, outcome"""
    if case['form'] == 'other' or case['cls'] != 'loader':
        return [list(e) for e in reg], 'TypeError'
    out = [list(e) for e in reg]
    for f in case['formats']:
        if any(f == g for g, _ in out):
            return out, 'KeyError'
        out.append([f, clsname])
    return out, 'ok'


def impl_register(case):
    """-> (pre-registry, class name, outcome, {format: class name | error type} for every format of the call)"""
    from skyllh.core import storage
    reg = _STATE['mirror']
    pre = [list(e) for e in reg]
    _STATE['n'] += 1
    cls = _dummy('R7New%d' % _STATE['n']) if case['cls'] == 'loader' else type('R7NotALoader', (object,), {})
    arg = (case['formats'][0] if case['form'] == 'str' else list(case['formats']) if case['form'] == 'list'
           else tuple(case['formats']) if case['form'] == 'tuple' else 7)
    try:
        storage.register_FileLoader(arg, cls)
        outcome = 'ok'
    except Exception as e:  # noqa
        outcome = next(t.__name__ for t in (KeyError, TypeError, ValueError, RuntimeError, Exception) if isinstance(e, t))
    probes = {}
    for f in case['formats']:
        g = impl_dispatch({'paths': ['probe' + f], 'form': 'list'})
        probes[f] = g[1]
    post, _ = ref_register(pre, case, cls.__name__)
    # the mirror follows what is observable: a format is registered iff the probe finds a class for it
    _STATE['mirror'] = post
    return pre, cls.__name__, outcome, probes


def register_request(case, pre, clsname):
    form = {'str': 'str', 'list': 'seq', 'tuple': 'seq', 'other': 'other'}[case['form']]
    return 'register %s %s %s %d %s' % (reg_token(pre), form, enc_list(case['formats']), case['cls'] == 'loader', clsname)


def parse_register(ans):
    t = ans.split(' ')
    reg = [] if t[0] == '-' else [[dec(x.split(':')[0]), x.split(':')[1]] for x in t[0].split(',')]
    return reg, ('ok' if t[1] == 'ok' else DERR.get(t[2], t[2]))


def check_register(case, pre, clsname, outcome, probes):
    """implementation vs the reference: outcome and, through `create_FileLoader`, which formats are registered for which class"""
    post, want = ref_register(pre, case, clsname)
    if outcome != want:
        return 'register_FileLoader(%r, %s): %s, expected %s' % (case['formats'], case['cls'], outcome, want)
    for f in case['formats']:
        hits = sorted(g for g, _ in post if ('probe' + f).lower().endswith(g.lower()))
        exp = dict((g, c) for g, c in post)[hits[0]] if hits else 'RuntimeError'
        if len(hits) <= 1 and probes[f] != exp:
            return 'after register_FileLoader(%r, %s) -> %s: create_FileLoader("probe%s") gives %s, expected %s' % (
                case['formats'], case['cls'], outcome, f, probes[f], exp)
    return None


# ------------------------------------------------------------------------------------------ text header

_NAMES = ['ra', 'dec', 'sin_dec', 'log_energy', 'E', 'ang_err', 'time', 'x1', 'a', 'aa', 'Run', 'run', 'm_w', 'f-2', 'v[0]']
_WS = [' ', '  ', '\t', ' \t ']


def gen_header(rng):
    comment = rng.choice(['#', '#', '#', '//', '%', '#!', '# '])
    sep = rng.choice([None, None, None, ',', ';', '|', '\t'])
    k = rng.randrange(1, 6)
    names = rng.sample(_NAMES, k)
    r = rng.random()
    kind = 'ok'
    if r < 0.06:
        kind = 'no-comment'
    elif r < 0.10:
        kind = 'other-comment'
    elif r < 0.13 and sep is None:
        kind = 'comment-only'
    elif r < 0.16:
        kind = 'empty-line'
    elif r < 0.19:
        kind = 'empty-separator'
        sep = ''
    elif r < 0.27 and comment.strip() == comment:
        names[-1] = 'q' + comment[-1]          # the last name ends in a comment character: `line.strip(comment)` removes it
    lead = rng.choice(['', '', ' ', '\t', '  '])
    after = rng.choice(['', ' ', ' ', '  ', '\t']) if not comment.endswith(' ') else rng.choice(['', ' '])
    reps = comment * (2 if rng.random() < 0.15 and comment.strip() == comment else 1)
    if sep is None:
        body = ''.join(n + rng.choice(_WS) for n in names).rstrip() if rng.random() < 0.6 else ' '.join(names)
    elif sep == '\t':
        body = '\t'.join(names)
    else:
        pad = (lambda: rng.choice(['', ' ', '  '])) if rng.random() < 0.5 else (lambda: '')
        body = (sep or ' ').join(pad() + n + pad() for n in names)
    tail = rng.choice(['\n', '\n', ' \n', '\r\n', '  \t\n'])
    line = lead + reps + after + body + tail
    if kind == 'no-comment':
        line = body + tail
    elif kind == 'other-comment':
        line = lead + ('%' if comment[0] != '%' else '#') + after + body + tail
    elif kind == 'comment-only':
        line = lead + reps + after.replace('\t', ' ') + tail
    elif kind == 'empty-line':
        line = rng.choice(['\n', '  \n', '\t\n'])
    rk = rng.random()
    if rk < 0.35:
        keep = None
    else:
        keep = [n for n in names if rng.random() < 0.5] + rng.sample(['zz', 'r', 'Dec', 'ener'], rng.randrange(0, 3))
        rng.shuffle(keep)
        if rng.random() < 0.12:
            keep = rng.sample(['zz', 'r', 'Dec'], rng.randrange(0, 3))
    return {'comment': comment, 'sep': sep, 'line': line, 'ncols': k, 'nrows': rng.randrange(1, 4), 'keep': keep,
            'keep_form': rng.choice(['list', 'tuple']), 'kind': kind, 'via': rng.choice(['class', 'create_FileLoader'])}


def impl_header(d, case, tag):
    """-> ('ok', names in result order, {name: file column index}) | ('err', type)"""
    from skyllh.core import storage
    path = os.path.join(d, 'hdr_%s.csv' % tag)
    dl = case['sep'] if case['sep'] else ' '
    with open(path, 'w', newline='') as f:
        f.write(case['line'])
        for r in range(case['nrows']):
            f.write(dl.join('%d.0' % (100 * j + r) for j in range(case['ncols'])) + '\n')
    keep = case['keep'] if case['keep'] is None else (list(case['keep']) if case['keep_form'] == 'list' else tuple(case['keep']))
    try:
        if case.get('via') == 'create_FileLoader':     # keyword arguments travel through the dispatch to the constructor
            ld = storage.create_FileLoader(path if case['nrows'] % 2 else [path], header_comment=case['comment'],
                                           header_separator=case['sep'])
        else:
            ld = storage.TextFileLoader([path], header_comment=case['comment'], header_separator=case['sep'])
        data = ld.load_data(keep_fields=keep)
        names = list(data.field_name_list)
        cols = {}
        for n in names:
            v = np.asarray(data[n])
            if len(v) != case['nrows'] or any(int(v[r]) % 100 != r for r in range(len(v))) or len(set(int(x) // 100 for x in v)) != 1:
                return ('ok', names, {n: 'rows %r' % (v.tolist(),)})
            cols[n] = int(v[0]) // 100
        return ('ok', names, cols)
    except Exception as e:  # noqa
        return ('err', next(t.__name__ for t in (KeyError, IndexError, RuntimeError, TypeError, ValueError, Exception)
                            if isinstance(e, t)))
    finally:
        os.remove(path)


def header_request(case):
    return 'header %s %s %s %s' % (enc(case['comment']), '*' if case['sep'] is None else enc(case['sep']), enc(case['line']),
                                   '*' if case['keep'] is None else enc_list(case['keep']))


def parse_header(ans, ncols):
    t = ans.split(' ')
    if t[0] == 'err':
        return ('err', DERR.get(t[1], t[1]))
    names = dec_list(t[1])
    idx = list(range(len(names))) if t[2] == '*' else ([] if t[2] == '-' else [int(x) for x in t[2].split(',')])
    return ('ok', names, dict(zip(names, idx)))


def branches_header(case, ans):
    out = []
    if ans.startswith('err '):
        out.append('header:' + ans[4:])
        if case['kind'] in ('no-comment', 'other-comment', 'empty-line'):
            out.append('extract:not-a-comment-line')
        if case['kind'] == 'comment-only':
            out.append('extract:no-names')
        return out
    out.append('extract:whitespace-split' if case['sep'] is None else 'extract:separator-split')
    out.append('select:all' if case['keep'] is None else 'select:usecols')
    return out


def o_header(ctx, case):
    """implementation only (reference by `str` methods on the well-formed header lines of the generator): the fields are
    the listed column names (those in keep_fields), each read from its own file column; a first line that is no comment
    line, or a selection without columns, is a ValueError."""
    import contextlib
    import shutil
    import tempfile
    d = tempfile.mkdtemp(prefix='C17_run_', dir='/tmp')
    try:
        got = impl_header(d, case, 'o')
    finally:
        with contextlib.suppress(Exception):
            shutil.rmtree(d, ignore_errors=True)
    if case['kind'] in ('no-comment', 'other-comment', 'empty-line', 'comment-only', 'empty-separator'):
        return None if got == ('err', 'ValueError') else 'header line %r (%s): expected ValueError, got %r' % (case['line'], case['kind'], got)
    body = case['line'].strip()
    while body.startswith(case['comment'].strip() or case['comment']):
        body = body[len(case['comment'].strip() or case['comment']):]
    body = body.strip()
    cols = [x.strip() for x in (body.split() if case['sep'] is None else body.split(case['sep']))]
    if cols and cols[-1].startswith('q') and len(cols[-1]) == 2 and cols[-1][1] in case['comment']:
        return None                      # the name ends in a comment character (left to the correspondence)
    want = {n: j for j, n in enumerate(cols) if case['keep'] is None or n in case['keep']}
    if not want:
        return None if got == ('err', 'ValueError') else 'header %r, keep_fields %r: nothing selected, expected ValueError, got %r' % (
            case['line'], case['keep'], got)
    if got[0] != 'ok' or got[2] != want:
        return 'header %r (comment %r, separator %r), keep_fields %r: expected field -> file column %r, got %r' % (
            case['line'], case['comment'], case['sep'], case['keep'], want, got)
    return None
