"""C19, round 7: generators and checks for the model definitions of lean/SkyllhModel/Model/CoordsR7.lean.

* `psicalli` — `get_tdm_field_func_psi` on *signed* (source, event) index pairs: numpy wraps indices in [-n, 0)
  and raises outside [-n, n) (model `normIdx`, `takeWrap`, `psiFieldCallI`); the wrapped value must be the angle of the
  pair numpy's rule names.
* `horcall` — `hor_to_equ_transform(azi, zen, mjd)` / `ra_to_azi_transform(ra, mjd)` as whole calls (model `horToEquCall`,
  `raToAziCall`): azi and mjd broadcast, zen does not take part (dec has the length of zen).

Every function takes the c19 harness module `H` as first argument (no import cycle).
"""
import numpy as np


# ------------------------------------------------------------------------------------------ signed index pairs

R7_BRANCHES = {
    'normidx': ['neg:wraps', 'neg:below-range', 'nonneg:in-range', 'nonneg:beyond-range'],
    'psicalli': ['ok', 'ERR:index'],
    'horcall': ['ok', 'ERR:shape', 'ok:dec-length-differs'],
}


def norm_idx_class(n, i):
    if i < 0:
        return 'neg:wraps' if i + n >= 0 else 'neg:below-range'
    return 'nonneg:in-range' if i < n else 'nonneg:beyond-range'


def gen_psicalli(H, rng):
    K, n = rng.choice([1, 2, 3, 4]), rng.choice([0, 1, 2, 4, 5])
    src = [[H.gen_ra(rng), H.gen_dec(rng)] for _ in range(K)]
    era, edec = [H.gen_ra(rng) for _ in range(n)], [H.gen_dec(rng) for _ in range(n)]
    m = rng.choice([0, 1, 3, 6])
    pairs = [[rng.randrange(-K, K), rng.randrange(-n, n)] for _ in range(m)] if n else []
    cls = 'signed-valid'
    r = rng.random()
    if r < 0.2:
        pairs.insert(rng.randrange(len(pairs) + 1), rng.choice([[-K - 1, -n if n else 0], [-1, -n - 1], [-K - 3, 0], [-K, -n - 2]]))
        cls = 'below-range'
    elif r < 0.35:
        pairs.insert(rng.randrange(len(pairs) + 1), rng.choice([[K, -1 if n else 0], [-1, n], [K + 2, n + 1]]))
        cls = 'beyond-range'
    elif r < 0.45 and n:
        pairs = [[-K, -n], [K - 1, n - 1], [-1, -1], [0, 0]]
        cls = 'signed-extremes'
    return cls, {'src': src, 'evt_ra': era, 'evt_dec': edec, 'pairs': pairs, 'floor': rng.choice([None, None, 1e-3]),
                 'omit_floor': rng.random() < 0.5}


def psicalli_request(H, case):
    src_flat = H.flist_(np.array(case['src'], dtype=np.float64).ravel())
    evt_flat = H.flist_(np.stack([H.A(case['evt_ra']), H.A(case['evt_dec'])], axis=1).ravel()) if case['evt_ra'] else '-'
    pairs = ','.join('%d,%d' % (k, e) for k, e in case['pairs']) or '-'
    return 'psicalli %s %s %s %s' % (src_flat, evt_flat, pairs, '-' if case.get('floor') is None else H.f2b(case['floor']))


def normidx_requests(case):
    K, n = len(case['src']), len(case['evt_ra'])
    return [r for k, e in case['pairs'] for r in ('normidx %d %d' % (K, k), 'normidx %d %d' % (n, e))]


def chk_psicalli(H, case, model_line=None, norm_lines=None, counts=None):
    """get_tdm_field_func_psi on signed index pairs; case: src [[ra, dec]…], evt_ra, evt_dec, pairs [[k, e]…], floor"""
    from skyllh.core.utils.tdm import get_tdm_field_func_psi
    f = H.Fails(1)
    tdm = H._DuckTDM(case['src'], case['evt_ra'], case['evt_dec'], case['pairs'])
    keep = [tdm._d['ra'].copy(), tdm._d['dec'].copy(), tdm._d['src_array'].copy(), tdm.src_evt_idxs[0].copy(), tdm.src_evt_idxs[1].copy()]
    try:
        if case.get('floor') is None and case.get('omit_floor'):
            func = get_tdm_field_func_psi()             # the default of the signature: no floor
        else:
            func = get_tdm_field_func_psi(psi_floor=case.get('floor'))
        psi = np.asarray(func(tdm, None, None), dtype=np.float64)
        exc = None
    except Exception as e:  # noqa
        psi, exc = None, e
    now = [tdm._d['ra'], tdm._d['dec'], tdm._d['src_array'], tdm.src_evt_idxs[0], tdm.src_evt_idxs[1]]
    if not all(np.array_equal(a, b) for a, b in zip(keep, now)):
        f.all('modifies-input', 'psi field function modifies the data of the trial data manager (pairs %r)' % (case['pairs'],))
        return f
    K, n = len(case['src']), len(case['evt_ra'])
    bad_idx = any(not (-K <= k < K) or not (-n <= e < n) for k, e in case['pairs'])
    if bad_idx and exc is None:
        f.all('no-error-for-missing-index', 'psi field function returns %d values for signed pairs %r with %d sources and %d events '
              '(an index is outside [-n, n))' % (len(psi), case['pairs'], K, n))
    elif not bad_idx and exc is not None:
        f.all('raises', 'psi field function raised %s: %s for valid signed pairs %r (%d sources, %d events)'
              % (type(exc).__name__, exc, case['pairs'], K, n))
    elif exc is None:
        src = np.array(case['src'], dtype=np.float64).reshape((-1, 2))
        k = np.array([p[0] % K for p in case['pairs']], dtype=np.int64)
        e = np.array([p[1] % n for p in case['pairs']], dtype=np.int64)
        ref = (np.asarray(H.ref_sep(H.A(case['evt_ra'])[e], H.A(case['evt_dec'])[e], src[k, 0], src[k, 1]), dtype=np.float64)
               if len(k) else np.zeros(0))
        fl = case.get('floor')
        want = ref if fl is None else np.where(ref < fl, fl, ref)
        if psi.shape != want.shape or not bool(np.all(np.abs(psi - want) <= H.sep_tol(ref) * H._W + 1e-15)):
            f.all('not-angle-of-the-wrapped-pair', 'psi field function on signed pairs %r (%d sources, %d events) returns %r, the angles '
                  'of the pairs counted from the end are %r' % (case['pairs'], K, n, psi.tolist()[:6], want.tolist()[:6]))
    if model_line is not None and f.tag[0] is None:
        if counts is not None:
            key = model_line if model_line.startswith('ERR') else 'ok'
            d = counts.setdefault('psicalli', {})
            d[key] = d.get(key, 0) + 1
        if model_line.startswith('ERR') != (exc is not None):
            f.all('call-model-disagrees', 'psi field function on signed pairs %r (%d sources, %d events): %s, the model of the call says %s'
                  % (case['pairs'], K, n, 'raises ' + type(exc).__name__ if exc is not None else 'returns values', model_line))
        elif exc is None and len(case['pairs']):
            mv = np.array([H.b2f(t) for t in model_line.split(',')], dtype=np.float64)
            if mv.shape != psi.shape or not bool(np.all(np.abs(mv - psi) <= H.sep_tol(mv))):
                f.all('call-model-disagrees', 'psi field function on signed pairs %r returns %r, model %r'
                      % (case['pairs'], psi.tolist()[:6], mv.tolist()[:6]))
    if norm_lines is not None and f.tag[0] is None:
        # normIdx against numpy's own rule, observed on an arange
        flat = [(K, p[0]) for p in case['pairs']] + [(n, p[1]) for p in case['pairs']]
        lines = norm_lines[0::2] + norm_lines[1::2]
        for (m, i), ln in zip(flat, lines):
            if counts is not None:
                d = counts.setdefault('normidx', {})
                c = norm_idx_class(m, i)
                d[c] = d.get(c, 0) + 1
            try:
                got = str(int(np.take(np.arange(m), i)))
            except IndexError:
                got = 'ERR:index'
            if got != ln:
                f.all('normidx-model-disagrees', 'np.take(arange(%d), %d) gives %s, the model normIdx %s' % (m, i, got, ln))
                break
    return f


# ------------------------------------------------------------------------------------------ hor_to_equ / ra_to_azi as calls

def gen_horcall(H, rng):
    fn = rng.choice(['hor', 'hor', 'razi'])
    n = rng.choice([0, 1, 2, 3, 5])
    r = rng.random()
    if r < 0.45:
        lens, cls = [n, n, n], 'equal'
    elif r < 0.6:
        lens, cls = [n, n, 1], 'one-time-for-all'
    elif r < 0.7:
        lens, cls = [1, n, n], 'one-azimuth'
    elif r < 0.85:
        lens, cls = [n, rng.choice([0, 1, 2, 4, 7]), n], 'zen-length-free'
    else:
        lens, cls = [n + 2, n, n + 3], 'azi-mjd-mismatch'
    mjd0 = H.gen_mjd(rng)
    mjd = [mjd0 if rng.random() < 0.3 else H.gen_mjd(rng) for _ in range(lens[2])]
    azi = [rng.choice([0.0, rng.uniform(0, H.TWO_PI), float(np.nextafter(H.TWO_PI, 0))]) for _ in range(lens[0])]
    zen = [rng.choice([0.0, H.PI, rng.uniform(0, H.PI)]) for _ in range(lens[1])]
    if fn == 'razi':
        return 'razi:' + cls, {'fn': 'razi', 'azi': azi, 'zen': [], 'mjd': mjd}
    return 'hor:' + cls, {'fn': 'hor', 'azi': azi, 'zen': zen, 'mjd': mjd}


def horcall_request(H, case):
    if case['fn'] == 'razi':
        return 'razicall %s %s' % (H.flist_(case['azi']), H.flist_(case['mjd']))
    return 'horcall %s %s %s' % (H.flist_(case['azi']), H.flist_(case['zen']), H.flist_(case['mjd']))


def chk_horcall(H, case, model_line=None, counts=None):
    """hor_to_equ_transform / ra_to_azi_transform as one call on float64 arrays of generated lengths"""
    from skyllh.i3.utils.coords import hor_to_equ_transform, ra_to_azi_transform
    f = H.Fails(1)
    azi, zen, mjd = H.A(case['azi']), H.A(case['zen']), H.A(case['mjd'])
    keep = [azi.copy(), zen.copy(), mjd.copy()]
    fname = 'hor_to_equ_transform' if case['fn'] == 'hor' else 'ra_to_azi_transform'
    desc = '%s(lengths azi %d, zen %d, mjd %d)' % (fname, len(azi), len(zen), len(mjd))
    try:
        with np.errstate(all='ignore'):
            if case['fn'] == 'hor':
                ra, dec = hor_to_equ_transform(azi, zen, mjd)
            else:
                ra, dec = ra_to_azi_transform(azi, mjd), np.zeros(0)
        ra, dec = np.atleast_1d(np.asarray(ra, dtype=np.float64)), np.atleast_1d(np.asarray(dec, dtype=np.float64))
        exc = None
    except Exception as e:  # noqa
        ra = dec = None
        exc = e
    if not all(np.array_equal(a, b) for a, b in zip(keep, [azi, zen, mjd])):
        f.all('modifies-input', '%s modifies an argument in place' % desc)
        return f
    if exc is None:
        bad = H._ra_bad(ra)
        if bool(np.any(bad)):
            i = int(np.nonzero(bad)[0][0])
            f.all('ra-out-of-range', '%s: element %d of the right ascension / azimuth is %r, outside [0, 2pi)' % (desc, i, ra[i]))
            return f
    if model_line is None:
        return f
    key = model_line if model_line.startswith('ERR') else 'ok'
    if counts is not None:
        d = counts.setdefault('horcall', {})
        d[key] = d.get(key, 0) + 1
        if key == 'ok' and case['fn'] == 'hor' and exc is None and len(dec) != len(ra):
            d['ok:dec-length-differs'] = d.get('ok:dec-length-differs', 0) + 1
    if model_line.startswith('ERR'):
        if exc is None:
            f.all('call-model-disagrees', '%s returns a result, the model of the call says %s' % (desc, model_line))
        return f
    if exc is not None:
        f.all('call-model-disagrees', '%s raises %s: %s, the model of the call returns a result' % (desc, type(exc).__name__, exc))
        return f
    toks = model_line.split()
    m_ra = np.array([] if toks[0] == '-' else [H.b2f(t) for t in toks[0].split(',')], dtype=np.float64)
    m_dec = np.array([] if len(toks) < 2 or toks[1] == '-' else [H.b2f(t) for t in toks[1].split(',')], dtype=np.float64)
    if m_ra.shape != ra.shape or m_dec.shape != dec.shape:
        f.all('call-model-disagrees', '%s returns %d right ascensions and %d declinations, the model of the call %d and %d'
              % (desc, ra.size, dec.size, m_ra.size, m_dec.size))
        return f
    if ra.size:
        t = np.broadcast_to(mjd, ra.shape) if mjd.size in (1, ra.size) else np.full(ra.shape, np.max(np.abs(mjd)))
        if not bool(np.all(H.circ_diff(ra, m_ra) <= 1e-12 + H.azi_tol(t))):
            i = int(np.argmax(H.circ_diff(ra, m_ra)))
            f.all('call-model-disagrees', '%s: element %d of the result is %r, model of the call %r' % (desc, i, ra[i], m_ra[i]))
            return f
    if dec.size and not bool(np.all(np.abs(dec - m_dec) <= 4e-15 * (1.0 + np.abs(zen)))):
        i = int(np.argmax(np.abs(dec - m_dec)))
        f.all('call-model-disagrees', '%s: declination %d is %r, model of the call %r (zenith %r)' % (desc, i, dec[i], m_dec[i], zen[i]))
    return f


# ------------------------------------------------------------------------------------------ psi_to_dec_and_ra as one call

R7_BRANCHES['psi2call'] = ['ok', 'ERR:shape']


def gen_psi2call(H, rng):
    """one source, n opening angles in a generated form (array / list / Python scalar for n = 1), n circle parameters"""
    n = rng.choice([0, 1, 1, 2, 3, 5])
    elems = [H.gen_psi2(rng)[1] for _ in range(n)]
    sd, sr = H.gen_dec(rng), H.gen_ra(rng)
    psi = [e[2] for e in elems]
    u = [rng.random() if rng.random() < 0.7 else rng.choice([0.0, 0.25, 0.5, 0.75]) for _ in range(n)]
    form = rng.choice(['nd', 'nd', 'list', 'view', 'ro'] + (['scalar', '0d'] if n == 1 else []))
    return 'n=%d,form=%s' % (n, form), {'src_dec': sd, 'src_ra': sr, 'psi': psi, 'u': u, 'form': form}


def psi2call_requests(H, case):
    ts = [0.0 + (H.TWO_PI - 0.0) * x for x in case['u']]
    # the model of the call with as many draws as opening angles, and (error branch) with one draw too many
    return ['psi2call %s %s %s %s' % (H.f2b(case['src_dec']), H.f2b(case['src_ra']), H.flist_(case['psi']), H.flist_(ts)),
            'psi2call %s %s %s %s' % (H.f2b(case['src_dec']), H.f2b(case['src_ra']), H.flist_(case['psi']), H.flist_(ts + [1.0]))]


def chk_psi2call(H, case, model_lines=None, counts=None):
    from skyllh.analyses.i3.publicdata_ps.utils import psi_to_dec_and_ra
    f = H.Fails(1)
    n = len(case['psi'])
    rss = H._StubRSS(case['u'])
    arg = H._as_form(case['psi'], case['form'])
    keep = np.array(case['psi'], dtype=np.float64)
    desc = 'psi_to_dec_and_ra(%d opening angles as %s)' % (n, case['form'])
    try:
        with np.errstate(all='ignore'):
            out = psi_to_dec_and_ra(rss, case['src_dec'], case['src_ra'], arg)
        exc = None
    except H.MachineryStub:
        raise
    except Exception as e:  # noqa
        out, exc = None, e
    if isinstance(arg, np.ndarray) and arg.ndim and not np.array_equal(np.asarray(arg, dtype=np.float64), keep):
        f.all('modifies-input', '%s modifies its psi argument in place' % desc)
        return f
    if exc is not None:
        f.all('raises', '%s raised %s: %s' % (desc, type(exc).__name__, exc))
        return f
    if not (isinstance(out, tuple) and len(out) == 2):
        f.all('wrong-shape', '%s does not return a (dec, ra) pair' % desc)
        return f
    dec, ra = (np.atleast_1d(np.asarray(x, dtype=np.float64)) for x in out)
    if dec.shape != (n,) or ra.shape != (n,):
        f.all('wrong-shape', '%s returns arrays of shapes %r and %r' % (desc, dec.shape, ra.shape))
        return f
    if bool(np.any(H._dec_bad(dec))) or bool(np.any(H._ra_bad(ra))) or bool(np.any(np.isnan(dec) | np.isnan(ra))):
        f.all('out-of-range', '%s returns dec %r, ra %r (first is the declination in [-pi/2, pi/2], second the right ascension in [0, 2pi))'
              % (desc, dec.tolist()[:4], ra.tolist()[:4]))
        return f
    if n:
        sep = np.asarray(H.ref_sep(ra, dec, np.full(n, case['src_ra']), np.full(n, case['src_dec'])), dtype=np.float64)
        psi = np.array(case['psi'], dtype=np.float64)
        if not bool(np.all(np.abs(sep - psi) <= 1e-7 + 1e-9 * psi)):
            i = int(np.argmax(np.abs(sep - psi)))
            f.all('element-not-at-its-psi', '%s: element %d lies at separation %r from the source, its opening angle is %r'
                  % (desc, i, sep[i], psi[i]))
            return f
    if model_lines is None:
        return f
    ok_line, err_line = model_lines
    if counts is not None:
        d = counts.setdefault('psi2call', {})
        for ln in (ok_line, err_line):
            k = ln if ln.startswith('ERR') else 'ok'
            d[k] = d.get(k, 0) + 1
    if ok_line.startswith('ERR') or not err_line.startswith('ERR:shape'):
        f.all('call-model-disagrees', '%s returns a result, the model of the call says %s (and %s with one draw too many)'
              % (desc, ok_line, err_line))
        return f
    dr = rss.random.draws
    if not (len(dr) == 1 and dr[0][0] == 0.0 and abs(dr[0][1] - H.TWO_PI) < 1e-9):
        if counts is not None:
            counts['psi2call']['not-compared(other circle parametrisation)'] = counts['psi2call'].get('not-compared(other circle parametrisation)', 0) + 1
        return f
    toks = ok_line.split()
    m_dec = np.array([] if toks[0] == '-' else [H.b2f(t) for t in toks[0].split(',')], dtype=np.float64)
    m_ra = np.array([] if len(toks) < 2 or toks[1] == '-' else [H.b2f(t) for t in toks[1].split(',')], dtype=np.float64)
    if len(toks) == 5 and (int(toks[4]) != len(dr[0][2]) or H.b2f(toks[2]) != dr[0][0] or abs(H.b2f(toks[3]) - dr[0][1]) > 1e-15):
        f.all('call-model-disagrees', '%s asks the random state for %d values on (%r, %r), the model of the call for %s on (%r, %r)'
              % (desc, len(dr[0][2]), dr[0][0], dr[0][1], toks[4], H.b2f(toks[2]), H.b2f(toks[3])))
    elif m_dec.shape != dec.shape or m_ra.shape != ra.shape:
        f.all('call-model-disagrees', '%s returns %d directions, the model of the call %d' % (desc, n, m_dec.size))
    elif n:
        dd = H.dir_diff(ra, dec, m_ra, m_dec)
        if not bool(np.all(dd <= 1e-7)):
            i = int(np.argmax(dd))
            f.all('call-model-disagrees', '%s: element %d is (dec %r, ra %r), model of the call (dec %r, ra %r)'
                  % (desc, i, dec[i], ra[i], m_dec[i], m_ra[i]))
    return f
