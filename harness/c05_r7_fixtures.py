"""C05 round 7 — the readers of the stored (source index, event index) table on the TrialDataManager:
`broadcast_sources_array_to_values_array`, `broadcast_sources_arrays_to_values_arrays`,
`broadcast_selected_events_arrays_to_values_arrays`, `get_values_mask_for_source_mask`, `get_n_values`.

A case is a history on ONE manager: optional reads on the fresh manager (no table stored), then 1..2 trials
(`initialize_trial` with the selection methods of the main generator, or with a user-defined
EventSelectionMethod subclass that hands back a given table: not grouped / source index or event index out of
range), each followed by reads.  Every read is compared

  * with the executable Lean model (`Model/EvSelR7.lean`, driver ops bsrc / bsrcs / bsel / vmask) on the table
    the implementation exposes through the public `src_evt_idxs` property: exact equality of the passed-through
    entries (entries the model marks as never written are not compared), error on both sides or on none;
  * by the oracle `readers` (implementation only) for tables made by the shipped methods: value `v` carries the
    entry of its own source `src_idxs[v]` / its own event `evt_idxs[v]` / its own source's mask bit.
"""
import numpy as np

from harness.core import MachineryError

ARR_DTYPES = ('float64', 'int64', 'float32')
ARR_LAYOUTS = ('plain', 'strided', 'readonly')
SEQ_FORMS = ('list', 'tuple')
MASK_FORMS = ('ndarray', 'list', 'strided')

R7_BRANCHES = [
    'incMask:accepted', 'incMask:rejected(index-outside-shape)', 'incMask:empty-table', 'incMask:duplicates',
    'bcastSources:no-table', 'bcastSources:scalar', 'bcastSources:bad-length', 'bcastSources:all-written',
    'bcastSources:unwritten-tail', 'bcastLoop:empty-run', 'bcastLoop:non-empty-run',
    'bcastSourcesMany:empty-sequence', 'bcastSourcesMany:all-ok', 'bcastSourcesMany:aborted',
    'bcastSelected:no-table', 'bcastSelected:empty-sequence', 'bcastSelected:all-ok', 'bcastSelected:bad-index',
    'valuesMask:no-table', 'valuesMask:bad-length', 'valuesMask:none-masked', 'valuesMask:some-masked',
    'valuesMask:all-masked',
]


def _c05():
    from harness.props import c05
    return c05


def _mk_arr(vals, dtype, layout):
    a = np.array(vals, dtype=dtype)
    if layout == 'strided':
        big = np.zeros(3 * len(vals) + 1, dtype=dtype)
        big[::3][:len(vals)] = a
        a = big[::3][:len(vals)]
    elif layout == 'readonly':
        a = a.copy()
        a.setflags(write=False)
    return a


def _mk_mask(bits, form):
    if form == 'list' and bits:           # an empty Python list is not a boolean mask for numpy
        return [bool(b) for b in bits]
    a = np.array([bool(b) for b in bits], dtype=np.bool_)
    if form == 'strided':
        big = np.zeros(2 * len(bits) + 1, dtype=np.bool_)
        big[::2][:len(bits)] = a
        a = big[::2][:len(bits)]
    return a


_TABLE_CLS = None


def _table_method(shg, src, evt):
    """a user-defined event selection method (public base class) that keeps all events and hands back the given table"""
    global _TABLE_CLS
    from skyllh.core.event_selection import EventSelectionMethod
    if _TABLE_CLS is None:
        class _TableMethod(EventSelectionMethod):
            def __init__(self, shg_mgr, src, evt):
                super().__init__(shg_mgr)
                self._verif_tab = (np.array(src, dtype=np.int64), np.array(evt, dtype=np.int64))

            def select_events(self, events, src_evt_idxs=None, ret_original_evt_idxs=False, tl=None):
                tab = (self._verif_tab[0].copy(), self._verif_tab[1].copy())
                if ret_original_evt_idxs:
                    return (events, tab, np.arange(len(events)))
                return (events, tab)
        _TABLE_CLS = _TableMethod
    return _TABLE_CLS(shg, src, evt)


def _toint(x):
    """entries are small integers; anything else (never-written np.empty memory) becomes a marker that equals nothing"""
    try:
        return int(x)
    except (OverflowError, ValueError):
        return 'garbage'


def _do_read(tdm, q):
    """one read; {'out': ...} with plain ints or {'exc': ...}"""
    kind, data, form = q['op'], q['data'], q.get('form', {})
    dt, lay = form.get('dtype', 'float64'), form.get('layout', 'plain')
    try:
        if kind == 'bsrc':
            r = tdm.broadcast_sources_array_to_values_array(_mk_arr(data, dt, lay))
            return {'out': [_toint(x) for x in r], 'len': int(len(r))}
        if kind in ('bsrcs', 'bsel'):
            seq = [_mk_arr(a, dt, lay) for a in data]
            if form.get('seq', 'list') == 'tuple':
                seq = tuple(seq)
            f = tdm.broadcast_sources_arrays_to_values_arrays if kind == 'bsrcs' else tdm.broadcast_selected_events_arrays_to_values_arrays
            r = f(seq)
            return {'out': [[_toint(x) for x in a] for a in r]}
        if kind == 'vmask':
            r = tdm.get_values_mask_for_source_mask(_mk_mask(data, form.get('mask', 'ndarray')))
            return {'out': [int(bool(x)) for x in r]}
    except Exception as e:  # noqa
        return {'exc': '%s: %s' % (type(e).__name__, e)}
    raise MachineryError('C05 readers: unknown read %r' % (kind,))


def _state(tdm):
    """what the public interface shows of the table (None = nothing stored)"""
    try:
        sei = tdm.src_evt_idxs
    except Exception:  # noqa
        sei = None
    if sei is None:
        return {'tab': None, 'K': int(tdm.n_sources) if tdm.n_sources is not None else 0, 'nsel': 0}
    return {'tab': [[int(x) for x in sei[0]], [int(x) for x in sei[1]]], 'K': int(tdm.n_sources),
            'nsel': int(tdm.n_selected_events), 'n_values': int(tdm.get_n_values())}


def run_impl(case, rng=None):
    """With `rng`: steps that have no 'reads' yet get them generated (they depend on the number of events held after the trial)
    and stored in the case, so that generation and the first execution are one pass.  Returns a list of blocks: {'state': ..., 'reads': [...]} or {'exc': ...} for a failed trial (the history stops there)"""
    c05 = _c05()
    from skyllh.core.trialdata import TrialDataManager
    tdm = TrialDataManager()
    blocks = []
    if case.get('pre'):
        blocks.append({'state': _state(tdm), 'reads': [_do_read(tdm, q) for q in case['pre']]})
    for st in case['steps']:
        t = st['trial']
        try:
            shg = c05._shg(t['srcs'])
            events = c05._events(t['evs'], t.get('glue'))
            if st.get('custom') is not None:
                sel = _table_method(shg, st['custom'][0], st['custom'][1])
            else:
                sel = c05._chain(shg, t['methods'], t.get('nest', 'left'), glue=t.get('glue'))
        except Exception as e:  # noqa
            raise MachineryError('C05 readers fixture construction failed: %s: %s' % (type(e).__name__, e))
        try:
            tdm.index_field_name = 'key' if (t.get('index_field') and st.get('custom') is None) else None
            kw = c05._tdm_kwargs(t)
            if sel is not None:
                kw['evt_sel_method'] = sel          # no selection: the argument is left at its default
            tdm.initialize_trial(shg, None, events, **kw)
        except Exception as e:  # noqa
            blocks.append({'exc': '%s: %s' % (type(e).__name__, e)})
            break
        state = _state(tdm)
        if 'reads' not in st and rng is not None:
            st['reads'] = gen_reads(rng, state['K'], state['nsel'], directed=('bsrc', 'bsrcs', 'bsel', 'vmask') if rng.random() < 0.3 else ())
            if st['reads'][0]['op'] == 'bsrc' and rng.random() < 0.5:
                st['reads'][0]['data'] = _vals(rng, state['K'])
        blocks.append({'state': state, 'reads': [_do_read(tdm, q) for q in st['reads']]})
    if rng is not None:
        for st in case['steps']:
            st.setdefault('reads', [])
    return blocks


def _blocks_queries(case):
    qs = []
    if case.get('pre'):
        qs.append((None, case['pre']))
    for st in case['steps']:
        qs.append((st, st['reads']))
    return qs


def _tab_token(tab):
    if tab is None:
        return 'N'
    f = lambda xs: ','.join(str(x) for x in xs) or '-'  # noqa: E731
    return '%s/%s' % (f(tab[0]), f(tab[1]))


def _arr_token(a):
    return ','.join(str(int(x)) for x in a) or '-'


def _arrs_token(arrs):
    return ';'.join(_arr_token(a) for a in arrs) if arrs else 'E'


def requests(case, blocks):
    reqs = []
    for (st, qs), blk in zip(_blocks_queries(case), blocks):
        if 'exc' in blk:
            break
        s = blk['state']
        tab = _tab_token(s['tab'])
        for q in qs:
            if q['op'] == 'bsrc':
                reqs.append('bsrc %d %s %s' % (s['K'], tab, _arr_token(q['data'])))
            elif q['op'] == 'bsrcs':
                reqs.append('bsrcs %d %s %s' % (s['K'], tab, _arrs_token(q['data'])))
            elif q['op'] == 'bsel':
                reqs.append('bsel %s %s' % (tab, _arrs_token(q['data'])))
            else:
                reqs.append('vmask %d %s %s' % (s['K'], tab, _arr_token(q['data'])))
    return reqs


def _parse_arr(tok):
    return [] if tok == '-' else [None if x == 'u' else int(x) for x in tok.split(',')]


def _cmp_arr(model, impl):
    """model entries None = never written (np.empty): not compared"""
    if len(model) != len(impl):
        return 'length %d vs %d' % (len(model), len(impl))
    for v, (m, i) in enumerate(zip(model, impl)):
        if m is not None and m != i:
            return 'entry %d: model %r, implementation %r' % (v, m, i)
    return None


def corr(case, blocks, answers, count=None):
    """None or text; `answers` = model lines for requests(case, blocks).  Tables handed back by the user-defined method that
    are not grouped by ascending source or hold an index outside the shape are outside the contract of the readers: there a
    disagreement is a diagnostic counter only (the model mirrors the run-length loop as coded; an equivalent rewrite may
    treat such tables differently)."""
    it = iter(answers)
    for (st, qs), blk in zip(_blocks_queries(case), blocks):
        if 'exc' in blk:
            break
        strict = st is None or st.get('custom') is None or bool(st.get('custom_valid'))
        for q, r in zip(qs, blk['reads']):
            a = next(it)
            where = '%s(%r) on table %s with %d sources' % (q['op'], q['data'], _tab_token(blk['state']['tab']), blk['state']['K'])
            if count is not None:
                _count_branches(count, q, blk['state'], a)
            if a.startswith('bad-'):
                raise MachineryError('C05 readers: driver answered %r' % a)
            d = _corr_one(q, r, a, where, count)
            if d:
                if strict:
                    return d
                if count is not None:
                    count('readers:differs-on-out-of-contract-table(diagnostic)')
    return None


def _corr_one(q, r, a, where, count):
    if a.startswith('ERR'):
        if q['op'] == 'vmask' and a == 'ERR:badLength':
            # a mask of the wrong length is outside the documented contract; the IndexError is numpy's, not
            # the method's: diagnostic only
            if count is not None and 'exc' not in r:
                count('readers:wrong-length-mask-accepted(diagnostic)')
            return None
        if 'exc' not in r:
            return '%s: model raises (%s), implementation returns %r' % (where, a, r['out'])
        return None
    if 'exc' in r:
        return '%s: implementation raises %s, model returns %s' % (where, r['exc'], a)
    if q['op'] in ('bsrc', 'vmask'):
        d = _cmp_arr(_parse_arr(a), r['out'])
    else:
        ms = [] if a == 'E' else [_parse_arr(t) for t in a.split(';')]
        d = 'number of arrays %d vs %d' % (len(ms), len(r['out'])) if len(ms) != len(r['out']) else None
        if d is None:
            for m, i in zip(ms, r['out']):
                d = d or _cmp_arr(m, i)
    if d:
        return '%s: %s (model %s, implementation %r)' % (where, d, a, r['out'])
    return None


def _count_branches(count, q, s, ans):
    b = lambda name: count('branch:' + name)  # noqa: E731
    tab, K = s['tab'], s['K']
    if q['op'] == 'bsrc':
        if tab is None:
            b('bcastSources:no-table')
        elif len(q['data']) == 1:
            b('bcastSources:scalar')
        elif len(q['data']) != K:
            b('bcastSources:bad-length')
        else:
            b('bcastSources:unwritten-tail' if 'u' in ans.split(',') else 'bcastSources:all-written')
            for k in range(K):
                b('bcastLoop:non-empty-run' if k in tab[0] else 'bcastLoop:empty-run')
    elif q['op'] == 'bsrcs':
        if not q['data']:
            b('bcastSourcesMany:empty-sequence')
        else:
            b('bcastSourcesMany:aborted' if ans.startswith('ERR') else 'bcastSourcesMany:all-ok')
    elif q['op'] == 'bsel':
        if tab is None:
            b('bcastSelected:no-table')
        elif not q['data']:
            b('bcastSelected:empty-sequence')
        else:
            b('bcastSelected:bad-index' if ans.startswith('ERR') else 'bcastSelected:all-ok')
    else:
        if tab is None:
            b('valuesMask:no-table')
        elif len(q['data']) != K:
            b('valuesMask:bad-length')
        else:
            n = sum(q['data'])
            b('valuesMask:' + ('none-masked' if n == 0 else 'all-masked' if n == K else 'some-masked'))


def check(case, blocks=None):
    """oracle on the implementation alone: None or (failure mode, text)"""
    blocks = run_impl(case) if blocks is None else blocks
    for (st, qs), blk in zip(_blocks_queries(case), blocks):
        if 'exc' in blk:
            if st is not None and st.get('custom') is None:
                return ('trial-raises', 'initialize_trial raises %s' % blk['exc'])
            break
        s = blk['state']
        tab, K, nsel = s['tab'], s['K'], s['nsel']
        shipped = st is not None and st.get('custom') is None
        if tab is not None and s.get('n_values') != len(tab[0]):
            return ('wrong-n-values', 'get_n_values() = %r, the table has %d entries' % (s.get('n_values'), len(tab[0])))
        if not shipped and not (st is not None and st.get('custom_valid')):
            # fresh manager: every read must raise; user-made invalid tables: no property-level verdict
            if st is None:
                for q, r in zip(qs, blk['reads']):
                    if q['op'] == 'bsrcs' and not q['data']:
                        continue        # an empty sequence is never looked at
                    if 'exc' not in r:
                        return ('reads-without-table', '%s on a manager without a trial returns %r' % (q['op'], r['out']))
            continue
        for q, r in zip(qs, blk['reads']):
            where = 'TrialDataManager.%s' % {'bsrc': 'broadcast_sources_array_to_values_array', 'bsrcs': 'broadcast_sources_arrays_to_values_arrays',
                                             'bsel': 'broadcast_selected_events_arrays_to_values_arrays',
                                             'vmask': 'get_values_mask_for_source_mask'}[q['op']]
            arrs = q['data'] if q['op'] in ('bsrcs', 'bsel') else [q['data']]
            if q['op'] in ('bsrc', 'bsrcs'):
                ok_len = all(len(a) in (1, K) for a in arrs)
                want = [[(a[0] if len(a) == 1 else a[k]) for k in tab[0]] for a in arrs] if ok_len else None
            elif q['op'] == 'bsel':
                ok_len = all(len(a) == nsel for a in arrs) or not tab[1]
                want = [[a[j] for j in tab[1]] for a in arrs] if ok_len else None
                if not ok_len and all(len(a) > max(tab[1]) for a in arrs):
                    continue            # an array of another length that np.take happens to accept: no verdict
            else:
                ok_len = len(q['data']) == K
                want = [[int(q['data'][k]) for k in tab[0]]] if ok_len else None
            if not ok_len:
                if q['op'] == 'vmask':
                    continue            # outside the documented contract, no verdict
                if 'exc' not in r:
                    return ('accepts-wrong-length', '%s(%r) with %d sources / %d events held returns %r' % (where, q['data'], K, nsel, r['out']))
                continue
            if 'exc' in r:
                return ('raises-' + r['exc'].split(':')[0], '%s(%r) on table %s (%d sources, %d events held) raises %s'
                        % (where, q['data'], _tab_token(tab), K, nsel, r['exc']))
            got = r['out'] if q['op'] in ('bsrcs', 'bsel') else [r['out']]
            if got != want:
                what = ('own-source' if q['op'] != 'bsel' else 'own-event')
                return ('wrong-values(%s)' % q['op'], '%s(%r) on table %s (%d sources, %d events held) = %r, but every value must carry the '
                        'entry of its %s: %r' % (where, q['data'], _tab_token(tab), K, nsel, got, what, want))
    return None


# ------------------------------------------------------------------------------------------------
# generators

def _vals(rng, n):
    return [rng.randrange(-50, 1000) for _ in range(n)]


def _form(rng):
    if rng.random() < 0.5:
        return {}
    return {'dtype': rng.choice(ARR_DTYPES), 'layout': rng.choice(ARR_LAYOUTS), 'seq': rng.choice(SEQ_FORMS),
            'mask': rng.choice(MASK_FORMS)}


def gen_reads(rng, K, nsel, directed=()):
    """reads for a manager with K sources and nsel events held (K = 0: fresh manager)"""
    reads = []
    kinds = list(directed) + [rng.choice(['bsrc', 'bsrc', 'bsrcs', 'bsel', 'vmask', 'vmask']) for _ in range(rng.choice([2, 3, 4]))]
    for kind in kinds:
        f = _form(rng)
        if kind == 'bsrc':
            n = rng.choice([K, K, K, 1, K + 1, 0, max(K - 1, 2)])
            reads.append({'op': 'bsrc', 'data': _vals(rng, n), 'form': f})
        elif kind == 'bsrcs':
            m = rng.choice([0, 1, 2, 3])
            data = [_vals(rng, rng.choice([K, K, K, 1])) for _ in range(m)]
            if m and rng.random() < 0.2:
                data[rng.randrange(m)] = _vals(rng, K + 2)
            reads.append({'op': 'bsrcs', 'data': data, 'form': f})
        elif kind == 'bsel':
            m = rng.choice([0, 1, 1, 2, 3])
            data = [_vals(rng, nsel) for _ in range(m)]
            if m and nsel and rng.random() < 0.15:
                data[rng.randrange(m)] = _vals(rng, rng.randrange(nsel))       # too short: IndexError unless unused
            reads.append({'op': 'bsel', 'data': data, 'form': f})
        else:
            n = K if rng.random() < 0.85 else rng.choice([K + 1, max(K - 1, 0)])
            cls = rng.choice(['none', 'all', 'some', 'some', 'some'])
            bits = [0] * n if cls == 'none' else [1] * n if cls == 'all' else [rng.randrange(2) for _ in range(n)]
            reads.append({'op': 'vmask', 'data': bits, 'form': f})
    return reads


def gen_custom_table(rng, K, N):
    """(src, evt, valid) for the user-defined method: a shuffled / out-of-range / valid grouped table"""
    pairs = [(k, j) for k in range(K) for j in range(N) if rng.random() < 0.5]
    cls = rng.choice(['valid', 'shuffled', 'src-out-of-range', 'evt-out-of-range'])
    if cls == 'shuffled':
        rng.shuffle(pairs)
    elif cls == 'src-out-of-range':
        pairs = pairs + [(K + rng.randrange(2), rng.randrange(max(N, 1)))]
    elif cls == 'evt-out-of-range':
        pairs.insert(rng.randrange(len(pairs) + 1), (rng.randrange(K), N + rng.randrange(3)))
    grouped = all(a[0] <= b[0] for a, b in zip(pairs, pairs[1:]))
    valid = cls in ('valid', 'shuffled') and grouped
    return [p[0] for p in pairs], [p[1] for p in pairs], valid, cls


def gen(rng, directed=None):
    c05 = _c05()
    steps = []
    for i in range(rng.choice([1, 1, 2])):
        t = None
        for _ in range(20):
            t = c05.gen_case(rng, mode='T', K=rng.choice([1, 1, 2, 2, 3, 3, 5, 8, 13]), N=rng.choice([0, 1, 2, 3, 5, 8, 12, 20]))
            if not c05.near_tie_events(t):
                break
        K, N = len(t['srcs']), len(t['evs']['ra'])
        st = {'trial': t, 'custom': None}
        want_custom = directed == 'custom' if directed else rng.random() < 0.25
        if want_custom:
            src, evt, valid, cls = gen_custom_table(rng, K, N)
            st['custom'] = [src, evt]
            st['custom_valid'] = valid
            st['custom_class'] = cls
        steps.append(st)
    case = {'mode': 'R', 'steps': steps}
    if rng.random() < 0.2 or directed == 'fresh':
        case['pre'] = gen_reads(rng, 0, 0, directed=('bsrc', 'bsel', 'vmask'))
    return case


def fixed(rng):
    c05 = _c05()
    out = []
    t = c05.gen_case(rng, mode='T', K=2, N=3, methods=[['all']])
    t['methods'] = []
    # hand-made: the three table classes the model distinguishes, read by every reader
    for custom, valid in (([[0, 0, 1], [1, 0, 2]], True), ([[1, 0], [0, 0]], False), ([[0, 2], [0, 0]], False), ([[0, 1], [0, 7]], False)):
        reads = [{'op': 'bsrc', 'data': [10, 20]}, {'op': 'bsrc', 'data': [5]}, {'op': 'bsrc', 'data': [1, 2, 3]},
                 {'op': 'bsrcs', 'data': [[10, 20], [7]]}, {'op': 'bsrcs', 'data': []}, {'op': 'bsrcs', 'data': [[1, 2], [1, 2, 3]]},
                 {'op': 'bsel', 'data': [[7, 8, 9]]}, {'op': 'bsel', 'data': []}, {'op': 'bsel', 'data': [[7, 8, 9], [1]]},
                 {'op': 'vmask', 'data': [0, 1]}, {'op': 'vmask', 'data': [0, 0]}, {'op': 'vmask', 'data': [1, 1]},
                 {'op': 'vmask', 'data': [1, 1, 0]}]
        out.append({'mode': 'R', 'pre': [{'op': 'bsrc', 'data': [1, 2]}, {'op': 'bsel', 'data': [[1]]}, {'op': 'bsel', 'data': []},
                                         {'op': 'vmask', 'data': [1, 0]}, {'op': 'bsrcs', 'data': []}],
                    'steps': [{'trial': t, 'custom': custom, 'custom_valid': valid, 'reads': reads}]})
    # no selection (default table) and a shipped method, 2 sources / 3 events
    t2 = c05.gen_case(rng, mode='T', K=2, N=3, methods=[['all']])
    for tt in (t, t2):
        out.append({'mode': 'R', 'steps': [{'trial': tt, 'custom': None,
                                            'reads': [{'op': 'bsrc', 'data': [10, 20]}, {'op': 'bsel', 'data': [[7, 8, 9]]},
                                                      {'op': 'vmask', 'data': [0, 1]}, {'op': 'bsrcs', 'data': [[1, 2], [3]]}]}]})
    return out


# ------------------------------------------------------------------------------------------------
# EventSelectionMethod.create_src_evt_mask called directly (static method)

MASK_TAB_FORMS = ('tuple-int64', 'tuple-lists', 'list-int32', 'array2d')


def gen_mask_case(rng):
    K = rng.choice([1, 1, 2, 3, 5])
    n = rng.choice([0, 1, 2, 4, 6])
    full = [(k, i) for k in range(K) for i in range(n)]
    pairs = [p for p in full if rng.random() < rng.choice([0.0, 0.3, 0.8])]
    cls = rng.choice(['sorted', 'shuffled', 'duplicates', 'out-of-range'])
    if cls != 'sorted':
        rng.shuffle(pairs)
    if cls == 'duplicates' and pairs:
        pairs += [rng.choice(pairs) for _ in range(rng.randrange(1, 4))]
    if cls == 'out-of-range':
        pairs.insert(rng.randrange(len(pairs) + 1), rng.choice([(K, 0), (0, n), (K + 1, n + 2), (K - 1, n)]))
    return {'mode': 'M', 'K': K, 'n': n, 'tab': [[p[0] for p in pairs], [p[1] for p in pairs]], 'form': rng.choice(MASK_TAB_FORMS)}


def run_mask(case):
    from skyllh.core.event_selection import EventSelectionMethod
    src, evt = case['tab']
    f = case.get('form', 'tuple-int64')
    if f == 'tuple-lists':
        sei = (list(src), list(evt))
    elif f == 'list-int32':
        sei = [np.array(src, dtype=np.int32), np.array(evt, dtype=np.int32)]
    elif f == 'array2d':
        sei = np.array([src, evt], dtype=np.int64).reshape(2, len(src))
    else:
        sei = (np.array(src, dtype=np.int64), np.array(evt, dtype=np.int64))
    try:
        m = EventSelectionMethod.create_src_evt_mask(sei, case['K'], case['n'])
        return {'shape': [int(x) for x in np.shape(m)], 'rows': [[int(bool(x)) for x in row] for row in m]}
    except Exception as e:  # noqa
        return {'exc': '%s: %s' % (type(e).__name__, e)}


def mask_request(case):
    return 'incmask %d %d %s' % (case['K'], case['n'], _tab_token(case['tab']))


def check_mask(case, out=None):
    out = run_mask(case) if out is None else out
    K, n = case['K'], case['n']
    pairs = set(zip(*case['tab']))
    inside = all(k < K and i < n for k, i in pairs)
    where = 'EventSelectionMethod.create_src_evt_mask(%s, %d, %d)' % (_tab_token(case['tab']), K, n)
    if not inside:
        return None if 'exc' in out else ('accepts-index-outside-shape', '%s returns %r' % (where, out['rows']))
    if 'exc' in out:
        return ('raises-' + out['exc'].split(':')[0], '%s raises %s' % (where, out['exc']))
    want = [[int((k, i) in pairs) for i in range(n)] for k in range(K)]
    if out['shape'] != [K, n] or out['rows'] != want:
        return ('wrong-mask', '%s = %r (shape %r), but the mask must be set exactly at the listed pairs: %r' % (where, out['rows'], out['shape'], want))
    return None


def corr_mask(case, out, ans, count=None):
    if ans.startswith('bad-'):
        raise MachineryError('C05 create_src_evt_mask: driver answered %r' % ans)
    if count is not None:
        count('branch:incMask:' + ('rejected(index-outside-shape)' if ans == 'ERR' else 'accepted'))
        if not case['tab'][0]:
            count('branch:incMask:empty-table')
        if len(set(zip(*case['tab']))) < len(case['tab'][0]):
            count('branch:incMask:duplicates')
    if ans == 'ERR':
        return None if 'exc' in out else 'model rejects the table, implementation returns %r' % (out['rows'],)
    if 'exc' in out:
        return 'implementation raises %s, model returns %s' % (out['exc'], ans)
    rows = [] if ans == '-' else [[int(ch) for ch in r[1:]] for r in ans.split(',')]
    return None if rows == out['rows'] else 'model %r, implementation %r' % (rows, out['rows'])
