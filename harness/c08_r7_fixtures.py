"""C08 round 7: a real LLHRatioAnalysis with SEVERAL datasets and scripted stub generators, for the pseudo-data
merge of Analysis.generate_pseudo_data / generate_signal_events (background per dataset, signal injected per
dataset through the dict the signal generator returns)."""
import numpy as np

_CACHE = {}


def pseudo_ana(nds):
    """analysis with `nds` datasets; its generators follow a script handed over through bkg_kwargs / sig_kwargs:
       background: dataset d gets 1 + int(u * maxev) events (u drawn first), then that many uniforms
       signal: `keys` = dataset indices in the order the dict is filled; dataset key gets `per` uniforms each (mean = total)"""
    if nds in _CACHE:
        return _CACHE[nds]
    from harness import llh_fixtures as L
    from skyllh.core.analysis import LLHRatioAnalysis
    from skyllh.core.background_generator import BackgroundGenerator
    from skyllh.core.dataset import Dataset, DatasetData
    from skyllh.core.signal_generator import SignalGenerator
    from skyllh.core.storage import DataFieldRecordArray
    from skyllh.core.test_statistic import WilksTestStatistic
    E = 16
    cfg = L.make_cfg()
    sources = L.make_sources(1)
    shg_mgr = L.make_shg_mgr(cfg, sources)
    pmm = L.make_pmm(sources, params=[], ns_init=1.0, ns_max=4.0, ns_min=0.0)
    tdm = L.make_tdm(shg_mgr, pmm, L.make_events(E), n_events=E)
    pdfratio = L.StubPDFRatio(cfg, np.linspace(0.5, 2.0, E).reshape(1, E))

    def events(x):
        return DataFieldRecordArray({'x': np.asarray(x, dtype=np.float64)}, copy=True)

    class Bkg(BackgroundGenerator):
        def __init__(self, cfg, **kw):
            super().__init__(cfg=cfg)

        def generate_background_events(self, rss, mean_n_bkg_list=None, tl=None, maxev=3, **kw):
            ns, evs = [], []
            for d in range(nds):
                n = 1 + int(rss.random.random() * maxev)
                ns.append(n)
                evs.append(events(rss.random.random(n)))
            return (ns, evs)

    class Sig(SignalGenerator):
        def __init__(self, cfg, shg_mgr, **kw):
            super().__init__(shg_mgr=shg_mgr, cfg=cfg)

        def change_shg_mgr(self, m):
            pass

        def generate_signal_events(self, rss, mean, keys=(0,), **kw):
            out, tot = {}, 0
            for j, k in enumerate(keys):
                n = (int(mean) + j) % 3 + (1 if j == 0 else 0)
                out[k] = events(rss.random.random(n))
                tot += n
            return (tot, out)

    class Syn(LLHRatioAnalysis):
        def construct_llhratio(self, *a, **k):
            raise NotImplementedError

    ana = Syn(shg_mgr=shg_mgr, pmm=pmm, test_statistic=WilksTestStatistic(), bkg_generator_cls=Bkg,
              sig_generator_cls=Sig, cfg=cfg)
    for d in range(nds):
        ds = Dataset(cfg=cfg, name='ds%d' % d, exp_pathfilenames=None, mc_pathfilenames=None, livetime=None,
                     default_sub_path_fmt='', version=1)
        ana.add_dataset(ds, DatasetData(data_exp=L.make_events(E), data_mc=None, livetime=1.0), pdfratio=pdfratio, tdm=tdm)
    _CACHE[nds] = ana
    return ana
