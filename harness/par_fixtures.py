"""C09 fixtures: run `skyllh.core.multiproc.parallelize` (or `Analysis.do_trials`) with real processes under a
watchdog.

Every case runs in its own forked child of the harness (own session / process group), which sets the hook
plan (`ICECUBE_SKYLLH_VERIF_PLAN`), calls the real code and writes the outcome to a pipe.  The harness waits
for the outcome with a timeout; when the watchdog fires the whole process group is killed and the outcome is
`timeout` — the failing schedule of the property ("never hangs").  Several cases run concurrently.

A case is a JSON-able dict:
    api     'parallelize' | 'do_trials' | 'repeat'
    ncpu, n
    seed    int | None     seed of the RandomStateService passed as `rss` (None: no rss)
    seeds   (api 'repeat') one call per seed on the *same* args_list object, fresh rss each time
    interactive  bool      enable skyllh's interactive session (progress bar + status queue)
    plan    list of hook plan entries {where, pid, task, actions}
    msleep  {task index: seconds}   sleep inside the task function (how the master is made slow)
    boom    list of task indices whose task function raises ValueError
    logs    bool            every task emits one log record
    summary bool            large runs: order/values are checked in the caller, only a summary comes back
    watchdog float          watchdog time of this case (default: the global one)
The outcome is a dict {out: 'done'|'error'|'timeout', res, etype, msg, wall, nlog}.
"""
import json
import os
import pickle
import select
import signal
import struct
import time

WATCHDOG_S = float(os.environ.get('VERIF_C09_WATCHDOG', '10'))
CONCURRENCY = int(os.environ.get('VERIF_C09_JOBS', '10'))


def task_func(i, k=0, sleep=0.0, boom=False, log=False, rss=None, tl=None):
    """The mapped function: returns (task number, a pure function of the arguments, os pid, a draw)."""
    if sleep:
        time.sleep(sleep)
    if boom:
        raise ValueError('task %d fails' % i)
    if log:
        import logging
        logging.getLogger('skyllh.verif.c09').warning('task %d', i)
    draw = None if rss is None else int(rss.random.randint(0, 2**31 - 1))
    return (i, i * i + k, os.getpid(), draw)


def _stub_analysis():
    import numpy as np
    from skyllh.core.analysis import Analysis
    from skyllh.core.config import Config

    class StubAnalysis(Analysis):
        def __init__(self):  # no datasets, no likelihood: only what do_trials touches
            self._cfg = Config()

        def initialize_trial(self, *a, **kw):
            pass

        def unblind(self, *a, **kw):
            pass

        def do_trial_with_given_pseudo_data(self, *a, **kw):
            pass

        def do_trial(self, rss, k=0, tl=None, **kw):
            return np.array([(rss.seed, int(rss.random.randint(0, 2**31 - 1)), k, os.getpid())],
                            dtype=[('seed', np.int64), ('draw', np.int64), ('k', np.int64), ('ospid', np.int64)])
    return StubAnalysis()


def _child_main(case, wfd):
    """runs in the forked child; never returns"""
    try:
        os.setsid()
        os.environ['ICECUBE_SKYLLH_VERIF'] = '1'
        os.environ['ICECUBE_SKYLLH_VERIF_PLAN'] = json.dumps(case.get('plan') or [])
        devnull = os.open(os.devnull, os.O_WRONLY)
        os.dup2(devnull, 2)     # tracebacks of deliberately failing children
        import logging
        recs = []

        class H(logging.Handler):
            def emit(self, r):
                recs.append(r.getMessage())
        lg = logging.getLogger('skyllh')
        for h in list(lg.handlers):
            lg.removeHandler(h)
        lg.addHandler(H())
        lg.setLevel(logging.WARNING)
        from skyllh.core.random import RandomStateService
        if case.get('interactive'):
            from skyllh.core import session
            session.enable_interactive_session()
            os.dup2(devnull, 1)     # progress bar output
        rss = None if case.get('seed') is None else RandomStateService(int(case['seed']))
        try:
            if case.get('api', 'parallelize') == 'do_trials':
                ana = _stub_analysis()
                rec = ana.do_trials(rss, case['n'], ncpu=case['ncpu'], k=7)
                res = [tuple(int(x) for x in row) for row in rec.tolist()]
            elif case.get('api') == 'repeat':
                # the same args_list object handed to parallelize several times, each time with a fresh
                # RandomStateService of the listed seed; reference = a call on a newly built args_list
                from skyllh.core.multiproc import parallelize

                def build():
                    return [((i,), {'k': 3 * i}) for i in range(case['n'])]
                shared = build()
                res, ref = [], []
                for sd in case['seeds']:
                    tl = None
                    if case.get('tl'):
                        from skyllh.core.timing import TimeLord
                        tl = TimeLord()
                    r = parallelize(task_func, shared, case['ncpu'], rss=RandomStateService(int(sd)), tl=tl)
                    res.append([tuple(x) for x in r])
                    r = parallelize(task_func, build(), case['ncpu'], rss=RandomStateService(int(sd)))
                    ref.append([tuple(x) for x in r])
                out = {'out': 'done', 'res': res, 'ref': ref, 'nlog': len(recs)}
                data = pickle.dumps(out)
                os.write(wfd, struct.pack('<I', len(data)) + data)
                return
            else:
                from skyllh.core.multiproc import parallelize
                msleep = {int(k): v for k, v in (case.get('msleep') or {}).items()}
                boom = set(case.get('boom') or [])
                args_list = [((i,), {'k': 3 * i, 'sleep': msleep.get(i, 0.0), 'boom': i in boom,
                                      'log': bool(case.get('logs'))}) for i in range(case['n'])]
                res = parallelize(task_func, args_list, case['ncpu'], rss=rss)
                res = [tuple(r) if isinstance(r, (tuple, list)) else repr(r) for r in res]
            if case.get('summary'):
                # large runs: check order and values here, send back a summary only
                bad = [i for i, r in enumerate(res) if not (isinstance(r, tuple) and len(r) == 4 and r[0] == i and r[1] == i * i + 3 * i)][:3]
                out = {'out': 'done', 'res_len': len(res), 'res_bad': bad, 'nlog': len(recs)}
            else:
                out = {'out': 'done', 'res': res, 'nlog': len(recs), 'logmsgs': recs[:64]}
        except BaseException as e:  # noqa  (also SystemExit/KeyboardInterrupt: anything that leaves the call)
            out = {'out': 'error', 'etype': type(e).__name__, 'msg': str(e)[:200], 'nlog': len(recs)}
        data = pickle.dumps(out)
        os.write(wfd, struct.pack('<I', len(data)) + data)
    finally:
        os._exit(0)


def _kill_group(pid):
    try:
        os.killpg(pid, signal.SIGKILL)
    except (ProcessLookupError, PermissionError):
        pass
    try:
        os.waitpid(pid, 0)
    except ChildProcessError:
        pass


def preload():
    """import the real modules once in the harness process, so that the forked callers start fast"""
    import skyllh.core.multiproc  # noqa
    import skyllh.core.random  # noqa
    import skyllh.core.analysis  # noqa
    import skyllh.core.config  # noqa


def run_cases(cases, timeout=None, jobs=None, stop=None, on_result=None):
    """Run all cases (concurrently, `jobs` at a time); returns the list of outcomes in case order.
    `stop(case)` may return True to skip a case that has not started yet (outcome {'out': 'skipped'});
    `on_result(case, outcome)` is called as soon as an outcome is known."""
    preload()
    timeout = WATCHDOG_S if timeout is None else timeout
    jobs = CONCURRENCY if jobs is None else jobs
    outcomes = [None] * len(cases)
    active = {}   # rfd -> (index, pid, t0, buffer)
    nxt = 0
    while nxt < len(cases) or active:
        while nxt < len(cases) and len(active) < jobs:
            case = cases[nxt]
            if stop is not None and stop(case):
                outcomes[nxt] = {'out': 'skipped'}
                nxt += 1
                continue
            r, w = os.pipe()
            pid = os.fork()
            if pid == 0:
                os.close(r)
                for fd in list(active):
                    try:
                        os.close(fd)
                    except OSError:
                        pass
                _child_main(case, w)
            os.close(w)
            active[r] = [nxt, pid, time.time(), b'']
            nxt += 1
        if not active:
            continue
        ready, _, _ = select.select(list(active), [], [], 0.05)
        now = time.time()
        for fd in ready:
            chunk = os.read(fd, 1 << 16)
            active[fd][3] += chunk
        # the pipe's write end is inherited by the worker processes, so EOF is not a usable signal:
        # the outcome is complete when the length-prefixed message is, or when the calling process is gone
        for fd in list(active):
            idx, pid, t0, buf = active[fd]
            complete = len(buf) >= 4 and len(buf) >= 4 + struct.unpack('<I', buf[:4])[0]
            if not complete:
                try:
                    gone = os.waitpid(pid, os.WNOHANG)[0] != 0
                except ChildProcessError:
                    gone = True
                if not gone:
                    continue
                # the caller has exited: whatever it wrote is in the pipe now
                while True:
                    r, _, _ = select.select([fd], [], [], 0)
                    if not r:
                        break
                    chunk = os.read(fd, 1 << 16)
                    if not chunk:
                        break
                    buf += chunk
                complete = len(buf) >= 4 and len(buf) >= 4 + struct.unpack('<I', buf[:4])[0]
            del active[fd]
            os.close(fd)
            _kill_group(pid)
            if complete:
                out = pickle.loads(buf[4:4 + struct.unpack('<I', buf[:4])[0]])
            else:
                out = {'out': 'error', 'etype': 'CallerDied', 'msg': 'the calling process died without an outcome'}
            out['wall'] = round(now - t0, 3)
            outcomes[idx] = out
            if on_result is not None:
                on_result(cases[idx], out)
        for fd in [fd for fd, ent in active.items() if now - ent[2] > float(cases[ent[0]].get('watchdog') or timeout)]:
            idx, pid, t0, buf = active.pop(fd)
            _kill_group(pid)
            os.close(fd)
            outcomes[idx] = {'out': 'timeout', 'wall': round(now - t0, 3)}
            if on_result is not None:
                on_result(cases[idx], outcomes[idx])
    return outcomes


def run_case(case, timeout=None):
    return run_cases([case], timeout=timeout, jobs=1)[0]
