"""C09 fixtures: run `skyllh.core.multiproc.parallelize` (or `Analysis.do_trials`) with real processes under a
watchdog.

Every case runs in its own forked child of the harness (own session / process group), which sets the hook
plan (`ICECUBE_SKYLLH_VERIF_PLAN`), calls the real code and writes the outcome to a pipe.  The harness waits
for the outcome with a timeout; when the watchdog fires the whole process group is killed and the outcome is
`timeout` — the failing schedule of the property ("never hangs").  Several cases run concurrently.

A case is a JSON-able dict:
    api     'parallelize' | 'do_trials' | 'repeat'
    ncpu, n
    seed    int | None     seed of the RandomStateService passed as `rss` (None: no rss)
    seeds   (api 'repeat') one call per seed on the *same* args_list object, fresh rss each time
    interactive  bool      enable skyllh's interactive session (progress bar + status queue)
    plan    list of hook plan entries {where, pid, task, actions}
    msleep  {task index: seconds}   sleep inside the task function (how the master is made slow)
    boom    list of task indices whose task function raises ValueError
    logs    bool            every task emits one log record
    kill    list            [{i, sig, delay, pid, where, task}]: task i kills its own process with signal sig (delay 0: at once)
    boomkind str            the exception kind the raising tasks use (ValueError, StopIteration, SystemExit0, KeyboardInterrupt, …)
    does    str             what the task function does besides computing: nested (parallel map inside, inner=[ncpu, n]) | thread | mpchild
    rsize   int             every result carries a payload of that many bytes (results larger than the 64 KiB pipe buffer)
    summary bool            large runs: order/values are checked in the caller, only a summary comes back
    watchdog float          watchdog time of this case (default: the global one)
    form    dict            how things are handed over: container list|tuple|ndarray, pair tuple|list, args tuple|list,
                            kwargs own|shared|empty, func plain|lambda|closure|method|partial|callable,
                            result tuple|list|dict|ndarray; for do_trials: kwargs own|empty, ncpu keyword|positional|cfg
The outcome is a dict {out: 'done'|'error'|'timeout'|'died', res, etype, mro, msg, wall, nlog, alive (child processes
still alive 1 s after the call), kw_changed (tasks whose caller-side kwargs dict was altered), arrival (pid order)}.
"""
import json
import os
import pickle
import select
import signal
import struct
import time

WATCHDOG_S = float(os.environ.get('VERIF_C09_WATCHDOG', '6'))
CONCURRENCY = int(os.environ.get('VERIF_C09_JOBS', '12'))


class TaskAbort(BaseException):
    """an exception of the task function that is not an `Exception`"""


def _raise(kind, i):
    """what a failing task function does: the exception kinds include the control-flow exceptions that loops, iterators
    and the process bootstrap give a meaning of their own"""
    if kind == 'StopIteration':
        next(iter(()))                                  # an exhausted iterator inside the task
    if kind == 'SystemExit0':
        raise SystemExit(0)                             # sys.exit() in the task
    if kind == 'SystemExit3':
        raise SystemExit(3)
    exc = {'ValueError': ValueError, 'KeyboardInterrupt': KeyboardInterrupt, 'GeneratorExit': GeneratorExit,
           'StopAsyncIteration': StopAsyncIteration, 'AssertionError': AssertionError, 'KeyError': KeyError,
           'TaskAbort': TaskAbort, 'MemoryError': MemoryError}[kind]
    raise exc('task %d fails' % i)


def _inner(j, m=1):
    return j * m


def _mp_child(q, v):
    q.put(v * 2)


def nestval(does, inner, i):
    """what a task adds to its value when it does more than computing (see task_func)"""
    if does == 'nested':
        return sum(j * (i + 1) for j in range(inner[1]))
    if does == 'thread':
        return 7
    if does == 'mpchild':
        return 2 * (i + 1)
    return 0


def task_func(i, k=0, sleep=0.0, boom=False, log=False, rsize=0, bk='ValueError', does=None, inner=(1, 0), kill=None, rss=None, tl=None):
    """The mapped function: returns (task number, a pure function of the arguments, os pid, a draw[, payload]).
    `does`: what the function does besides computing — 'nested': it runs a parallel map itself, 'thread': it computes in a
    thread of its own, 'mpchild': it starts a multiprocessing child."""
    if sleep:
        time.sleep(sleep)
    if kill:
        # death by signal (OOM killer, batch system): now, or `delay` seconds later from a timer thread while the process
        # is held in a later window (after rqueue.put / after the log sentinel) by the hook plan
        import signal as _sig      # noqa
        import threading
        if kill[1] <= 0:
            os.kill(os.getpid(), int(kill[0]))
            time.sleep(5)
        else:
            t = threading.Timer(kill[1], os.kill, (os.getpid(), int(kill[0])))
            t.daemon = True
            t.start()
    if boom:
        _raise(bk, i)
    if log:
        import logging
        logging.getLogger('skyllh.verif.c09').warning('task %d', i)
    extra = 0
    if does == 'nested':
        from skyllh.core.multiproc import parallelize
        r = parallelize(_inner, [((j,), {'m': i + 1}) for j in range(inner[1])], inner[0])
        if r != [j * (i + 1) for j in range(inner[1])]:
            raise AssertionError('inner parallel map of task %d returned %r' % (i, r))
        extra = sum(r)
    elif does == 'thread':
        import threading
        box = []
        t = threading.Thread(target=lambda: box.append(7))
        t.start()
        t.join()
        extra = box[0]
    elif does == 'mpchild':
        import multiprocessing as mp
        q = mp.Queue()
        p = mp.Process(target=_mp_child, args=(q, i + 1))
        p.start()
        extra = q.get(timeout=5)
        p.join()
    draw = None if rss is None else int(rss.random.randint(0, 2**31 - 1))
    if rsize:
        return (i, i * i + k + extra, os.getpid(), draw, bytes([i % 251]) * int(rsize))
    return (i, i * i + k + extra, os.getpid(), draw)


def _strip(r):
    """result tuple without the payload (replaced by its length and a check of its content)"""
    if isinstance(r, (tuple, list)):
        r = tuple(r)
        if len(r) == 5 and isinstance(r[4], (bytes, bytearray)):
            ok = r[4] == bytes([r[0] % 251]) * len(r[4]) if isinstance(r[0], int) else False
            return r[:4] + ((len(r[4]) if ok else -1),)
        return r
    return repr(r)


def _kw_snapshot(args_list):
    return [(tuple(a), sorted(kw.keys()), [id(kw[k]) for k in sorted(kw.keys())]) for a, kw in list(args_list)]


# ---- the form in which function, argument list and results are handed over (case['form'])

def kval(case, i):
    """value of the keyword argument `k` of task i for the kwargs form of the case"""
    kw = (case.get('form') or {}).get('kwargs', 'own')
    return {'own': 3 * i, 'shared': 5, 'empty': 0}[kw] + (nestval(case.get('does'), case.get('inner') or (1, 0), i) if kw == 'own' else 0)


def _encode(kind, r):
    if kind == 'list':
        return list(r)
    if kind == 'dict':
        return {'i': r[0], 'v': r[1], 'pid': r[2], 'draw': r[3], 'payload': r[4] if len(r) > 4 else None}
    if kind == 'ndarray':
        import numpy as np
        return np.array([r[0], r[1], r[2], -1 if r[3] is None else r[3]], dtype=np.int64)
    return r


def _decode(kind, r):
    try:
        if kind == 'dict':
            t = (r['i'], r['v'], r['pid'], r['draw'])
            return t + ((r['payload'],) if r.get('payload') is not None else ())
        if kind == 'ndarray':
            return (int(r[0]), int(r[1]), int(r[2]), None if int(r[3]) == -1 else int(r[3]))
        if kind == 'list':
            return tuple(r)
    except Exception:  # noqa
        return repr(r)
    return r


class _Mapped(object):
    def __init__(self, kind):
        self.kind = kind

    def run(self, *a, **kw):
        return _encode(self.kind, task_func(*a, **kw))

    __call__ = run


def build_func(form):
    kind = form.get('result', 'tuple')
    fk = form.get('func', 'plain')
    if fk == 'plain' and kind == 'tuple':
        return task_func
    m = _Mapped(kind)
    if fk == 'method':
        return m.run
    if fk == 'callable':
        return m
    if fk == 'lambda':
        return lambda *a, **kw: m.run(*a, **kw)
    if fk == 'partial':
        import functools
        return functools.partial(m.run, log=False) if not form.get('_logs') else functools.partial(m.run)

    def closure(*a, **kw):      # 'closure' and 'plain' with a non-tuple result
        return m.run(*a, **kw)
    return closure


def build_args_list(case, msleep, boom):
    import numpy as np
    form = case.get('form') or {}
    n = case['n']
    kw = form.get('kwargs', 'own')
    shared = {'k': 5, 'rsize': int(case.get('rsize') or 0)}
    out = []
    for i in range(n):
        if kw == 'shared':
            d = shared
        elif kw == 'empty':
            d = {}
        else:
            d = {'k': 3 * i, 'sleep': msleep.get(i, 0.0), 'boom': i in boom, 'log': bool(case.get('logs')),
                 'rsize': int(case.get('rsize') or 0)}
            for kl in case.get('kill') or []:
                if kl['i'] == i:
                    d['kill'] = (kl['sig'], kl['delay'])
            if case.get('boomkind'):
                d['bk'] = case['boomkind']
            if case.get('does'):
                d['does'] = case['does']
                d['inner'] = tuple(case.get('inner') or (1, 0))
        a = [i] if form.get('args') == 'list' else (i,)
        out.append([a, d] if form.get('pair') == 'list' else (a, d))
    c = form.get('container', 'list')
    if c == 'tuple':
        return tuple(out)
    if c == 'ndarray':
        arr = np.empty((n, 2), dtype=object)
        for i, (a, d) in enumerate(out):
            arr[i, 0] = a
            arr[i, 1] = d
        return arr
    return out


def _ncpu_value(tok):
    import numpy as np
    if tok == 'none':
        return None
    if tok.startswith('int:'):
        return int(tok[4:])
    if tok.startswith('bool:'):
        return bool(int(tok[5:]))
    return {'float': 2.0, 'npint': np.int64(2), 'str': '2'}[tok]


def _stub_analysis():
    import numpy as np
    from skyllh.core.analysis import Analysis
    from skyllh.core.config import Config

    class StubAnalysis(Analysis):
        def __init__(self):  # no datasets, no likelihood: only what do_trials touches
            self._cfg = Config()

        def initialize_trial(self, *a, **kw):
            pass

        def unblind(self, *a, **kw):
            pass

        def do_trial_with_given_pseudo_data(self, *a, **kw):
            pass

        def do_trial(self, rss, k=0, tl=None, **kw):
            return np.array([(rss.seed, int(rss.random.randint(0, 2**31 - 1)), k, os.getpid())],
                            dtype=[('seed', np.int64), ('draw', np.int64), ('k', np.int64), ('ospid', np.int64)])
    return StubAnalysis()


def _child_main(case, wfd):
    """runs in the forked child; never returns"""
    try:
        os.setsid()
        # default dispositions (an ignored SIGTERM would be inherited from whoever started the check)
        for _s in (signal.SIGTERM, signal.SIGINT, signal.SIGHUP):
            signal.signal(_s, signal.SIG_DFL)
        os.environ['ICECUBE_SKYLLH_VERIF'] = '1'
        os.environ['ICECUBE_SKYLLH_VERIF_PLAN'] = json.dumps(case.get('plan') or [])
        devnull = os.open(os.devnull, os.O_WRONLY)
        os.dup2(devnull, 2)     # tracebacks of deliberately failing children
        import logging
        recs = []

        class H(logging.Handler):
            def emit(self, r):
                recs.append(r.getMessage())
        lg = logging.getLogger('skyllh')
        for h in list(lg.handlers):
            lg.removeHandler(h)
        lg.addHandler(H())
        lg.setLevel(logging.WARNING)
        logging.getLogger('skyllh.core.multiproc').setLevel(logging.WARNING)
        from skyllh.core.random import RandomStateService
        if case.get('interactive'):
            from skyllh.core import session
            session.enable_interactive_session()
            os.dup2(devnull, 1)     # progress bar output
        rss = None if case.get('seed') is None else RandomStateService(int(case['seed']))
        logging.getLogger('skyllh.core.multiproc').setLevel(logging.DEBUG)   # arrival order of the results (diagnostic)
        extra = {}
        try:
            if case.get('api', 'parallelize') == 'do_trials':
                ana = _stub_analysis()
                form = case.get('form') or {}
                kw = {} if form.get('kwargs') == 'empty' else {'k': 7}
                if case.get('ncpu_values') is not None:      # (cfg value, local value), possibly illegal ones
                    cv, lv = [_ncpu_value(t) for t in case['ncpu_values']]
                    ana._cfg['multiproc']['ncpu'] = cv
                    rec = ana.do_trials(rss, case['n'], ncpu=lv, **kw)
                elif form.get('ncpu') == 'cfg':       # ncpu=None: taken from the configuration by get_ncpu
                    ana._cfg['multiproc']['ncpu'] = case['ncpu']
                    rec = ana.do_trials(rss, case['n'], **kw)
                elif form.get('ncpu') == 'positional':
                    rec = ana.do_trials(rss, case['n'], case['ncpu'], **kw)
                else:
                    rec = ana.do_trials(rss, case['n'], ncpu=case['ncpu'], **kw)
                res = [tuple(int(x) for x in row) for row in rec.tolist()]
            elif case.get('api') == 'repeat':
                # the same args_list object handed to parallelize several times, each time with a fresh
                # RandomStateService of the listed seed (None: no rss); reference = a call on a newly built args_list
                from skyllh.core.multiproc import parallelize

                def build():
                    return [((i,), {'k': 3 * i}) for i in range(case['n'])]
                shared = build()
                snap0 = _kw_snapshot(shared)
                res, ref, changed = [], [], []
                for sd in case['seeds']:
                    tl = None
                    if case.get('tl') and sd is not None:
                        from skyllh.core.timing import TimeLord
                        tl = TimeLord()
                    r = parallelize(task_func, shared, case['ncpu'], rss=None if sd is None else RandomStateService(int(sd)), tl=tl)
                    res.append([_strip(x) for x in r])
                    changed.append([i for i, (x, y) in enumerate(zip(snap0, _kw_snapshot(shared))) if x != y][:4])
                    r = parallelize(task_func, build(), case['ncpu'], rss=None if sd is None else RandomStateService(int(sd)))
                    ref.append([_strip(x) for x in r])
                extra = {'ref': ref, 'kw_changed': changed}
            else:
                from skyllh.core.multiproc import parallelize
                msleep = {int(k): v for k, v in (case.get('msleep') or {}).items()}
                boom = set(case.get('boom') or [])
                form = dict(case.get('form') or {}, _logs=bool(case.get('logs')))
                args_list = build_args_list(case, msleep, boom)
                func = build_func(form)
                snap0 = _kw_snapshot(args_list)
                try:
                    res = parallelize(func, args_list, case['ncpu'], rss=rss)
                finally:
                    extra = {'kw_changed': [i for i, (x, y) in enumerate(zip(snap0, _kw_snapshot(args_list))) if x != y][:4]}
                extra['res_type'] = type(res).__name__
                res = [_strip(_decode(form.get('result', 'tuple'), r)) for r in res]
            if case.get('summary'):
                # large runs: check order and values here, send back a summary only
                bad = [i for i, r in enumerate(res) if not (isinstance(r, tuple) and len(r) == 4 and r[0] == i and r[1] == i * i + kval(case, i))][:3]
                out = {'out': 'done', 'res_len': len(res), 'res_bad': bad}
            else:
                out = {'out': 'done', 'res': res, 'logmsgs': [m for m in recs if m.startswith('task ')][:64]}
        except BaseException as e:  # noqa  (also SystemExit/KeyboardInterrupt: anything that leaves the call)
            out = {'out': 'error', 'etype': type(e).__name__, 'mro': [c.__name__ for c in type(e).__mro__], 'msg': str(e)[:200]}
        out.update(extra)
        out['nlog'] = len([m for m in recs if m.startswith('task ')])
        # diagnostic: order in which the results of the children arrived (from the debug records of the gather loop)
        arr = []
        for m in recs:
            if m.startswith('Beginning of worker process (pid='):
                try:
                    arr.append(int(m.split('pid=')[1].split(')')[0]))
                except ValueError:
                    pass
        out['arrival'] = arr
        # are the child processes gone once the call has returned / raised?  (grace period 1 s)
        import multiprocessing as mp
        t_end = time.time() + 1.0
        while mp.active_children() and time.time() < t_end:
            time.sleep(0.01)
        out['alive'] = len(mp.active_children())
        data = pickle.dumps(out)
        os.write(wfd, struct.pack('<I', len(data)) + data)
    finally:
        os._exit(0)


def _kill_group(pid):
    try:
        os.killpg(pid, signal.SIGKILL)
    except (ProcessLookupError, PermissionError):
        pass
    try:
        os.waitpid(pid, 0)
    except ChildProcessError:
        pass


def preload():
    """import the real modules once in the harness process, so that the forked callers start fast"""
    import skyllh.core.multiproc  # noqa
    import skyllh.core.random  # noqa
    import skyllh.core.analysis  # noqa
    import skyllh.core.config  # noqa


def run_cases(cases, timeout=None, jobs=None, stop=None, on_result=None):
    """Run all cases (concurrently, `jobs` at a time); returns the list of outcomes in case order.
    `stop(case)` may return True to skip a case that has not started yet (outcome {'out': 'skipped'});
    `on_result(case, outcome)` is called as soon as an outcome is known."""
    preload()
    timeout = WATCHDOG_S if timeout is None else timeout
    jobs = CONCURRENCY if jobs is None else jobs
    outcomes = [None] * len(cases)
    active = {}   # rfd -> (index, pid, t0, buffer)
    nxt = 0
    while nxt < len(cases) or active:
        while nxt < len(cases) and len(active) < jobs:
            case = cases[nxt]
            if stop is not None and stop(case):
                outcomes[nxt] = {'out': 'skipped'}
                nxt += 1
                continue
            r, w = os.pipe()
            pid = os.fork()
            if pid == 0:
                os.close(r)
                for fd in list(active):
                    try:
                        os.close(fd)
                    except OSError:
                        pass
                _child_main(case, w)
            os.close(w)
            active[r] = [nxt, pid, time.time(), b'']
            nxt += 1
        if not active:
            continue
        ready, _, _ = select.select(list(active), [], [], 0.05)
        now = time.time()
        for fd in ready:
            chunk = os.read(fd, 1 << 16)
            active[fd][3] += chunk
        # the pipe's write end is inherited by the worker processes, so EOF is not a usable signal:
        # the outcome is complete when the length-prefixed message is, or when the calling process is gone
        for fd in list(active):
            idx, pid, t0, buf = active[fd]
            complete = len(buf) >= 4 and len(buf) >= 4 + struct.unpack('<I', buf[:4])[0]
            if not complete:
                try:
                    gone = os.waitpid(pid, os.WNOHANG)[0] != 0
                except ChildProcessError:
                    gone = True
                if not gone:
                    continue
                # the caller has exited: whatever it wrote is in the pipe now
                while True:
                    r, _, _ = select.select([fd], [], [], 0)
                    if not r:
                        break
                    chunk = os.read(fd, 1 << 16)
                    if not chunk:
                        break
                    buf += chunk
                complete = len(buf) >= 4 and len(buf) >= 4 + struct.unpack('<I', buf[:4])[0]
            del active[fd]
            os.close(fd)
            _kill_group(pid)
            if complete:
                out = pickle.loads(buf[4:4 + struct.unpack('<I', buf[:4])[0]])
            else:
                out = {'out': 'died', 'msg': 'the calling process died without an outcome'}
            out['wall'] = round(now - t0, 3)
            outcomes[idx] = out
            if on_result is not None:
                on_result(cases[idx], out)
        for fd in [fd for fd, ent in active.items() if now - ent[2] > float(cases[ent[0]].get('watchdog') or timeout)]:
            idx, pid, t0, buf = active.pop(fd)
            _kill_group(pid)
            os.close(fd)
            outcomes[idx] = {'out': 'timeout', 'wall': round(now - t0, 3)}
            if on_result is not None:
                on_result(cases[idx], outcomes[idx])
    return outcomes


def run_case(case, timeout=None):
    return run_cases([case], timeout=timeout, jobs=1)[0]
