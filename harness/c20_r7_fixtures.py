"""C20, round 7: (a) shape of `_BASECONFIG` and the key chains `self[k1]..[kn]` of every `Config` method, read from the
current source with `ast` (no execution) for lean/SkyllhModel/Generated/C20.lean; (b) cases for the `mok` request
(which methods can run on a configuration of a given shape) and the `xw` request (writes that allocate a container:
`d[k] = {}`, `d.setdefault(k, {})`, `d.setdefault(k, v)`)."""
import ast
import copy

CFG_FILE = 'skyllh/core/config.py'
METHODS = ['enable_tracing', 'disable_tracing', 'set_enable_tracing', 'is_tracing_enabled', 'set_ncpu',
           'set_internal_units', 'set_wd', 'get_wd', 'to_internal_time_unit']
LEAN_NAMES = {'enable_tracing': 'chainsEnableTracing', 'disable_tracing': 'chainsDisableTracing',
              'set_enable_tracing': 'chainsSetEnableTracing', 'is_tracing_enabled': 'chainsIsTracingEnabled',
              'set_ncpu': 'chainsSetNcpu', 'set_internal_units': 'chainsSetInternalUnits', 'set_wd': 'chainsSetWd',
              'get_wd': 'chainsGetWd', 'to_internal_time_unit': 'chainsToInternalTimeUnit'}

# recorded values (used when the extraction fails because the code moved; the evidence says so)
RECORDED = {
    'dicts': [((), 0), (('multiproc',), 1), (('debugging',), 2), (('project',), 3), (('repository',), 4), (('units',), 5),
              (('units', 'internal'), 6), (('units', 'defaults'), 7), (('units', 'defaults', 'fluxes'), 8),
              (('datafields',), 9), (('caching',), 10), (('caching', 'pdf'), 11)],
    'leaves': [('multiproc', 'ncpu'), ('debugging', 'log_format'), ('debugging', 'enable_tracing'),
               ('project', 'working_directory'), ('repository', 'base_path'), ('repository', 'download_from_origin'),
               ('units', 'internal', 'angle'), ('units', 'internal', 'energy'), ('units', 'internal', 'length'),
               ('units', 'internal', 'time'), ('units', 'defaults', 'fluxes', 'angle'),
               ('units', 'defaults', 'fluxes', 'energy'), ('units', 'defaults', 'fluxes', 'length'),
               ('units', 'defaults', 'fluxes', 'time'), ('datafields', 'run'), ('datafields', 'ra'), ('datafields', 'dec'),
               ('datafields', 'ang_err'), ('datafields', 'time'), ('datafields', 'log_energy'), ('datafields', 'true_ra'),
               ('datafields', 'true_dec'), ('datafields', 'true_energy'), ('datafields', 'mcweight'),
               ('caching', 'pdf', 'MultiDimGridPDF')],
    'chains': {
        'enable_tracing': [('w', ['debugging', 'enable_tracing'])],
        'disable_tracing': [('w', ['debugging', 'enable_tracing'])],
        'set_enable_tracing': [('w', ['debugging', 'enable_tracing'])],
        'is_tracing_enabled': [('r', ['debugging', 'enable_tracing'])],
        'set_ncpu': [('w', ['multiproc', 'ncpu'])],
        'set_internal_units': [('w', ['units', 'internal', 'angle']), ('w', ['units', 'internal', 'energy']),
                               ('w', ['units', 'internal', 'length']), ('w', ['units', 'internal', 'time'])],
        'set_wd': [('r', ['project', 'working_directory'])] * 3 + [('w', ['project', 'working_directory'])],
        'get_wd': [('r', ['project', 'working_directory'])],
        'to_internal_time_unit': [('r', ['units', 'internal', 'time'])],
    },
}


def _chain(node):
    """self['a']['b'] -> ['a', 'b'] | None"""
    keys = []
    while isinstance(node, ast.Subscript):
        s = node.slice
        if not (isinstance(s, ast.Constant) and isinstance(s.value, str)):
            return None
        keys.append(s.value)
        node = node.value
    if isinstance(node, ast.Name) and node.id == 'self' and keys:
        return keys[::-1]
    return None


def method_chains(cls, name):
    """the maximal item chains on `self` in the body of the method, in source order: ('w' | 'r', keys)"""
    from harness import extract
    f = extract.find_func(cls, name)
    if f is None:
        raise LookupError('method %s not found' % name)
    inner, out = set(), []
    for node in ast.walk(f):
        if isinstance(node, ast.Subscript) and id(node) not in inner:
            c = _chain(node)
            if c is not None:
                n = node.value
                while isinstance(n, ast.Subscript):
                    inner.add(id(n))
                    n = n.value
                out.append(('w' if isinstance(node.ctx, ast.Store) else 'r', c, node.lineno, node.col_offset))
    out.sort(key=lambda x: (x[2], x[3]))
    return [(m, c) for m, c, _, _ in out]


def base_shape(tree):
    """the dict literal assigned to `_BASECONFIG`: container paths with identity numbers (a module-level dict that is
    referred to by name twice is one object), paths of all other values"""
    mod_dicts = {}
    for node in tree.body:
        if (isinstance(node, ast.Assign) and len(node.targets) == 1 and isinstance(node.targets[0], ast.Name)
                and isinstance(node.value, ast.Dict)):
            mod_dicts[node.targets[0].id] = node.value
    base = mod_dicts.get('_BASECONFIG')
    if base is None:
        raise LookupError('_BASECONFIG is not assigned a dict literal')
    dicts, leaves, ident = [], [], {}

    def rec(d, path):
        dicts.append((path, ident.setdefault(id(d), len(ident))))
        for k, v in zip(d.keys, d.values):
            if not (isinstance(k, ast.Constant) and isinstance(k.value, str)):
                raise ValueError('a key of _BASECONFIG is not a string literal')
            if isinstance(v, ast.Name) and v.id in mod_dicts:
                v = mod_dicts[v.id]
            if isinstance(v, ast.Dict):
                rec(v, path + (k.value,))
            elif isinstance(v, (ast.List, ast.ListComp, ast.DictComp, ast.Set)):
                raise ValueError('a value of _BASECONFIG is a container that is not a dict literal')
            else:
                leaves.append(path + (k.value,))
    rec(base, ())
    return dicts, leaves


def extract_config():
    from harness import extract
    tree = extract.parse(CFG_FILE)
    cls = extract.find_class(tree, 'Config')
    if cls is None:
        raise LookupError('class Config not found')
    dicts, leaves = base_shape(tree)
    chains = {m: method_chains(cls, m) for m in METHODS}
    # the forms the Lean side relies on to name the key codes
    for m, n in (('enable_tracing', 2), ('set_ncpu', 2), ('set_wd', 2)):
        w = [c for k, c in chains[m] if k == 'w']
        if len(w) != 1 or len(w[0]) != n:
            raise ValueError('%s: expected one item write with %d keys, found %r' % (m, n, w))
    w = [c for k, c in chains['set_internal_units'] if k == 'w']
    if len(w) != 4 or any(len(c) != 3 for c in w):
        raise ValueError('set_internal_units: expected four item writes with 3 keys, found %r' % (w,))
    return dict(dicts=dicts, leaves=leaves, chains=chains)


def lean_text(ex):
    names = []

    def code(k):
        if k not in names:
            names.append(k)
        return names.index(k)

    def lp(p):
        return '[' + ', '.join(str(code(k)) for k in p) + ']'
    ch = ex['chains']
    et = [c for k, c in ch['enable_tracing'] if k == 'w'][0]
    nc = [c for k, c in ch['set_ncpu'] if k == 'w'][0]
    un = [c for k, c in ch['set_internal_units'] if k == 'w']
    wd = [c for k, c in ch['set_wd'] if k == 'w'][0]
    kdefs = [('kDebugging', et[0]), ('kEnableTracing', et[1]), ('kMultiproc', nc[0]), ('kNcpu', nc[1]), ('kUnits', un[0][0]),
             ('kInternal', un[0][1]), ('kAngle', un[0][2]), ('kEnergy', un[1][2]), ('kLength', un[2][2]), ('kTime', un[3][2]),
             ('kProject', wd[0]), ('kWorkingDirectory', wd[1])]
    out = ['-- shape of _BASECONFIG and key chains of the Config methods, from skyllh/core/config.py']
    body = []
    body.append('def baseDicts : List (List Nat × Nat) := [' + ', '.join('(%s, %d)' % (lp(p), l) for p, l in ex['dicts']) + ']')
    body.append('def baseLeafPaths : List (List Nat) := [' + ', '.join(lp(p) for p in ex['leaves']) + ']')
    for m in METHODS:
        body.append('def %s : List (Bool × List Nat) := [%s]' % (
            LEAN_NAMES[m], ', '.join('(%s, %s)' % ('true' if k == 'w' else 'false', lp(c)) for k, c in ch[m])))
    for n, k in kdefs:
        body.append('def %s : Nat := %d' % (n, code(k)))
    out.append('def cfgKeyNames : List String := [' + ', '.join('"%s"' % n.replace('"', '') for n in names) + ']')
    return '\n'.join(out + body) + '\n'


# ------------------------------------------------------------------------------------------
# `mok`: shapes of configurations and the real methods on them

def shape_edits():
    """structural edits of a fresh Config() (name, function)"""
    E = [('none', lambda c: None)]
    for sec in ('debugging', 'multiproc', 'units', 'project'):
        E.append(('del_' + sec, lambda c, sec=sec: c.__delitem__(sec)))
        E.append(('scalar_' + sec, lambda c, sec=sec: c.__setitem__(sec, 7)))
    E.append(('del_internal', lambda c: c['units'].__delitem__('internal')))
    E.append(('scalar_internal', lambda c: c['units'].__setitem__('internal', 3)))
    E.append(('del_enable_tracing', lambda c: c['debugging'].__delitem__('enable_tracing')))
    E.append(('del_time', lambda c: c['units']['internal'].__delitem__('time')))
    E.append(('del_wd', lambda c: c['project'].__delitem__('working_directory')))
    E.append(('dict_enable_tracing', lambda c: c['debugging'].__setitem__('enable_tracing', {})))
    E.append(('del_ncpu', lambda c: c['multiproc'].__delitem__('ncpu')))
    E.append(('empty_units', lambda c: c.__setitem__('units', {})))
    return E


def _raises_nav(fn):
    """1 = the call ran (or failed inside an external function), 0 = KeyError / TypeError of the item navigation"""
    try:
        fn()
        return 1
    except (KeyError, TypeError):
        return 0


def impl_methods_ok(cfg, units):
    """the six navigation outcomes on the real methods; every call is made on its own deep copy of `cfg`.
    Only calls whose sole KeyError / TypeError source is the navigation are used (no os.path / astropy call on a
    value of the wrong kind: the working directory and time unit entries, when present, are replaced by valid ones
    on the copy through a plain item write before the read)."""
    def cp():
        return copy.deepcopy(cfg)
    tw = _raises_nav(lambda: cp().enable_tracing())
    tw2 = _raises_nav(lambda: cp().disable_tracing())
    tw3 = _raises_nav(lambda: cp().set_enable_tracing(True))
    nw = _raises_nav(lambda: cp().set_ncpu(2))
    uw = _raises_nav(lambda: cp().set_internal_units(time_unit=units.s))
    uw2 = _raises_nav(lambda: cp().set_internal_units(units.deg, units.TeV, units.m, units.day))
    tr = _raises_nav(lambda: cp().is_tracing_enabled)

    def wd():
        c = cp()
        try:
            if 'working_directory' in c['project'] and not isinstance(c['project']['working_directory'], (dict, list)):
                c['project']['working_directory'] = '/tmp'
        except (KeyError, TypeError):
            pass
        return c
    wr = _raises_nav(lambda: wd().get_wd())
    wr2 = _raises_nav(lambda: wd().wd_filename('f.txt'))

    def tm():
        c = cp()
        try:
            if 'time' in c['units']['internal'] and not isinstance(c['units']['internal']['time'], (dict, list)):
                c['units']['internal']['time'] = units.s
        except (KeyError, TypeError):
            pass
        return c
    ti = _raises_nav(lambda: tm().to_internal_time_unit(units.day))
    groups = {'tracingW': (tw, tw2, tw3), 'unitsW': (uw, uw2), 'wdR': (wr, wr2)}
    for g, vs in groups.items():
        if len(set(vs)) != 1:
            return None, 'the methods of the group %s disagree on whether their keys are found: %r' % (g, vs)
    return (tw, nw, uw, tr, wr, ti), None


# ------------------------------------------------------------------------------------------
# `xw`: writes that allocate a container

XW_PATHS = [(), ('debugging',), ('sh1',), ('sh2',), ('extra', 'a'), ('extra',), ('units', 'internal'), ('nokey',), ('flag',),
            ('sh1', 'n1'), ('sh2', 'n1'), ('extra', 'n2'), ('n1',)]
XW_KEYS = ['n1', 'n2', 'enable_tracing', 'debugging', 'b', 'a']

# one history that takes every branch of the allocating writes (scalar / missing section in the way, key present as a
# value / as a container / absent, the new dict reached through both names of a shared container)
XW_DIRECTED = [['set', 1, ['flag'], 'n1', 50], ['nd', 1, ['flag'], 'n1', 50], ['nd', 1, ['nokey'], 'n1', 50],
               ['set', 1, ['nokey'], 'n1', 50], ['sdd', 1, ['nokey'], 'n1', 50], ['sdv', 1, ['nokey'], 'n1', 50],
               ['sdd', 1, ['sh1'], 'n1', 50], ['sdd', 1, ['sh1'], 'b', 50], ['sdv', 1, [], 'extra', 50],
               ['sdv', 1, ['sh1'], 'n2', 51], ['set', 1, ['sh2', 'n1'], 'a', 52], ['nd', 0, ['debugging'], 'enable_tracing', 0],
               ['nd', 1, ['sh2'], 'n1', 0], ['sdd', 2, [], 'debugging', 0]]


def gen_xw_case(rng, nops):
    ops = []
    for _ in range(nops):
        kind = rng.choice(['nd', 'nd', 'sdd', 'sdd', 'sdv', 'set'])
        p = rng.choice(XW_PATHS)
        if kind in ('sdd', 'sdv') and p == ('flag',):
            p = ('sh1',)       # `int.setdefault` is an AttributeError of Python, not of the configuration code
        ops.append([kind, rng.randrange(4), list(p), rng.choice(XW_KEYS), rng.randrange(50, 53)])
    return {'ops': ops}


def xw_world(cm, users):
    """four configurations: Config(), from_dict(user 1: internal sharing sh1 / sh2), from_dict(user 0), and a second
    one made from the *same* user dictionary object as number 1"""
    u1 = users[1]()
    return [cm.Config(), cm.Config.from_dict(u1), cm.Config.from_dict(users[0]()), cm.Config.from_dict(u1)]


def xw_apply(cfgs, op):
    kind, j, path, k, v = op
    try:
        d = cfgs[j]
        for p in path:
            d = d[p]
        if kind == 'nd':
            d[k] = {}
            return 'ok'
        if kind == 'set':
            d[k] = v
            return 'ok'
        if not isinstance(d, dict):
            # a scalar / list in the way: Python's AttributeError (no `setdefault`) is canonicalised to the model's
            # class "the navigation ended at something that is no dict" = TypeError
            return 'E:TypeError'
        r = d.setdefault(k, {}) if kind == 'sdd' else d.setdefault(k, v)
        return r
    except (KeyError, TypeError) as e:
        return 'E:' + type(e).__name__
