"""Synthetic set-ups around the real skyllh signal generators (property C18).

Under test are the real `MultiDatasetSignalGenerator`, `MCMultiDatasetSignalGenerator`,
`PointLikeSourceI3SignalGenerationMethod`, `RandomChoice`, `rotate_signal_events_on_sphere`,
`DatasetSignalWeightFactorsService`, `SrcDetSigYieldWeightsService`, `SourceHypoGroupManager`, the
flux models and `DataFieldRecordArray`.  Only the detector signal yields (prescribed numbers) and, for
the count distribution, the per-dataset generators (they record the requested count) are stubs that
implement skyllh's own abstract interfaces.  skyllh is imported lazily (harness.core puts VERIF_REPO
first on sys.path).
"""
import numpy as np

_CLS = {}


def make_cfg():
    from skyllh.core.config import Config
    cfg = Config()
    cfg['debugging']['enable_tracing'] = False
    return cfg


def _classes():
    if _CLS:
        return _CLS
    from skyllh.core.detsigyield import DetSigYield, DetSigYieldBuilder
    from skyllh.core.services import DetSigYieldService
    from skyllh.core.signal_generator import SignalGenerator
    from skyllh.core.storage import DataFieldRecordArray

    class NoBuilder(DetSigYieldBuilder):
        def construct_detsigyield(self, **kw):
            return None

    class StubYield(DetSigYield):
        """prescribed yields for the sources of one (dataset, group); only public members are (re)defined, the
        base-class constructor (which wants a Dataset, a flux model, …) is not used"""
        def __init__(self, Y):
            self.Y = np.asarray(Y, dtype=np.float64)

        @property
        def param_names(self):
            return ('gamma',)

        def sources_to_recarray(self, sources):
            return np.empty((len(sources),), dtype=[('ra', np.double)])

        def __call__(self, src_recarray, src_params_recarray):
            return (self.Y.copy(), dict())

    class StubYieldService(DetSigYieldService):
        """holds a prescribed (n_datasets, n_groups) array of yields; every public member the weight services use
        is redefined here, so no private attribute of the base class is relied on"""
        def __init__(self, shg_mgr, arr):
            self.verif_mgr = shg_mgr
            self.verif_arr = arr

        @property
        def shg_mgr(self):
            return self.verif_mgr

        @property
        def arr(self):
            return self.verif_arr

        @property
        def n_datasets(self):
            return self.verif_arr.shape[0]

        @property
        def n_shgs(self):
            return self.verif_arr.shape[1]

        @property
        def dataset_list(self):
            return []

        @property
        def data_list(self):
            return []

        def change_shg_mgr(self, shg_mgr, ppbar=None):
            self.verif_mgr = shg_mgr

    class RecordingDsGen(SignalGenerator):
        """per-dataset generator: records the requested number and returns that many rows;
        a negative request fails exactly as numpy does for a negative array size."""
        def __init__(self, shg_mgr, ds_idx, cfg):
            super().__init__(shg_mgr=shg_mgr, cfg=cfg)
            self.ds_idx = ds_idx
            self.calls = []

        def generate_signal_events(self, rss, mean, poisson=True, src_detsigyield_weights_service=None):
            self.calls.append(int(mean))
            ev = DataFieldRecordArray({'ds': np.full((mean,), self.ds_idx, dtype=np.int64)}, copy=False)
            return (int(mean), {self.ds_idx: ev})

    _CLS.update(NoBuilder=NoBuilder, StubYield=StubYield, StubYieldService=StubYieldService,
                RecordingDsGen=RecordingDsGen)
    return _CLS


def make_shg_mgr(cfg, groups):
    """groups: list of dict(sources=[(ra, dec, weight|None)], gamma=2.0, Phi0=1.0, hbw=…, erange=None|(lo,hi),
    batch=128)"""
    from skyllh.core.flux_model import PowerLawEnergyFluxProfile, SteadyPointlikeFFM
    from skyllh.core.source_hypo_grouping import SourceHypoGroup, SourceHypoGroupManager
    from skyllh.core.source_model import PointLikeSource
    from skyllh.i3.signal_generation import PointLikeSourceI3SignalGenerationMethod
    c = _classes()
    shgs = []
    for g in groups:
        srcs = [PointLikeSource(ra=float(ra), dec=float(dec), weight=(None if w is None else float(w)))
                for (ra, dec, w) in g['sources']]
        fm = SteadyPointlikeFFM(
            Phi0=float(g.get('Phi0', 1.0)),
            energy_profile=PowerLawEnergyFluxProfile(E0=1000., gamma=float(g.get('gamma', 2.0)), cfg=cfg),
            cfg=cfg)
        kw = {}
        if g.get('hbw') is not None:
            kw['src_sin_dec_half_bandwidth'] = float(g['hbw'])
        er = g.get('erange')
        meth = PointLikeSourceI3SignalGenerationMethod(
            energy_range=(None if er is None else
                          {'tuple': tuple, 'list': list, 'ndarray': np.array}[g.get('erange_form', 'tuple')](
                              [float(er[0]), float(er[1])])),
            src_batch_size=int(g.get('batch', 128)), **kw)
        shgs.append(SourceHypoGroup(sources=srcs, fluxmodel=fm, detsigyield_builders=c['NoBuilder'](cfg=cfg),
                                    sig_gen_method=meth))
    return SourceHypoGroupManager(shgs)


def make_weight_services(shg_mgr, Y):
    """Y: (n_datasets, n_sources) yields -> (yield service, real SrcDetSigYieldWeightsService,
    real DatasetSignalWeightFactorsService)"""
    from skyllh.core.services import DatasetSignalWeightFactorsService, SrcDetSigYieldWeightsService
    c = _classes()
    Y = np.asarray(Y, dtype=np.float64)
    J = Y.shape[0]
    G = shg_mgr.n_src_hypo_groups
    arr = np.empty((J, G), dtype=object)
    for j in range(J):
        i = 0
        for gi, shg in enumerate(shg_mgr.shg_list):
            arr[j, gi] = c['StubYield'](Y[j, i:i + shg.n_sources])
            i += shg.n_sources
    dsy = c['StubYieldService'](shg_mgr, arr)
    sdw = SrcDetSigYieldWeightsService(detsigyield_service=dsy)
    dswf = DatasetSignalWeightFactorsService(src_detsigyield_weights_service=sdw)
    return dsy, sdw, dswf


def make_datasets(cfg, livetimes):
    from skyllh.core.dataset import Dataset
    return [Dataset(name='D%d' % j, exp_pathfilenames=None, mc_pathfilenames=None, livetime=float(lt),
                    default_sub_path_fmt='', version=1, cfg=cfg) for j, lt in enumerate(livetimes)]


MC_FIELDS = ('mc_id', 'true_ra', 'true_dec', 'sin_true_dec', 'true_energy', 'mcweight', 'ra', 'dec', 'sin_dec',
             'log_energy', 'ang_err')


def gen_mc(seed, n, sin_lo=-1.0, sin_hi=1.0, e_lo=2.0, e_hi=6.0, max_offset=0.05, ds_idx=0):
    """Deterministic synthetic MC: dict field -> ndarray.  True directions uniform in sin(dec) in
    [sin_lo, sin_hi]; reconstructed directions up to `max_offset` rad away; energies log-uniform."""
    r = np.random.RandomState(seed)
    sin_td = r.uniform(sin_lo, sin_hi, n)
    sin_td[0], sin_td[-1] = sin_lo, sin_hi                  # the coverage edges are attained
    true_dec = np.arcsin(sin_td)
    true_ra = r.uniform(0, 2 * np.pi, n)
    dec = np.clip(true_dec + r.uniform(-max_offset, max_offset, n), -np.pi / 2 + 1e-3, np.pi / 2 - 1e-3)
    ra = np.mod(true_ra + r.uniform(-max_offset, max_offset, n), 2 * np.pi)
    loge = r.uniform(e_lo, e_hi, n)
    return {
        'mc_id': np.arange(n, dtype=np.int64) + 100000 * ds_idx,
        'true_ra': true_ra, 'true_dec': true_dec, 'sin_true_dec': np.sin(true_dec),
        'true_energy': 10 ** loge, 'mcweight': r.uniform(0.5, 2.0, n) * 1e9,
        'ra': ra, 'dec': dec, 'sin_dec': np.sin(dec),
        'log_energy': loge + r.normal(0, 0.2, n), 'ang_err': r.uniform(0.002, 0.05, n),
    }


def _layout(v, layout):
    """the same numbers in another memory layout: 'copy' (fresh contiguous), 'strided' (every 2nd element of a
    larger buffer), 'readonly' (not writeable), 'offset' (a slice that does not start at the buffer)"""
    v = np.array(v)
    if layout == 'strided':
        big = np.empty((2 * len(v),), dtype=v.dtype)
        big[::2] = v
        big[1::2] = v[::-1] if len(v) else v
        return big[::2]
    if layout == 'offset':
        big = np.empty((len(v) + 3,), dtype=v.dtype)
        big[3:] = v
        big[:3] = v[:3] if len(v) >= 3 else 0
        return big[3:]
    if layout == 'readonly':
        v.setflags(write=False)
    return v


def make_data(mc_fields_list, livetimes, layout='copy'):
    """layout 'copy': the record array copies plain arrays; otherwise the arrays are handed over as they are
    (copy=False) in the given memory layout"""
    from skyllh.core.dataset import DatasetData
    from skyllh.core.storage import DataFieldRecordArray
    return [DatasetData(data_exp=None,
                        data_mc=DataFieldRecordArray({k: _layout(v, layout) for k, v in f.items()},
                                                     copy=(layout == 'copy')),
                        livetime=float(lt))
            for f, lt in zip(mc_fields_list, livetimes)]


def make_count_generator(cfg, Y, groups=None):
    """MultiDatasetSignalGenerator over recording per-dataset generators.
    Returns (generator, list of recording generators, DatasetSignalWeightFactorsService)."""
    from skyllh.core.signal_generator import MultiDatasetSignalGenerator
    c = _classes()
    Y = np.asarray(Y, dtype=np.float64)
    if Y.ndim == 1:
        Y = Y[:, None]
    if groups is None:
        groups = [dict(sources=[(0.1 * (k + 1), 0.1 * k, 1.0) for k in range(Y.shape[1])])]
    shg_mgr = make_shg_mgr(cfg, groups)
    _, _, dswf = make_weight_services(shg_mgr, Y)
    J = Y.shape[0]
    dss = make_datasets(cfg, [100.0] * J)
    datas = make_data([{'x': np.zeros(1)}] * J, [100.0] * J)
    gens = [c['RecordingDsGen'](shg_mgr, j, cfg) for j in range(J)]
    g = MultiDatasetSignalGenerator(shg_mgr=shg_mgr, dataset_list=dss, data_list=datas, sig_generator_list=gens,
                                    ds_sig_weight_factors_service=dswf, cfg=cfg)
    return g, gens, dswf


def make_mc_generator(cfg, groups, mc_fields_list, livetimes, valid_ranges=None, Y=None, layout='copy',
                      ranges_form='list'):
    """real MCMultiDatasetSignalGenerator on synthetic MC.  Returns (generator, shg_mgr, data_list).
    ranges_form: 'list' — the ranges are given to the constructor; 'inplace' — the generator is constructed without
    ranges and each dataset's dictionary is then filled in through the public valid_event_field_ranges_dict_list
    property; 'setter' — constructed without, then the whole list is assigned through the property."""
    from skyllh.core.signal_generator import MCMultiDatasetSignalGenerator
    shg_mgr = make_shg_mgr(cfg, groups)
    J = len(mc_fields_list)
    if Y is None:
        Y = np.ones((J, shg_mgr.n_sources))
    _, _, dswf = make_weight_services(shg_mgr, Y)
    dss = make_datasets(cfg, livetimes)
    datas = make_data(mc_fields_list, livetimes, layout)
    vr = None
    if valid_ranges is not None:
        vr = [dict((k, (float(v[0]), float(v[1]))) for k, v in d.items()) for d in valid_ranges]
    g = MCMultiDatasetSignalGenerator(shg_mgr=shg_mgr, dataset_list=dss, data_list=datas,
                                      valid_event_field_ranges_dict_list=(vr if ranges_form == 'list' else None),
                                      ds_sig_weight_factors_service=dswf, cfg=cfg)
    if vr is not None and ranges_form == 'inplace':
        lst = g.valid_event_field_ranges_dict_list
        for j, d in enumerate(vr):
            for k, v in d.items():
                lst[j][k] = v
    elif vr is not None and ranges_form == 'setter':
        g.valid_event_field_ranges_dict_list = vr
    return g, shg_mgr, datas


class DeviateBudgetExceeded(RuntimeError):
    """the implementation consumed more uniform deviates than any terminating run plausibly needs"""


class TwinRandom(object):
    """numpy RandomState wrapper that records every uniform deviate consumed through `random` /
    `random_sample` / `choice(p=…)` (the only draws the signal generators make with poisson=False).
    `choice` re-implements numpy's documented algorithm (cdf = cumsum(p); cdf /= cdf[-1];
    searchsorted(cdf, u, 'right')) on the recorded deviates and is cross-checked against a twin state."""
    def __init__(self, seed, budget=300000):
        self._rs = np.random.RandomState(seed)
        self._twin = np.random.RandomState(seed)
        self.us = []
        self.choice_calls = []
        self.poisson_draws = []
        self.poisson_lams = []
        self.other_draws = []
        self.budget = budget

    def random(self, size=None):
        if len(self.us) > self.budget:
            raise DeviateBudgetExceeded('more than %d uniform deviates requested' % self.budget)
        u = self._rs.random_sample(size)
        self._twin.random_sample(size)
        self.us.extend(np.atleast_1d(u).tolist())
        return u

    random_sample = random

    def choice(self, a, size=None, replace=True, p=None):
        if p is None or not replace:
            return self.__getattr__('choice')(a, size=size, replace=replace, p=p)
        p = np.asarray(p, dtype=np.float64)
        res = self._rs.choice(a, size=size, replace=replace, p=p)
        u = self._twin.random_sample(size)
        self.us.extend(np.atleast_1d(u).tolist())
        self.choice_calls.append((np.array(p), np.atleast_1d(u).copy(), np.atleast_1d(res).copy()))
        return res

    def poisson(self, lam, size=None):
        """the Poisson draw of the total is numpy's (not modelled): delegate to both states and record it"""
        res = self._rs.poisson(lam, size)
        self._twin.poisson(lam, size)
        self.poisson_draws.append(res)
        self.poisson_lams.append(lam)
        return res

    def __getattr__(self, name):
        """any other primitive a rewritten implementation might use (multinomial, randint, …): forward to both
        states so that they stay in step; such draws are not recorded as uniform deviates (`other_draws` says so)"""
        if name.startswith('__'):
            raise AttributeError(name)
        f, g = getattr(self._rs, name), getattr(self._twin, name)

        def call(*a, **kw):
            self.other_draws.append(name)
            g(*a, **kw)
            return f(*a, **kw)
        return call


_RSS = {}


def make_rss(seed, budget=300000):
    """a RandomStateService whose public `random` property is the recording twin (subclass overriding the
    public property; no private attribute of RandomStateService is touched)"""
    if not _RSS:
        from skyllh.core.random import RandomStateService

        class TwinRSS(RandomStateService):
            def __init__(self, seed, budget=300000):
                self.verif_twin = TwinRandom(seed, budget)
                super().__init__(seed)

            @property
            def random(self):
                return self.verif_twin

            @random.setter
            def random(self, r):
                pass
        _RSS['cls'] = TwinRSS
    return _RSS['cls'](seed, budget)
