"""C02, round 7 — the gradient *consumers'* bookkeeping, code-shaped (Model/GradMapR7.lean), tied to the real code.

  map cases : the real `SignalMultiDimGridPDFSet.get_pd` (its loop over the local interpolation parameters: skip / early
              exit / masked overwrite, the gradient dictionary with a key only for a contributing fit parameter) driven
              with an interpolation method that hands out prescribed (pd, grads_arr) for 1..3 interpolation parameters
              in any order, the real `ParameterModelMapper` recarray of a generated layout, a real `TrialDataManager`
              with / without event selection (sources without values, zero events), and the real
              `TrialDataManager.get_values_mask_for_source_mask` — vs. `GradMap.sigGrads` / `interpLoop` /
              `valuesMaskCode` / `valuesMaskSpec`.  Relation: exact (the values are only passed through; `==` on floats).
  i3 cases  : the real `SplinedI3EnergySigSetOverBkgPDFRatio.get_gradient`: the local gradient array is obtained through
              the public method itself (recarray copy in which every source carries fit parameter 0), then every fit
              parameter of the layout's recarray vs. `GradMap.interpLoop`.  Exact.
  yield     : the real `SingleParamFluxPointLikeSourceI3DetSigYield.__call__` (keys `np.unique(gpidx)[>0]-1`, rows
              filled where the source is inside the acceptance and carries the key) vs. `GradMap.yieldGradsCode`;
              relation 1e-12 relative (one multiplication).
Implementation-only oracles: `r7_map`, `r7_i3map`, `r7_yield` (pure-python reference of the consumers' rule).
"""
import numpy as np

from harness import grad_fixtures as gf
from harness import llh_fixtures as fx
from harness.core import f2b, b2f, flist, parse_flist

NAME_ORDERS = [['gamma'], ['gamma', 'ecut'], ['ecut', 'gamma'], ['gamma', 'ecut', 'beta'], ['beta', 'gamma'], ['ecut']]

R7_BRANCHES = (
    ['branch:interpLoop:' + b for b in ('noField', 'noSource', 'all', 'some')] +      # indexError: no legal recarray reaches it
    ['branch:interpLoop:' + b for b in ('overwrite-after-overwrite', 'all-after-skip', 'empty-values')] +
    ['branch:sigGrads:' + b for b in ('key-present', 'key-absent')] +
    ['branch:valuesMask:selected=' + b for b in ('none', 'some', 'all')] + ['branch:valuesMask:source-without-values'] +
    ['branch:yieldKeys:' + b for b in ('nonpositive-dropped', 'insert-lt', 'insert-eq', 'insert-gt', 'no-key')] +
    ['branch:yieldGrads:' + b for b in ('carrier-accepted', 'carrier-outside-acceptance', 'non-carrier')])


def ilist_(xs):
    return ','.join(str(int(x)) for x in xs) if len(xs) else '-'


def blist_(xs):
    return ','.join('1' if x else '0' for x in xs) if len(xs) else '-'


def _eq(a, b):
    """exact relation for passed-through floats: equal as numbers, NaN == NaN"""
    a, b = np.asarray(a, dtype=np.float64), np.asarray(b, dtype=np.float64)
    return a.shape == b.shape and bool(np.all((a == b) | (np.isnan(a) & np.isnan(b))))


# --------------------------------------------------------------------------------------------------
# map cases

def gen_map_case(rng, gen_layout):
    K = rng.choice([1, 2, 2, 3, 3])
    lay = gen_layout(rng, K, m=rng.choice([1, 2, 3, 3]))
    E = rng.choice([0, 1, 3, 5])
    sel = rng.choice(['none', 'random', 'random', 'source-without-values'])
    mask = None
    if sel != 'none' and E > 0:
        mask = [[int(rng.random() < 0.6) for _e in range(E)] for _k in range(K)]
        if sel == 'source-without-values':
            mask[rng.randrange(K)] = [0] * E
    sm_kind = rng.choice(['none', 'all', 'random', 'random'])
    src_mask = [0] * K if sm_kind == 'none' else [1] * K if sm_kind == 'all' else [int(rng.random() < 0.5) for _k in range(K)]
    return {'kind': 'map', 'K': K, 'layout': lay, 'E': E, 'mask': mask, 'names': list(rng.choice(NAME_ORDERS)),
            'src_mask': src_mask, 'seed': rng.randrange(10 ** 6)}


_STUB = {}


def _stub_interp_cls():
    if 'cls' not in _STUB:
        from skyllh.core.interpolate import GridManifoldInterpolationMethod

        class PrescribedInterpolation(GridManifoldInterpolationMethod):
            """hands out the prescribed density and local gradient arrays (fresh copies)"""
            payload = None

            def __call__(self, tdm, eventdata, params_recarray, tl=None, **kwargs):
                (pd, g) = PrescribedInterpolation.payload
                return (pd.copy(), g.copy())
        _STUB['cls'] = PrescribedInterpolation
    return _STUB['cls']


def impl_map(case):
    from skyllh.core.binning import BinningDefinition
    from skyllh.core.parameters import Parameter, ParameterGrid, ParameterGridSet, ParameterSet
    from skyllh.core.signalpdf import SignalMultiDimGridPDF, SignalMultiDimGridPDFSet
    K, E, names = case['K'], case['E'], case['names']
    cfg = fx.make_cfg()
    sources = fx.make_sources(K)
    shg_mgr = fx.make_shg_mgr(cfg, sources)
    pmm = gf.make_pmm_layout(sources, case['layout'])
    nfl = pmm.n_global_floating_params
    rec = pmm.create_src_params_recarray(np.full((nfl,), 1.5))
    esm = fx.StubEventSelection(shg_mgr, np.array(case['mask'], dtype=bool).reshape((K, E))) if case.get('mask') else None
    tdm = fx.make_tdm(shg_mgr, pmm, E, evt_sel_method=esm)
    nv = tdm.get_n_values()
    cls = _stub_interp_cls()
    grids = ParameterGridSet([ParameterGrid(n, [1., 2.], delta=1.0, decimals=1) for n in names])
    pdf = SignalMultiDimGridPDF(pmm=pmm, axis_binnings=[BinningDefinition('x', gf.GRID_EDGES)], pdf_grid_data=gf.grid_sig(2.0),
                                cfg=cfg)
    sigset = SignalMultiDimGridPDFSet(pmm=pmm, param_set=ParameterSet([Parameter(n, 1.5, 1., 2.) for n in names]),
                                      param_grid_set=grids, gridparams_pdfs=[(dict((n, 1.0) for n in names), pdf)],
                                      interpol_method_cls=cls, cfg=cfg)
    r = np.random.RandomState(case['seed'])
    garr = np.round(r.uniform(-3.0, 3.0, size=(len(names), nv)), 3)
    garr[garr == 0.0] = 0.5
    cls.payload = (np.ones((nv,)), garr)
    (_pd, grads) = sigset.get_pd(tdm, rec)
    vm = np.asarray(tdm.get_values_mask_for_source_mask(np.array(case['src_mask'], dtype=bool)))
    cols = [[int(x) for x in rec[n + ':gpidx']] if n in rec.dtype.fields else None for n in names]
    return {'nSrc': int(tdm.n_sources), 'idx': [int(x) for x in tdm.src_evt_idxs[0]], 'nfl': int(nfl), 'cols': cols,
            'garr': garr.tolist(), 'grads': dict((int(k), np.asarray(v, dtype=np.float64).tolist()) for k, v in grads.items()),
            'vmask': [bool(x) for x in vm]}


def _pars_tokens(cols, garr):
    t = []
    for c, g in zip(cols, garr):
        t += ['x' if c is None else ilist_(c), flist(g)]
    return t


def map_lines(case, impl):
    ls = ['vmask %d %s %s' % (impl['nSrc'], blist_(case['src_mask']), ilist_(impl['idx'])),
          ' '.join(['sgrads', str(impl['nSrc']), ilist_(impl['idx']), str(impl['nfl'])] + _pars_tokens(impl['cols'], impl['garr']))]
    for p in range(impl['nfl']):
        ls.append(' '.join(['igrad', str(impl['nSrc']), ilist_(impl['idx']), str(p)] + _pars_tokens(impl['cols'], impl['garr'])))
    return ls


def parse_rows(tok):
    return [] if tok == '-' else [parse_flist(r) for r in tok.split('|')]


def _bits(tok):
    return [] if tok == '-' else [x == '1' for x in tok.split(',')]


def compare_map(case, impl, ans):
    """None or a text; `ans` = the answers to map_lines"""
    (code, spec) = ans[0].split(' ')
    if code == 'ERR' or _bits(code) != impl['vmask'] or _bits(spec) != impl['vmask']:
        return 'get_values_mask_for_source_mask(%r): impl %r, model code form %s, spec form %s' % (
            case['src_mask'], [int(x) for x in impl['vmask']], code, spec)
    if ans[1] == 'ERR':
        return 'get_pd gradient dictionary: model raises, implementation returned keys %r' % sorted(impl['grads'])
    model = {}
    if ans[1] != '-':
        for kv in ans[1].split('|'):
            (k, row) = kv.split('=')
            model[int(k)] = parse_flist(row)
    # a key with an all-zero array and a missing key mean the same to every consumer: compared modulo zero rows
    zero = [0.0] * len(impl['idx'])
    for k in sorted(set(model) | set(impl['grads'])):
        if not _eq(model.get(k, zero), impl['grads'].get(k, zero)):
            return 'get_pd grads[%d]: impl %r, model %r' % (k, impl['grads'].get(k), model.get(k))
    return None


def reference_grads(nSrc, idx, nfl, cols, garr):
    """the consumers' rule, value by value: entry v of fit parameter p = sum over the local parameters whose gpidx for
    the source of v is p+1; a key iff some source carries p through some local parameter of the PDF set"""
    out = {}
    for p in range(nfl):
        if not any(c is not None and any(g == p + 1 for g in c) for c in cols):
            continue
        out[p] = [float(sum(garr[d][v] for d, c in enumerate(cols) if c is not None and c[s] == p + 1) + 0.0)
                  for v, s in enumerate(idx)]
    return out


def o_map(ctx, case):
    try:
        impl = impl_map(case)
    except Exception as e:  # noqa
        return 'get_pd / get_values_mask_for_source_mask raised %s: %s' % (type(e).__name__, e)
    return check_map(case, impl)


def check_map(case, impl):
    want = reference_grads(impl['nSrc'], impl['idx'], impl['nfl'], impl['cols'], impl['garr'])
    zero = [0.0] * len(impl['idx'])
    if any(k < 0 or k >= impl['nfl'] for k in impl['grads']):
        return 'get_pd gradient dictionary has keys %r outside the fit parameter ids 0..%d' % (sorted(impl['grads']), impl['nfl'] - 1)
    for p in sorted(set(want) | set(impl['grads'])):
        # (a key with an all-zero array and a missing key mean the same to every consumer)
        if not _eq(want.get(p, zero), impl['grads'].get(p, zero)):
            return 'get_pd grads[%d] = %r, expected %r (local gradients attached by gpidx == p+1; keys %r, the layout makes %r contribute)' % (
                p, impl['grads'].get(p), want.get(p), sorted(impl['grads']), sorted(want))
    wm = [bool(case['src_mask'][s]) for s in impl['idx']]
    if wm != impl['vmask']:
        return 'get_values_mask_for_source_mask(%r) = %r, expected %r' % (case['src_mask'], impl['vmask'], wm)
    return None


def count_map(ctx, case, impl, ans):
    idx = impl['idx']
    if not idx:
        ctx.count('branch:interpLoop:empty-values')
    sm = case['src_mask']
    ctx.count('branch:valuesMask:selected=' + ('none' if not any(sm) else 'all' if all(sm) else 'some'))
    if set(range(impl['nSrc'])) - set(idx):
        ctx.count('branch:valuesMask:source-without-values')
    keys = set() if ans[1] in ('-', 'ERR') else set(int(kv.split('=')[0]) for kv in ans[1].split('|'))
    for p in range(impl['nfl']):
        ctx.count('branch:sigGrads:' + ('key-present' if p in keys else 'key-absent'))
        br = ans[2 + p].split(' ')[2].split(',')
        for b in br:
            ctx.count('branch:interpLoop:' + b)
        if br.count('some') >= 2:
            ctx.count('branch:interpLoop:overwrite-after-overwrite')
        if 'all' in br and br.index('all') > 0:
            ctx.count('branch:interpLoop:all-after-skip')
    ctx.count('r7:map:names=' + '+'.join(case['names']))
    ctx.count('r7:map:E=%d' % case['E'])


# --------------------------------------------------------------------------------------------------
# the real i3 energy PDF ratio

def impl_i3map(case):
    B = gf.build_i3(case)
    theta = np.array(case['theta'], dtype=np.float64)
    rec = B.pmm.create_src_params_recarray(theta)
    nfl = B.pmm.n_global_floating_params
    out = []
    for j, (energy, tdm) in enumerate(zip(B.energy, B.tdms)):
        if 'gamma' not in rec.dtype.fields:
            continue
        rec_all = rec.copy()
        rec_all['gamma:gpidx'] = 1
        g = np.array(energy.get_gradient(tdm, rec_all, 0), dtype=np.float64)
        got = [np.array(energy.get_gradient(tdm, rec, p), dtype=np.float64).tolist() for p in range(nfl)]
        # what the caller does with the array it got back is part of the input space: scale it in place (as a product rule
        # written with `*=` would), ask again for the same trial and parameters
        again = []
        for p in range(nfl):
            a = energy.get_gradient(tdm, rec, p)
            if isinstance(a, np.ndarray) and a.flags.writeable:
                a *= 2.0
            again.append(np.array(energy.get_gradient(tdm, rec, p), dtype=np.float64).tolist())
        out.append({'j': j, 'nSrc': int(tdm.n_sources), 'idx': [int(x) for x in tdm.src_evt_idxs[0]], 'nfl': int(nfl),
                    'cols': [[int(x) for x in rec['gamma:gpidx']]], 'garr': [g.tolist()], 'got': got, 'again': again})
    return out


def i3map_lines(d):
    return [' '.join(['igrad', str(d['nSrc']), ilist_(d['idx']), str(p)] + _pars_tokens(d['cols'], d['garr']))
            for p in range(d['nfl'])]


def compare_i3map(d, ans):
    for p in range(d['nfl']):
        t = ans[p].split(' ')
        if t[0] == 'ERR':
            return 'get_gradient(fitparam_id=%d): model raises' % p
        if not _eq(parse_flist(t[0]), d['got'][p]):
            return 'dataset %d, SplinedI3EnergySigSetOverBkgPDFRatio.get_gradient(fitparam_id=%d): impl %r, model %r (gpidx %r)' % (
                d['j'], p, d['got'][p], parse_flist(t[0]), d['cols'][0])
    return None


def o_i3map(ctx, case):
    try:
        ds = impl_i3map(case)
    except Exception as e:  # noqa
        return 'SplinedI3EnergySigSetOverBkgPDFRatio.get_gradient raised %s: %s' % (type(e).__name__, e)
    return check_i3map(ds)


def check_i3map(ds):
    for d in ds:
        for p in range(d['nfl']):
            if not _eq(d['again'][p], d['got'][p]):
                return ('dataset %d, get_gradient(fitparam_id=%d) is a live view of the cache: after the caller scaled the returned array in '
                        'place the next call (same trial, same parameters) returns %r instead of %r (gpidx %r)' % (
                            d['j'], p, d['again'][p][:4], d['got'][p][:4], d['cols'][0]))
    for d in ds:
        want = reference_grads(d['nSrc'], d['idx'], d['nfl'], d['cols'], d['garr'])
        for p in range(d['nfl']):
            w = want.get(p, [0.0] * len(d['idx']))
            if not _eq(w, d['got'][p]):
                return 'dataset %d, get_gradient(fitparam_id=%d) = %r, expected %r (local gradient where gpidx == %d, gpidx %r)' % (
                    d['j'], p, d['got'][p], w, p + 1, d['cols'][0])
    return None


# --------------------------------------------------------------------------------------------------
# the real i3 detector signal yield

def gen_yield_case(rng, gen_layout):
    K = rng.choice([1, 2, 3, 3])
    for _ in range(50):
        lay = gen_layout(rng, K, m=rng.choice([1, 2, 3, 3]))
        if all(any((not p.get('ns')) and p['map'][k] == 0 for p in lay) for k in range(K)):
            break
    else:
        lay = [{'ns': True}, {'fixed': False, 'map': [0] * K, 'value': 1.5}]
    nfl = sum(1 for p in lay if p.get('ns') or not p['fixed'])
    return {'kind': 'yield', 'K': K, 'layout': lay, 'j': rng.randrange(3), 'g': rng.randrange(2),
            'theta': [round(rng.uniform(gf.VMIN, gf.VMAX), 3) for _ in range(nfl)]}


def impl_yield(case):
    import scipy.interpolate
    from skyllh.core.binning import BinningDefinition
    from skyllh.core.dataset import Dataset
    from skyllh.core.flux_model import SteadyPointlikeFFM
    from skyllh.i3.detsigyield import SingleParamFluxPointLikeSourceI3DetSigYield
    K = case['K']
    cfg = fx.make_cfg()
    sources = fx.make_sources(K)
    pmm = gf.make_pmm_layout(sources, case['layout'])
    rec = pmm.create_src_params_recarray(np.array(case['theta'], dtype=np.float64))
    (sd, gam, logY) = gf.i3_log_yield_table(case['j'], case['g'])
    spl = scipy.interpolate.RectBivariateSpline(sd, gam, logY, kx=3, ky=3, s=0)
    ds = Dataset(name='DS', exp_pathfilenames=None, mc_pathfilenames=None, livetime=100., default_sub_path_fmt='', version=1, cfg=cfg)
    obj = SingleParamFluxPointLikeSourceI3DetSigYield(
        param_name='gamma', dataset=ds, fluxmodel=SteadyPointlikeFFM(Phi0=1, energy_profile=None, cfg=cfg), livetime=100.,
        sin_dec_binning=BinningDefinition('sin_dec', sd), log_spl_sinDec_param=spl)
    dec = np.array([s.dec for s in sources], dtype=np.float64)
    src_rec = np.array([(d,) for d in dec], dtype=[('dec', np.float64)])
    (values, grads) = obj(src_rec, rec)
    sin = np.sin(dec)
    gamma = np.array(rec['gamma'], dtype=np.float64)
    accept = (sin >= sd[0]) & (sin <= sd[-1])
    # per-source leaf values handed to the model (the spline itself is external: C15 / scipy)
    Yin = np.array([float(np.exp(spl(sin[k], gamma[k], grid=False))) for k in range(K)])
    dlog = np.array([float(spl(sin[k], gamma[k], grid=False, dy=1)) for k in range(K)])
    return {'col': [int(x) for x in rec['gamma:gpidx']], 'accept': [bool(a) for a in accept], 'Yin': Yin.tolist(),
            'dlog': dlog.tolist(), 'values': np.asarray(values, dtype=np.float64).tolist(),
            'grads': dict((int(k), np.asarray(v, dtype=np.float64).tolist()) for k, v in grads.items()),
            'nfl': int(pmm.n_global_floating_params)}


def yield_line(impl):
    return 'ygrad %s %s %s %s' % (ilist_(impl['col']), blist_(impl['accept']), flist(impl['Yin']), flist(impl['dlog']))


def _near(a, b, rel=1e-12):
    a, b = np.asarray(a, dtype=np.float64), np.asarray(b, dtype=np.float64)
    return a.shape == b.shape and bool(np.all((np.abs(a - b) <= rel * (np.abs(a) + np.abs(b)) + 1e-300) | (np.isnan(a) & np.isnan(b))))


def compare_yield(impl, ans):
    t = ans.split(' ')
    values, keys, rows = parse_flist(t[0]), ([] if t[1] == '-' else [int(x) for x in t[1].split(',')]), parse_rows(t[2])
    if not _near(values, impl['values']):
        return 'detector signal yield values: impl %r, model %r' % (impl['values'], values)
    zero = [0.0] * len(impl['col'])
    mrows = dict(zip(keys, rows))
    for k in sorted(set(keys) | set(impl['grads'])):
        if not _near(mrows.get(k, zero), impl['grads'].get(k, zero)):
            return 'detector signal yield grads[%d]: impl %r, model %r (gpidx %r)' % (k, impl['grads'].get(k), mrows.get(k), impl['col'])
    spec = parse_rows(t[3])
    for p, row in enumerate(spec):
        got = rows[keys.index(p)] if p in keys else [0.0] * len(row)
        if not _eq(row, got):
            return 'model: coded yield gradient row %d %r differs from its specification form %r' % (p, got, row)
    return None


def o_yield(ctx, case):
    try:
        impl = impl_yield(case)
    except Exception as e:  # noqa
        return 'SingleParamFluxPointLikeSourceI3DetSigYield.__call__ raised %s: %s' % (type(e).__name__, e)
    return check_yield(impl)


def check_yield(impl):
    col, acc = impl['col'], impl['accept']
    want_keys = sorted(set(g - 1 for g in col if g > 0))
    if any(k < 0 or k >= impl['nfl'] for k in impl['grads']):
        return 'yield gradient key out of range: keys %r, n_floating %d (gpidx %r)' % (sorted(impl['grads']), impl['nfl'], col)
    for k, a in enumerate(acc):
        if (impl['values'][k] != 0.0) != a:
            return 'yield of source %d is %r, inside acceptance: %r' % (k, impl['values'][k], a)
    for p in sorted(set(want_keys) | set(impl['grads'])):
        # (a key with an all-zero row and a missing key mean the same to the weights service)
        want = [impl['values'][k] * impl['dlog'][k] if (acc[k] and col[k] == p + 1) else 0.0 for k in range(len(col))]
        if not _near(want, impl['grads'].get(p, [0.0] * len(col)), rel=1e-10):
            return 'yield grads[%d] = %r, expected %r (Y_k dlogY_k where gpidx == %d, gpidx %r)' % (p, impl['grads'].get(p), want, p + 1, col)
    return None


def count_yield(ctx, impl):
    col, acc = impl['col'], impl['accept']
    if any(g <= 0 for g in col):
        ctx.count('branch:yieldKeys:nonpositive-dropped')
    # branches of insertU (foldr: from the right)
    u = []
    for x in reversed(col):
        i = 0
        while True:
            if i == len(u):
                u.append(x)
                break
            if x < u[i]:
                ctx.count('branch:yieldKeys:insert-lt')
                u.insert(i, x)
                break
            if x == u[i]:
                ctx.count('branch:yieldKeys:insert-eq')
                break
            ctx.count('branch:yieldKeys:insert-gt')
            i += 1
    keys = sorted(set(g - 1 for g in col if g > 0))
    if not keys:
        ctx.count('branch:yieldKeys:no-key')
    for p in keys:
        for k in range(len(col)):
            ctx.count('branch:yieldGrads:' + ('non-carrier' if col[k] != p + 1 else 'carrier-accepted' if acc[k]
                                              else 'carrier-outside-acceptance'))


def o_corr(ctx, case):
    """model vs implementation on one round-7 case (used for replays)"""
    if case['kind'] == 'map':
        impl = impl_map(case)
        return compare_map(case, impl, ctx.driver('C02', map_lines(case, impl)))
    if case['kind'] == 'yield':
        impl = impl_yield(case)
        return compare_yield(impl, ctx.driver('C02', [yield_line(impl)])[0])
    for d in impl_i3map(case):
        t = compare_i3map(d, ctx.driver('C02', i3map_lines(d)))
        if t:
            return t
    return None


ORACLES = {'r7_map': o_map, 'r7_i3map': o_i3map, 'r7_yield': o_yield, 'r7_corr': o_corr}


def run_section(ctx, gen_layout, gen_i3_case):
    rng = ctx.rng
    # ---- map cases
    cases = [gen_map_case(rng, gen_layout) for _ in range(ctx.n(60, 1200))]
    # directed: two local parameters of the PDF set carrying the same fit parameter for different sources (masked overwrite
    # after masked overwrite), and a shared parameter behind a skipped one (early exit in a later iteration)
    cases.insert(0, {'kind': 'map', 'K': 3, 'layout': [{'fixed': True, 'map': [1, -1, 0], 'value': 1.25}, {'ns': True},
                                                       {'fixed': False, 'map': [0, 1, 1], 'value': 1.5},
                                                       {'fixed': False, 'map': [-1, 0, -1], 'value': 1.75}],
                     'E': 3, 'mask': [[1, 0, 1], [1, 1, 0], [0, 1, 1]], 'names': ['ecut', 'gamma'], 'src_mask': [1, 0, 1], 'seed': 7})
    cases.insert(1, {'kind': 'map', 'K': 2, 'layout': [{'ns': True}, {'fixed': False, 'map': [1, 1], 'value': 1.5}],
                     'E': 2, 'mask': None, 'names': ['beta', 'gamma', 'ecut'], 'src_mask': [0, 1], 'seed': 8})
    impls, lines, spans = [], [], []
    for c in list(cases):
        try:
            impl = impl_map(c)
        except Exception as e:  # noqa
            cases.remove(c)
            ctx.violation('r7_map', c, 'get_pd / get_values_mask_for_source_mask raised %s: %s' % (type(e).__name__, e),
                          signature='C02/SignalMultiDimGridPDFSet.get_pd/exception')
            continue
        ls = map_lines(c, impl)
        spans.append((len(lines), len(lines) + len(ls)))
        lines += ls
        impls.append(impl)
    ans = ctx.driver('C02', lines)
    for i, (c, impl, (lo, hi)) in enumerate(zip(cases, impls, spans)):
        ctx.case(key=('r7map', repr(c)), desc={'r7': 'map', 'layout': gf.layout_string(c), 'names': c['names']} if i % 53 == 0 else None)
        count_map(ctx, c, impl, ans[lo:hi])
        d = compare_map(c, impl, ans[lo:hi])
        r = check_map(c, impl)
        ctx.count('oracle:r7_map')
        if r:
            ctx.violation('r7_map', c, r, signature='C02/SignalMultiDimGridPDFSet.get_pd/' + (
                'values-mask' if 'values_mask' in r else 'gradient-keys' if 'outside the fit parameter ids' in r else 'local-gradient-misattached'))
        elif d:
            ctx.violation('r7_corr', c, d + ' (no property oracle fails on this input)', kind='correspondence',
                          relation='exact (values passed through)', signature='C02/corr/r7-map', no_failing_input=True)
    # ---- the real i3 energy ratio
    i3cases, i3impl, lines = [], [], []
    for i in range(ctx.n(6, 150)):
        c = gen_i3_case(rng)
        for _try in range(60):
            # the first case: a floating gamma parameter shared by all sources (early exit: the cached array itself)
            if i > 0 or any((not p.get('ns')) and (not p['fixed']) and all(m == 0 for m in p['map']) for p in c['layout']):
                break
            c = gen_i3_case(rng)
        c['no_energy'] = False
        c['kind'] = 'i3map'
        try:
            ds = impl_i3map(c)
        except Exception as e:  # noqa
            ctx.violation('r7_i3map', c, 'SplinedI3EnergySigSetOverBkgPDFRatio.get_gradient raised %s: %s' % (type(e).__name__, e),
                          signature='C02/SplinedI3EnergySigSetOverBkgPDFRatio.get_gradient/exception')
            continue
        i3cases.append(c)
        i3impl.append(ds)
        for d in ds:
            lines += i3map_lines(d)
    ans = ctx.driver('C02', lines) if lines else []
    lo = 0
    for i, (c, ds) in enumerate(zip(i3cases, i3impl)):
        ctx.case(key=('r7i3map', repr(c)), desc={'r7': 'i3map', 'layout': gf.layout_string(c)} if i % 29 == 0 else None)
        ctx.count('oracle:r7_i3map')
        r = check_i3map(ds)
        if r:
            ctx.violation('r7_i3map', c, r, signature='C02/SplinedI3EnergySigSetOverBkgPDFRatio.get_gradient/' + (
                'result-is-live-view-of-cache' if 'live view' in r else 'local-gradient-misattached'))
        t = None
        for d in ds:
            t = t or compare_i3map(d, ans[lo:lo + d['nfl']])
            for a in ans[lo:lo + d['nfl']]:
                for b in a.split(' ')[2].split(','):
                    ctx.count('r7:i3map:iteration=' + b)
            lo += d['nfl']
        if t and not r:
            ctx.violation('r7_corr', c, t + ' (no property oracle fails on this input)', kind='correspondence',
                          relation='exact (values passed through)', signature='C02/corr/r7-i3map', no_failing_input=True)
    # ---- the real i3 detector signal yield
    ycases = [gen_yield_case(rng, gen_layout) for _ in range(ctx.n(50, 1500))]
    yimpl = []
    for c in ycases:
        try:
            yimpl.append(impl_yield(c))
        except Exception as e:  # noqa
            yimpl.append(None)
            ctx.violation('r7_yield', c, 'SingleParamFluxPointLikeSourceI3DetSigYield.__call__ raised %s: %s' % (type(e).__name__, e),
                          signature='C02/SingleParamFluxPointLikeSourceI3DetSigYield.__call__/exception')
    ok = [(c, m) for c, m in zip(ycases, yimpl) if m is not None]
    ans = ctx.driver('C02', [yield_line(m) for (_c, m) in ok])
    for i, ((c, m), a) in enumerate(zip(ok, ans)):
        ctx.case(key=('r7yield', repr(c)), desc={'r7': 'yield', 'layout': gf.layout_string(c), 'gpidx': m['col']} if i % 41 == 0 else None)
        count_yield(ctx, m)
        ctx.count('oracle:r7_yield')
        r = check_yield(m)
        d = compare_yield(m, a)
        if r:
            ctx.violation('r7_yield', c, r, signature='C02/SingleParamFluxPointLikeSourceI3DetSigYield.__call__/' + (
                'gradient-keys' if 'keys' in r or 'key' in r else 'acceptance' if 'acceptance' in r else 'gradient-misattached'))
        elif d:
            ctx.violation('r7_corr', c, d + ' (no property oracle fails on this input)', kind='correspondence',
                          relation='1e-12 relative', signature='C02/corr/r7-yield', no_failing_input=True)


# --------------------------------------------------------------------------------------------------
# constants of the consumers' rule, read from the current source (generated(ctx) of harness/props/c02.py)

CONSUMER_RECORDED = {'sigOffset': 1, 'sigCompareEq': True, 'i3Offset': 1, 'i3CompareEq': True,
                     'yieldKeyFloor': 0, 'yieldKeyFloorStrict': True, 'yieldKeyShift': 1, 'yieldMaskOffset': 1,
                     'yieldMaskCompareEq': True}


def _compare_with_offset(func, name):
    """the unique `<x> <op> (<name> + <k>)` comparison inside `func`: (op is ==, k)"""
    import ast
    hits = []
    for node in ast.walk(func):
        if isinstance(node, ast.Compare) and len(node.ops) == 1 and isinstance(node.comparators[0], ast.BinOp):
            b = node.comparators[0]
            if isinstance(b.left, ast.Name) and b.left.id == name and isinstance(b.op, ast.Add) and isinstance(b.right, ast.Constant):
                hits.append((isinstance(node.ops[0], ast.Eq), int(b.right.value)))
    if len(hits) != 1:
        raise ValueError('%d comparisons with %s + k' % (len(hits), name))
    return hits[0]


def consumer_constants():
    """-> (dict, list of failure texts); recorded value where the extraction fails"""
    import ast
    from harness import extract
    out, fails = dict(CONSUMER_RECORDED), []
    try:
        f = extract.find_func(extract.find_class(extract.parse('skyllh/core/signalpdf.py'), 'SignalMultiDimGridPDFSet'), 'get_pd')
        (out['sigCompareEq'], out['sigOffset']) = _compare_with_offset(f, 'fitparam_id')
    except Exception as e:  # noqa
        fails.append('SignalMultiDimGridPDFSet.get_pd gpidx comparison: %s' % e)
    try:
        f = extract.find_func(extract.find_class(extract.parse('skyllh/i3/pdfratio.py'), 'SplinedI3EnergySigSetOverBkgPDFRatio'),
                              'get_gradient')
        (out['i3CompareEq'], out['i3Offset']) = _compare_with_offset(f, 'fitparam_id')
    except Exception as e:  # noqa
        fails.append('SplinedI3EnergySigSetOverBkgPDFRatio.get_gradient gpidx comparison: %s' % e)
    try:
        f = extract.find_func(extract.find_class(extract.parse('skyllh/i3/detsigyield.py'),
                                                 'SingleParamFluxPointLikeSourceI3DetSigYield'), '__call__')
        (out['yieldMaskCompareEq'], out['yieldMaskOffset']) = _compare_with_offset(f, 'gfp_idx')
        hits = []
        for node in ast.walk(f):
            # gfp_idxs[gfp_idxs > c] - k
            if (isinstance(node, ast.BinOp) and isinstance(node.op, ast.Sub) and isinstance(node.right, ast.Constant)
                    and isinstance(node.left, ast.Subscript) and isinstance(node.left.slice, ast.Compare)):
                cmp_ = node.left.slice
                if len(cmp_.ops) == 1 and isinstance(cmp_.comparators[0], ast.Constant) and isinstance(cmp_.ops[0], (ast.Gt, ast.GtE)):
                    hits.append((int(cmp_.comparators[0].value), isinstance(cmp_.ops[0], ast.Gt), int(node.right.value)))
        if len(hits) != 1:
            raise ValueError('%d expressions of the form idxs[idxs > c] - k' % len(hits))
        (out['yieldKeyFloor'], out['yieldKeyFloorStrict'], out['yieldKeyShift']) = hits[0]
    except Exception as e:  # noqa
        fails.append('SingleParamFluxPointLikeSourceI3DetSigYield.__call__ key arithmetic: %s' % e)
    return out, fails


def generated_text(consts):
    def lb(b):
        return 'true' if b else 'false'
    c = consts
    return ('/-- `SignalMultiDimGridPDFSet.get_pd`: `src_mask = p_gpidxs == (fitparam_id + k)` -/\n'
            'def sigOffset : Int := %d\ndef sigCompareEq : Bool := %s\n'
            '/-- `SplinedI3EnergySigSetOverBkgPDFRatio.get_gradient`: `src_mask = p_gpidxs == (fitparam_id + k)` -/\n'
            'def i3Offset : Int := %d\ndef i3CompareEq : Bool := %s\n'
            '/-- `SingleParamFluxPointLikeSourceI3DetSigYield.__call__`: `gfp_idxs[gfp_idxs > floor] - shift`, '
            '`gfp_src_mask = (src_param_gp_idxs == gfp_idx + k)` -/\n'
            'def yieldKeyFloor : Int := %d\ndef yieldKeyFloorStrict : Bool := %s\ndef yieldKeyShift : Int := %d\n'
            'def yieldMaskOffset : Int := %d\ndef yieldMaskCompareEq : Bool := %s\n') % (
        c['sigOffset'], lb(c['sigCompareEq']), c['i3Offset'], lb(c['i3CompareEq']), c['yieldKeyFloor'], lb(c['yieldKeyFloorStrict']),
        c['yieldKeyShift'], c['yieldMaskOffset'], lb(c['yieldMaskCompareEq']))
