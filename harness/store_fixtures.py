"""Shared fixtures of C16 / C07: the real DataFieldRecordArray driven by JSON-able operations, a reference
plain table built on a numpy structured array, public-accessor snapshots, and the parser of the state
dumps printed by Driver/C16.lean (Model/Store.lean)."""
import copy

import numpy as np

# field name <-> its index in the model.  Several names are substrings of one another (dec/sin_dec, ra/true_ra, x/xy) and
# of realistic skyllh fields: a method that treats a name argument as a string instead of a name must show.
UNIVERSE = ['ra', 'dec', 'time', 'run', 'sin_dec', 'true_ra', 'x', 'xy']


def names_arg(idxs, form):
    """a field-name argument in one of the documented forms: a sequence of names (list / tuple) or, for a single name,
    the plain str (documented for keep_fields of tidy_up / copy / the constructor: a str means that one field)"""
    names = [UNIVERSE[n] for n in idxs]
    if form == 'str' and len(names) == 1:
        return names[0]
    if form == 'tuple':
        return tuple(names)
    return names
NP_DT = {'b': np.dtype(np.bool_), 'i16': np.dtype(np.int16), 'i64': np.dtype(np.int64),
         'f32': np.dtype(np.float32), 'f64': np.dtype(np.float64)}
DT_NAME = {v: k for k, v in NP_DT.items()}


def dtname(dt):
    return DT_NAME.get(np.dtype(dt), str(dt))


def mkarr(col):
    """fresh ndarray from {'dt':…, 'v':[ints], 'layout': contiguous | strided | reversed | struct-field}: the memory layout of
    an array the caller hands in is the caller's business — the container must behave the same"""
    vals = np.array(col['v'], dtype=np.int64).astype(NP_DT[col['dt']])
    lay = col.get('layout')
    n = len(vals)
    if lay == 'strided':
        big = np.zeros(2 * n + 1, dtype=vals.dtype)
        big[1::2] = vals
        return big[1::2]
    if lay == 'reversed':
        return vals[::-1].copy()[::-1]
    if lay == 'struct':
        s_ = np.zeros(n, dtype=[('p', np.int8), ('q', vals.dtype), ('r', np.float64)])
        s_['q'] = vals
        return s_['q']
    return vals


def mksel(sel):
    if sel['k'] == 'm':
        return np.array(sel['v'], dtype=np.bool_)
    return np.array(sel['v'], dtype=np.int64)


def ivals(arr):
    return [int(v) for v in np.asarray(arr).tolist()]


ERR_OF = {KeyError: 'key', ValueError: 'value', IndexError: 'index', TypeError: 'type'}


def errkind(e, op=None):
    k = ERR_OF.get(type(e), type(e).__name__)
    return canon_err(k, op)


def canon_err(k, op):
    # numpy decides between IndexError and ValueError for a bad fancy-index assignment by its own
    # order of checks; the property only cares that the operation raises and changes nothing
    if op in ('getSel', 'setSel') and k in ('index', 'value'):
        return 'idxval'
    return k


# ---------------------------------------------------------------------------------------------
# the real container

def DFRA():
    from skyllh.core.storage import DataFieldRecordArray
    return DataFieldRecordArray


def impl_apply(conts, op, held=None):
    """apply one operation to the list of real containers; returns ('ok', out) | ('err', kind).
    `held`: list collecting the array objects the caller hands in or keeps a reference to."""
    k = op['op']
    D = DFRA()
    hold = (lambda arr: held.append(arr)) if held is not None else (lambda arr: None)
    try:
        if k == 'new':
            d = {}
            for n, col in op['cols']:
                d[UNIVERSE[n]] = mkarr(col)
            if op.get('nocopy'):
                for arr in d.values():
                    hold(arr)
            conts.append(D(d, copy=not op.get('nocopy')))
            return ('ok', ['cont', len(conts) - 1])
        if k == 'freeze':
            conts[op['d']][UNIVERSE[op['m']]].flags.writeable = False
            return ('ok', ['unit'])
        if k == 'poke':
            # the caller writes into the array __getitem__ handed out
            conts[op['d']][UNIVERSE[op['m']]][op['k']] = op['v']
            return ('ok', ['unit'])
        if k == 'newShared':
            arr = conts[op['d']][UNIVERSE[op['m']]]
            hold(arr)
            conts.append(D({UNIVERSE[op['m']]: arr}, copy=False))
            return ('ok', ['cont', len(conts) - 1])
        a = conts[op['c']]
        if k in ('appendFieldFrom', 'setItemFrom'):
            arr = conts[op['d']][UNIVERSE[op['m']]]
            if k == 'appendFieldFrom':
                a.append_field(UNIVERSE[op['n']], arr)
            else:
                a[UNIVERSE[op['n']]] = arr
            return ('ok', ['unit'])
        if k == 'append':
            a.append(conts[op['d']])
        elif k == 'appendField':
            arr = mkarr(op['col'])
            hold(arr)
            a.append_field(UNIVERSE[op['n']], arr)
        elif k == 'setItem':
            arr = mkarr(op['col'])
            hold(arr)
            a[UNIVERSE[op['n']]] = arr
        elif k == 'removeField':
            a.remove_field(UNIVERSE[op['n']])
        elif k == 'rename':
            a.rename_fields({UNIVERSE[o]: UNIVERSE[n] for o, n in op['convs']}, must_exist=bool(op['must']))
        elif k == 'tidyUp':
            a.tidy_up(names_arg(op['keep'], op.get('form')))
        elif k == 'getSel':
            r = a[mksel(op['sel'])] if op.get('via_getitem') else a.get_selection(mksel(op['sel']))
            conts.append(r)
            return ('ok', ['cont', len(conts) - 1])
        elif k == 'setSel':
            if op.get('via_setitem'):
                a[mksel(op['sel'])] = conts[op['d']]
            else:
                a.set_selection(mksel(op['sel']), conts[op['d']])
        elif k == 'sortBy':
            r = a.sort_by_field(UNIVERSE[op['n']])
            return ('ok', ['idxs', ivals(r)])
        elif k == 'copy':
            keep = op.get('keep')
            kf = None if keep is None else names_arg(keep, op.get('form'))
            # copy(keep_fields) is the constructor on a DataFieldRecordArray: both public routes
            conts.append(DFRA()(a, keep_fields=kf) if op.get('via_ctor') else a.copy(keep_fields=kf))
            return ('ok', ['cont', len(conts) - 1])
        elif k == 'setDtype':
            a.set_field_dtype(UNIVERSE[op['n']], NP_DT[op['dt']])
        elif k == 'convert':
            a.convert_dtypes({NP_DT[o]: NP_DT[n] for o, n in op['convs']},
                             except_fields=names_arg(op['exc'], 'tuple' if op.get('form') == 'tuple' else 'list'))
        elif k == 'indices':
            return ('ok', ['idxs', ivals(a.indices)])
        else:
            raise AssertionError('unknown op %r' % k)
        return ('ok', ['unit'])
    except (KeyError, ValueError, IndexError, TypeError) as e:
        return ('err', errkind(e, k))


def snap(a, vals=None, universe=None):
    """what the public accessors of one container say"""
    vals = vals or ivals
    universe = universe or UNIVERSE
    names = list(a.field_name_list)
    cols = []
    for n in names:
        try:
            arr = a[n]
            cols.append([n, dtname(arr.dtype), vals(arr)])
        except KeyError:
            cols.append([n, '!', None])
    try:
        idx = ivals(copy.deepcopy(a).indices)
    except Exception as e:  # noqa
        idx = 'EXC:' + type(e).__name__
    return {'len': len(a), 'names': names, 'cols': cols, 'idx': idx,
            'has': [n for n in universe if n in a]}


def slots(conts):
    out = []
    for ci, a in enumerate(conts):
        for n in list(a.field_name_list):
            try:
                arr = a[n]
            except KeyError:
                continue
            if arr.size:
                out.append((ci, n, arr))
    return out


def sharing(conts):
    """pairs of distinct (container, field) slots whose arrays share memory"""
    sl = slots(conts)
    res = []
    for i in range(len(sl)):
        for j in range(i + 1, len(sl)):
            if np.may_share_memory(sl[i][2], sl[j][2]) and np.shares_memory(sl[i][2], sl[j][2]):
                res.append([[sl[i][0], sl[i][1]], [sl[j][0], sl[j][1]]])
    return res


def clone(conts):
    """deep copy of a list of containers that keeps sharing (memo) and the writeable flags (deepcopy resets them)"""
    new = copy.deepcopy(conts)
    for a, b in zip(conts, new):
        for n in list(a.field_name_list):
            try:
                if not a[n].flags.writeable:
                    b[n].flags.writeable = False
            except KeyError:
                pass
    return new


def cont_arrays(a):
    out = []
    for n in list(a.field_name_list):
        try:
            out.append(a[n])
        except KeyError:
            pass
    return out


def shares(xs, ys):
    return any(x.size and y.size and np.may_share_memory(x, y) and np.shares_memory(x, y) for x in xs for y in ys)


def legal(conts, op):
    """set_selection whose source shares memory with the target (or a target with internally shared columns assigned
    from itself) reads what it has just written; that read-after-write order is outside the model"""
    if op['op'] != 'setSel':
        return True
    c, d = op['c'], op['d']
    if not (0 <= c < len(conts) and 0 <= d < len(conts)):
        return True
    xs = cont_arrays(conts[c])
    if c == d:
        return not any(shares([xs[i]], [xs[j]]) for i in range(len(xs)) for j in range(i + 1, len(xs)))
    return not shares(xs, cont_arrays(conts[d]))


# ---------------------------------------------------------------------------------------------
# reference: a plain table held in a numpy structured array (value semantics, failed op = no change)

class RefErr(Exception):
    def __init__(self, kind):
        Exception.__init__(self, kind)
        self.kind = kind


class Cell:
    """one array object of the reference world (slots bound to the same Cell share their data)"""
    __slots__ = ('a', 'ro')

    def __init__(self, a):
        self.a = a
        self.ro = False      # ndarray.flags.writeable == False


class RefTable:
    """row count + ordered named columns.  A column is a Cell: operations that keep the array object keep the Cell,
    operations that allocate make a new one, set_selection writes into it.  Reading goes through a numpy structured array."""

    def __init__(self, pairs, n):
        self.set(pairs, n)

    def set(self, pairs, n):
        self.names = [p[0] for p in pairs]
        self.n = int(n)
        self.cells = {nm: (v if isinstance(v, Cell) else Cell(np.array(v, copy=True))) for nm, v in pairs}

    def struct(self):
        arr = np.empty(self.n, dtype=[(nm, self.cells[nm].a.dtype) for nm in self.names])
        for nm in self.names:
            arr[nm] = self.cells[nm].a
        return arr

    def col(self, nm):
        return np.array(self.cells[nm].a, copy=True)

    def pairs(self):
        """(name, fresh copy)"""
        return [(nm, self.col(nm)) for nm in self.names]

    def kept(self):
        """(name, the array object itself)"""
        return [(nm, self.cells[nm]) for nm in self.names]

    def snap(self):
        ok = all(len(self.cells[nm].a) == self.n for nm in self.names)
        arr = self.struct() if ok else None
        return {'len': self.n, 'names': list(self.names),
                'cols': [[nm, dtname(self.cells[nm].a.dtype), ivals(arr[nm] if ok else self.cells[nm].a)] for nm in self.names],
                'idx': list(range(self.n)), 'has': [n for n in UNIVERSE if n in self.names]}


def ref_apply(tabs, op, impl_out=None):
    """the table semantics of one operation; returns ('ok', out) | ('err', kind).  A failed operation changes nothing."""
    k = op['op']
    try:
        if k == 'new':
            pairs = [(UNIVERSE[n], mkarr(col)) for n, col in op['cols']]
            n = len(pairs[0][1]) if pairs else 0
            if any(len(a) != n for _, a in pairs):
                raise RefErr('value')
            tabs.append(RefTable(pairs, n))
            return ('ok', ['cont', len(tabs) - 1])
        if k == 'freeze':
            tabs[op['d']].cells[UNIVERSE[op['m']]].ro = True
            return ('ok', ['unit'])
        if k == 'poke':
            src, nm = tabs[op['d']], UNIVERSE[op['m']]
            if nm not in src.names:
                raise RefErr('key')
            cell = src.cells[nm]
            if cell.ro:
                raise RefErr('value')
            if not 0 <= op['k'] < len(cell.a):
                raise RefErr('index')
            cell.a[op['k']] = op['v']
            return ('ok', ['unit'])
        if k == 'newShared':
            src, nm = tabs[op['d']], UNIVERSE[op['m']]
            if nm not in src.names:
                raise RefErr('key')
            tabs.append(RefTable([(nm, src.cells[nm])], len(src.cells[nm].a)))
            return ('ok', ['cont', len(tabs) - 1])
        t = tabs[op['c']]
        if k == 'append':
            d = tabs[op['d']]
            if any(nm not in d.names for nm in t.names):
                raise RefErr('key')
            t.set([(nm, np.concatenate([t.col(nm), d.col(nm)])) for nm in t.names], t.n + d.n)
        elif k in ('appendField', 'setItem', 'appendFieldFrom', 'setItemFrom'):
            nm = UNIVERSE[op['n']]
            if k.endswith('From'):
                src, m = tabs[op['d']], UNIVERSE[op['m']]
                if m not in src.names:
                    raise RefErr('key')
                new = src.cells[m]            # the array object itself
                ln = len(new.a)
            else:
                new = mkarr(op['col'])
                ln = len(new)
            if nm in t.names:
                if k.startswith('appendField'):
                    # two independent guards may fail: either exception is fine
                    raise RefErr('key|value' if ln != t.n else 'key')
                if ln != t.n:
                    raise RefErr('value')
                t.set([(m_, new if m_ == nm else c) for m_, c in t.kept()], t.n)
            else:
                if ln != t.n:
                    raise RefErr('value')
                t.set(t.kept() + [(nm, new)], t.n)
        elif k == 'removeField':
            nm = UNIVERSE[op['n']]
            if nm not in t.names:
                raise RefErr('key')
            t.set([p for p in t.kept() if p[0] != nm], t.n)
        elif k == 'rename':
            before = list(t.names)
            d = dict(t.kept())
            for o, n in op['convs']:
                o, n = UNIVERSE[o], UNIVERSE[n]
                if o in before and o in d:
                    c_ = d.pop(o)
                    if n in d:
                        raise RefErr('key')      # renaming onto an existing field would lose that column
                    d[n] = c_
                elif op['must']:
                    raise RefErr('key')
            t.set(list(d.items()), t.n)
        elif k == 'tidyUp':
            keep = [UNIVERSE[n] for n in op['keep']]
            t.set([p for p in t.kept() if p[0] in keep], t.n)
        elif k == 'getSel':
            sel = mksel(op['sel'])
            try:
                pairs = [(nm, a[sel]) for nm, a in t.pairs()]
            except (IndexError, ValueError) as e:
                raise RefErr(errkind(e, k))
            tabs.append(RefTable(pairs, len(pairs[0][1]) if pairs else 0))
            return ('ok', ['cont', len(tabs) - 1])
        elif k == 'setSel':
            d = tabs[op['d']]
            if any(nm not in d.names for nm in t.names):
                raise RefErr('key')
            if any(t.cells[nm].ro for nm in t.names):
                raise RefErr('idxval')            # ValueError: assignment destination is read-only
            sel = mksel(op['sel'])
            try:                                  # dry run on copies: a failing assignment writes nothing
                for nm, a in t.pairs():
                    a[sel] = d.col(nm)
            except (IndexError, ValueError) as e:
                raise RefErr(errkind(e, k))
            for nm in t.names:                    # writes through the array objects, in field order
                t.cells[nm].a[sel] = d.col(nm)
        elif k == 'sortBy':
            nm = UNIVERSE[op['n']]
            if nm not in t.names:
                raise RefErr('key')
            key = t.col(nm)
            perm = impl_out if impl_out is not None else ivals(np.argsort(key, kind='stable'))
            if sorted(perm) != list(range(len(key))):
                raise RefErr('perm')
            p = np.array(perm, dtype=np.int64)
            if len(p) and np.any(key[p][1:] < key[p][:-1]):
                raise RefErr('perm')
            t.set([(m, a[p]) for m, a in t.pairs()], t.n)
            return ('ok', ['idxs', list(perm)])
        elif k == 'copy':
            keep = op.get('keep')
            pairs = [p for p in t.pairs() if keep is None or p[0] in [UNIVERSE[n] for n in keep]]
            tabs.append(RefTable(pairs, t.n if pairs else 0))
            return ('ok', ['cont', len(tabs) - 1])
        elif k == 'setDtype':
            nm = UNIVERSE[op['n']]
            if nm not in t.names:
                raise RefErr('key')
            dt = NP_DT[op['dt']]
            t.set([(m, (c if c.a.dtype == dt else c.a.astype(dt)) if m == nm else c) for m, c in t.kept()], t.n)
        elif k == 'convert':
            conv = {NP_DT[o]: NP_DT[n] for o, n in op['convs']}
            exc = [UNIVERSE[n] for n in op['exc']]
            t.set([(m, c.a.astype(conv[c.a.dtype]) if (m not in exc and c.a.dtype in conv) else c) for m, c in t.kept()], t.n)
        elif k == 'indices':
            return ('ok', ['idxs', list(range(t.n))])
        else:
            raise AssertionError(k)
        return ('ok', ['unit'])
    except RefErr as e:
        return ('err', e.kind)



# ---------------------------------------------------------------------------------------------
# independent row-oriented reference: ONE numpy structured array per table, value semantics.
# Row-changing operations are row operations on that array (arr[sel], np.concatenate, arr[perm], arr[sel] = rows).

class RowTable:
    def __init__(self, pairs, n):
        self.names = [p[0] for p in pairs]
        self.n = int(n)
        self.arr = np.empty(self.n, dtype=[(nm, np.asarray(a).dtype) for nm, a in pairs])
        for nm, a in pairs:
            self.arr[nm] = a

    @classmethod
    def of(cls, names, arr):
        t = cls.__new__(cls)
        t.names, t.arr, t.n = list(names), arr, len(arr)
        return t

    def pairs(self):
        return [(nm, np.array(self.arr[nm], copy=True)) for nm in self.names]

    def rows_for(self, names, dtype):
        """my rows restricted / re-ordered to `names`, cast to the row dtype `dtype`"""
        return RowTable([(nm, self.arr[nm]) for nm in names], self.n).arr.astype(dtype)

    def snap(self):
        return {'len': self.n, 'names': list(self.names),
                'cols': [[nm, dtname(self.arr.dtype[nm]), ivals(self.arr[nm])] for nm in self.names],
                'idx': list(range(self.n)), 'has': [n for n in UNIVERSE if n in self.names]}


def row_apply(rows, op, impl_out=None, blocked=False, impl_ok=True):
    """the row-store semantics of one operation on the list `rows` (entries None = no longer comparable: a write went
    through an array shared with this table).  Returns ('ok', out) | ('err', kinds) | None (no opinion)."""
    k = op['op']

    def involved(*ids):
        return any(rows[i] is None for i in ids)
    try:
        if k == 'new':
            pairs = [(UNIVERSE[n], mkarr(col)) for n, col in op['cols']]
            n = len(pairs[0][1]) if pairs else 0
            if any(len(a) != n for _, a in pairs):
                raise RefErr('value')
            rows.append(RowTable(pairs, n))
            return ('ok', ['cont', len(rows) - 1])
        if k == 'freeze':
            return ('ok', ['unit'])
        if k == 'poke':
            t = rows[op['d']]
            if t is None:
                return None
            nm = UNIVERSE[op['m']]
            if nm not in t.names:
                raise RefErr('key')
            if blocked:
                raise RefErr('value')
            if not 0 <= op['k'] < t.n:
                raise RefErr('index')
            t.arr[nm][op['k']] = op['v']          # one field of one row
            return ('ok', ['unit'])
        if k == 'newShared':
            if involved(op['d']):
                if impl_ok:
                    rows.append(None)
                return None
            src, nm = rows[op['d']], UNIVERSE[op['m']]
            if nm not in src.names:
                raise RefErr('key')
            rows.append(RowTable([(nm, src.arr[nm])], src.n))
            return ('ok', ['cont', len(rows) - 1])
        c = op['c']
        t = rows[c]
        partner = op.get('d') if k in ('append', 'setSel', 'appendFieldFrom', 'setItemFrom') else None
        if t is None or (partner is not None and rows[partner] is None):
            if k in ('getSel', 'copy'):
                if impl_ok:
                    rows.append(None)
            elif t is not None and impl_ok and k not in ('indices',):
                # the outcome depends on a table that is no longer comparable
                rows[c] = None
            return None
        if k == 'append':
            d = rows[partner]
            if any(nm not in d.names for nm in t.names):
                raise RefErr('key')
            if not t.names:
                rows[c] = RowTable([], t.n + d.n)
            else:
                dt = np.dtype([(nm, np.result_type(t.arr.dtype[nm], d.arr.dtype[nm])) for nm in t.names])
                rows[c] = RowTable.of(t.names, np.concatenate([t.arr.astype(dt), d.rows_for(t.names, dt)]))   # rows ++ rows'
        elif k in ('appendField', 'setItem', 'appendFieldFrom', 'setItemFrom'):
            nm = UNIVERSE[op['n']]
            if k.endswith('From'):
                m = UNIVERSE[op['m']]
                if m not in rows[partner].names:
                    raise RefErr('key')
                new = np.array(rows[partner].arr[m], copy=True)
            else:
                new = mkarr(op['col'])
            if nm in t.names:
                if k.startswith('appendField'):
                    raise RefErr('key|value' if len(new) != t.n else 'key')
                if len(new) != t.n:
                    raise RefErr('value')
                rows[c] = RowTable([(m_, new if m_ == nm else a) for m_, a in t.pairs()], t.n)
            else:
                if len(new) != t.n:
                    raise RefErr('value')
                rows[c] = RowTable(t.pairs() + [(nm, new)], t.n)
        elif k == 'removeField':
            nm = UNIVERSE[op['n']]
            if nm not in t.names:
                raise RefErr('key')
            rows[c] = RowTable([p for p in t.pairs() if p[0] != nm], t.n)
        elif k == 'rename':
            before, d = list(t.names), dict(t.pairs())
            for o, n in op['convs']:
                o, n = UNIVERSE[o], UNIVERSE[n]
                if o in before and o in d:
                    a = d.pop(o)
                    if n in d:
                        raise RefErr('key')
                    d[n] = a
                elif op['must']:
                    raise RefErr('key')
            rows[c] = RowTable(list(d.items()), t.n)       # same rows under renamed fields
        elif k == 'tidyUp':
            keep = [UNIVERSE[n] for n in op['keep']]
            rows[c] = RowTable([p for p in t.pairs() if p[0] in keep], t.n)
        elif k == 'getSel':
            if not t.names:            # documented edge (outside "1..5 fields"): no column, nothing is indexed, length 0
                rows.append(RowTable([], 0))
                return ('ok', ['cont', len(rows) - 1])
            try:
                sub = t.arr[mksel(op['sel'])]                                  # rows gathered by the indices
            except (IndexError, ValueError) as e:
                raise RefErr(errkind(e, k))
            rows.append(RowTable.of(t.names, sub) if t.names else RowTable([], 0))
            return ('ok', ['cont', len(rows) - 1])
        elif k == 'setSel':
            d = rows[partner]
            if any(nm not in d.names for nm in t.names):
                raise RefErr('key')
            if blocked:
                raise RefErr('idxval')
            new = t.arr.copy()
            try:
                if t.names:
                    new[mksel(op['sel'])] = d.rows_for(t.names, t.arr.dtype)   # exactly the selected rows are replaced
                # (no column: nothing is indexed, documented edge)
            except (IndexError, ValueError) as e:
                raise RefErr(errkind(e, k))
            rows[c] = RowTable.of(t.names, new)
        elif k == 'sortBy':
            nm = UNIVERSE[op['n']]
            if nm not in t.names:
                raise RefErr('key')
            perm = impl_out if impl_out is not None else ivals(np.argsort(t.arr[nm], kind='stable'))
            if sorted(perm) != list(range(t.n)):
                raise RefErr('perm')
            new = t.arr[np.array(perm, dtype=np.int64)]                       # a permutation of the rows …
            if t.n and np.any(new[nm][1:] < new[nm][:-1]):                    # … sorted by the key
                raise RefErr('perm')
            rows[c] = RowTable.of(t.names, new)
            return ('ok', ['idxs', list(perm)])
        elif k == 'copy':
            keep = op.get('keep')
            pairs = [p for p in t.pairs() if keep is None or p[0] in [UNIVERSE[n] for n in keep]]
            rows.append(RowTable(pairs, t.n if pairs else 0))                    # the same rows
            return ('ok', ['cont', len(rows) - 1])
        elif k == 'setDtype':
            nm = UNIVERSE[op['n']]
            if nm not in t.names:
                raise RefErr('key')
            rows[c] = RowTable([(m, a.astype(NP_DT[op['dt']]) if m == nm else a) for m, a in t.pairs()], t.n)
        elif k == 'convert':
            conv = {NP_DT[o]: NP_DT[n] for o, n in op['convs']}
            exc = [UNIVERSE[n] for n in op['exc']]
            rows[c] = RowTable([(m, a.astype(conv[a.dtype]) if (m not in exc and a.dtype in conv) else a) for m, a in t.pairs()], t.n)
        elif k == 'indices':
            return ('ok', ['idxs', list(range(t.n))])
        else:
            raise AssertionError(k)
        return ('ok', ['unit'])
    except RefErr as e:
        return ('err', e.kind)


def written_shared(tabs, c, only=None):
    """containers that hold an array object written by a set_selection on container c (or, `only`: by a caller's write
    into that one column) and bound in more than one slot"""
    out = set()
    for nm in tabs[c].names:
        if only is not None and nm != only:
            continue
        cell = tabs[c].cells[nm]
        holders = [ci for ci, t in enumerate(tabs) for m in t.names if t.cells[m] is cell]
        if len(holders) > 1:
            out.update(holders)
    return out


# ---------------------------------------------------------------------------------------------
# model side: request lines and parsing of the dumps of Driver/C16.lean

def il(xs):
    xs = list(xs)
    return ','.join(str(int(x)) for x in xs) if xs else '-'


def col_tok(col):
    return '%s %s' % (col['dt'], il(col['v']))


def op_line(op, perm=None):
    k = op['op']
    if k == 'new':
        cs = ['%d:%s:%s' % (n, col['dt'], il(col['v'])) for n, col in op['cols']]
        return 'new ' + ('+'.join(cs) if cs else '-')
    if k == 'newShared':
        return 'newShared %d %d' % (op['d'], op['m'])
    if k == 'freeze':
        return 'freeze %d %d' % (op['d'], op['m'])
    if k == 'poke':
        return 'poke %d %d %d %d' % (op['d'], op['m'], op['k'], op['v'])
    c = op['c']
    if k in ('appendFieldFrom', 'setItemFrom'):
        return '%s %d %d %d %d' % (k, c, op['n'], op['d'], op['m'])
    if k == 'append':
        return 'append %d %d' % (c, op['d'])
    if k in ('appendField', 'setItem'):
        return '%s %d %d %s' % (k, c, op['n'], col_tok(op['col']))
    if k == 'removeField':
        return 'removeField %d %d' % (c, op['n'])
    if k == 'rename':
        cv = ','.join('%d:%d' % (o, n) for o, n in op['convs']) or '-'
        return 'rename %d %s %d' % (c, cv, 1 if op['must'] else 0)
    if k == 'tidyUp':
        return 'tidyUp %d %s' % (c, il(op['keep']))
    if k == 'getSel':
        return 'getSel %d %s %s' % (c, op['sel']['k'], il(op['sel']['v']))
    if k == 'setSel':
        return 'setSel %d %s %s %d' % (c, op['sel']['k'], il(op['sel']['v']), op['d'])
    if k == 'sortBy':
        return 'sortBy %d %d %s' % (c, op['n'], il(perm or []))
    if k == 'copy':
        return 'copy %d %s' % (c, 'N' if op.get('keep') is None else il(op['keep']))
    if k == 'setDtype':
        return 'setDtype %d %d %s' % (c, op['n'], op['dt'])
    if k == 'convert':
        cv = ','.join('%s:%s' % (o, n) for o, n in op['convs']) or '-'
        return 'convert %d %s %s' % (c, cv, il(op['exc']))
    if k == 'indices':
        return 'indices %d' % c
    raise AssertionError(k)


def _plist(s):
    return [] if s == '-' else [int(x) for x in s.split(',')]


def parse_res(tok, op):
    st, rest = tok.split('/', 1)
    if st == 'err':
        return ('err', canon_err(rest, op))
    if rest == 'unit':
        return ('ok', ['unit'])
    kind, v = rest.split(':', 1)
    if kind == 'cont':
        return ('ok', ['cont', int(v)])
    return ('ok', ['idxs', _plist(v)])


def parse_H(dump, UNIVERSE=UNIVERSE):
    """heap-layer dump -> list of predicted public snapshots + list of (container, name, loc)"""
    snaps, locs = [], []
    if dump == '-':
        return snaps, locs
    for ci, c in enumerate(dump.split(';')):
        L, I, N, F = c.split('~')
        n = int(L[1:])
        idx = list(range(n)) if I[1:] == 'n' else _plist(I[2:])
        names = [UNIVERSE[i] for i in _plist(N[1:])]
        fields = {}
        order = []
        if F[1:] != '-':
            for f in F[1:].split('+'):
                head, rest = f.split(':', 1)
                nm, loc = head.split('@')
                nm = UNIVERSE[int(nm)]
                if rest == '!':
                    fields[nm] = ('!', None)
                else:
                    dt, vs = rest.split(':')
                    fields[nm] = (dt, _plist(vs))
                order.append(nm)
                locs.append((ci, nm, int(loc)))
        cols = [[nm, fields[nm][0], fields[nm][1]] if nm in fields else [nm, '!', None] for nm in names]
        snaps.append({'len': n, 'names': names, 'cols': cols, 'idx': idx,
                      'has': [u for u in UNIVERSE if u in fields], 'keys': order,
                      'idx_cached': I[1:] != 'n'})
    return snaps, locs


def parse_T(dump, UNIVERSE=UNIVERSE):
    snaps = []
    if dump == '-':
        return snaps
    for c in dump.split(';'):
        L, C = c.split('~')
        n = int(L[1:])
        cols = []
        if C[1:] != '-':
            for f in C[1:].split('+'):
                nm, dt, vs = f.split(':')
                cols.append([UNIVERSE[int(nm)], dt, _plist(vs)])
        snaps.append({'len': n, 'names': [c_[0] for c_ in cols], 'cols': cols, 'idx': list(range(n)),
                      'has': [u for u in UNIVERSE if u in [c_[0] for c_ in cols]]})
    return snaps


PUBLIC_KEYS = ('len', 'names', 'cols', 'idx', 'has')


def snap_diff(got, want):
    """first difference between two public snapshots (None if equal).  The field list is compared as a set and the
    columns by name: the property asks for an up-to-date field list, not for a particular order (the order is checked
    separately: operations that do not rename keep the relative order of the surviving fields)."""
    for k in PUBLIC_KEYS:
        g, w = got[k], want[k]
        if k in ('names', 'has'):
            g, w = sorted(g), sorted(w)
        elif k == 'cols':
            g, w = sorted(g, key=lambda c: c[0]), sorted(w, key=lambda c: c[0])
        if g != w:
            return k
    return None


def err_match(impl_kind, want_kind):
    """want_kind may name several acceptable exception classes ('key|value')"""
    return impl_kind in want_kind.split('|')


def diff_mode(key, got):
    """failure mode (for signatures) from the first differing key"""
    if key == 'cols':
        if any(c[1] == '!' for c in got['cols']):
            return 'stale-field-list'
        if any(c[2] is not None and len(c[2]) != got['len'] for c in got['cols']):
            return 'column-lengths'
        return 'wrong-values'
    return {'len': 'wrong-len', 'names': 'wrong-fields', 'idx': 'stale-indices', 'has': 'wrong-fields'}[key]
