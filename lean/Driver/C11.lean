import SkyllhModel.Proto
import SkyllhModel.Model.Minimizer
import SkyllhModel.Model.MinimizerR7
open Proto Minimizer

/-  requests (floats as IEEE bit patterns; records `a:b:c` separated by `;`, `-` = no record):
      nr    <nsTol> <slopeThr> <fp0> <maxSteps> <nsMin> <nsMax> <ns0> <table q:f:fp:fpp;…>
              -> ok <x> <f> <flag> <niter> <lastStep> <atBoundary> <queries> | err <msg>
      scan  <nsTol> <slopeThr> <fp0> <maxSteps> <nsMin> <nsMax> <ns0> <p2lo> <p2hi> <scanStep>
            <table p2:q:f:fp:fpp;…>
              -> ok <p2> <x> <f> <flag> <niterTotal> <nSteps> <lastStep> <p2 values> <queries of all scan points>
      linspace <lo> <hi> <n>          -> values
      count <lo> <hi> <step>          -> int((hi-lo)/step)+1
      wrap  <maxReps> <bounds lo:hi;…> <attempts conv:rep:f:x1,x2;…> <reeval table f:x1,x2;…>
              -> ok <reps> <reevaluated> <f> <x> | err <msg>
      cobyla <bounds lo:hi;…> <x>    -> values of the COBYLA inequality constraints at x (ERR = IndexError)
      status <lbfgs|scipy|iminuit|crs|nr> <int|0/1> <task hex|->   -> <has_converged> <is_repeatable>
      wrapst / wrape / neg / bmode: see the comments at the ops
      max   (same arguments as wrap; the attempts carry the negated function, the table the llh values)
              -> ok <reps> <logLambdaMax> <x> | err <msg>
    The objective of the model is a lookup in the table of the calls the real objective answered
    (keyed by the bit pattern of the query point, else the entry within 1e-9 relative); a query the implementation never made is
    answered with NaNs and shows up in the list of queries.
-/

def nanF : Float := 0.0 / 0.0

def sameBits (a b : Float) : Bool := a.toBits == b.toBits || (a.isNaN && b.isNaN)

def records (s : String) : List (List String) :=
  if s == "-" then [] else (s.splitOn ";").map (fun r => r.splitOn ":")

/-- relative closeness used only when there is no bit-identical entry (lets a behaviour-preserving
rewrite of the implementation, whose query points differ in the last bits, still be followed) -/
def near (a b : Float) : Bool := Float.abs (a - b) ≤ 1e-9 * (1.0 + Float.abs a)

def objOf (tab : List (Float × Eval Float)) (q : Float) : Eval Float :=
  match tab.find? (fun e => sameBits e.1 q) with
  | some e => e.2
  | none => match tab.find? (fun e => near e.1 q) with
    | some e => e.2
    | none => ⟨nanF, nanF, nanF⟩

def parseTab1 (s : String) : List (Float × Eval Float) :=
  (records s).filterMap fun r => match r with
    | [q, f, fp, fpp] => some (pF q, ⟨pF f, pF fp, pF fpp⟩)
    | _ => none

def parseTab2 (s : String) : List (Float × Float × Eval Float) :=
  (records s).filterMap fun r => match r with
    | [p, q, f, fp, fpp] => some (pF p, pF q, ⟨pF f, pF fp, pF fpp⟩)
    | _ => none

def cfgOf (tol thr fp0 ms lo hi : String) : NRCfg Float :=
  { nsTol := pF tol, slopeThr := pF thr, fp0 := pF fp0, maxSteps := pI ms, nsMin := pF lo, nsMax := pF hi }

def fI (i : Int) : String := toString i

def parseAttempts (s : String) : List (Attempt Float) :=
  (records s).filterMap fun r => match r with
    | [c, rp, f, xs] => some { x := pList pF xs, f := pF f, converged := pB c, repeatable := pB rp }
    | _ => none

def parseBounds (s : String) : List (Float × Float) :=
  (records s).filterMap fun r => match r with
    | [lo, hi] => some (pF lo, pF hi)
    | _ => none

def parseReeval (s : String) : List (List Float × Float) :=
  (records s).filterMap fun r => match r with
    | [f, xs] => some (pList pF xs, pF f)
    | _ => none

def sameList : List Float → List Float → Bool
  | [], [] => true
  | a :: as, b :: bs => sameBits a b && sameList as bs
  | _, _ => false

def funcOf (tab : List (List Float × Float)) (x : List Float) : Float :=
  match tab.find? (fun e => sameList e.1 x) with
  | some e => e.2
  | none => nanF

def attemptOf (as : List (Attempt Float)) (k : Nat) : Attempt Float :=
  -- a call beyond the script (the implementation was never called that often) is answered by a
  -- marker outcome; it shows up as a wrong result
  as.getD k { x := [], f := nanF, converged := true, repeatable := false }

def hexVal (c : Char) : Nat :=
  if c.isDigit then c.toNat - '0'.toNat else if 'a' ≤ c && c ≤ 'f' then c.toNat - 'a'.toNat + 10 else 0

/-- text passed as lower-case hex of its bytes (ASCII), `-` = empty -/
def unhex (s : String) : String :=
  if s == "-" then "" else
  let rec go : List Char → List Char
    | a :: b :: rest => Char.ofNat (hexVal a * 16 + hexVal b) :: go rest
    | _ => []
  String.ofList (go s.toList)

def statusOf (kind v task : String) : ImplStatus :=
  match kind with
  | "lbfgs" => .lbfgs (pI v) (unhex task)
  | "scipy" => .scipy (pB v)
  | "iminuit" => .iminuit (pB v)
  | "crs" => .crs (pI v)
  | _ => .nr (pI v)

def answer (line : String) : String :=
  match tokens line with
  | ["nr", tol, thr, fp0, ms, lo, hi, ns0, tab] =>
      match nr (cfgOf tol thr fp0 ms lo hi) (objOf (parseTab1 tab)) (pF ns0) with
      | .error e => s!"err {e}"
      | .ok o => s!"ok {fF o.x} {fF o.f} {fI o.flag} {o.niter} {fF o.lastStep} {fB o.atBoundary} {fListD fF o.queries}"
  | ["scan", tol, thr, fp0, ms, lo, hi, ns0, p2lo, p2hi, sstep, tab] =>
      let c := cfgOf tol thr fp0 ms lo hi
      let t2 := parseTab2 tab
      match scanCountFloatE (pF p2lo) (pF p2hi) (pF sstep) with
      | .error e => s!"err {e}"
      | .ok n =>
      let p2s := linspace (pF p2lo) (pF p2hi) n
      let nrAt := fun (p2 : Float) =>
        nr c (objOf ((t2.filter (fun e => sameBits e.1 p2 || near e.1 p2)).map (fun e => e.2))) (pF ns0)
      -- all queries, in scan order, as p2,q pairs
      let qs := p2s.flatMap (fun p2 => match nrAt p2 with
        | .ok o => o.queries.flatMap (fun q => [p2, q])
        | .error _ => [])
      match scan nrAt p2s with
      | .error e => s!"err {e}"
      | .ok s => s!"ok {fF s.p2} {fF s.best.x} {fF s.best.f} {fI s.best.flag} {s.niterTotal} {s.nSteps} {fF s.best.lastStep} {fListD fF p2s} {fListD fF qs}"
  | ["linspace", lo, hi, n] => fListD fF (linspace (pF lo) (pF hi) (pN n))
  | ["count", lo, hi, st] => toString (scanCountFloat (pF lo) (pF hi) (pF st))
  | ["wrap", mr, bs, as, tab] =>
      match wrapper (attemptOf (parseAttempts as)) (pN mr) (parseBounds bs) (funcOf (parseReeval tab)) with
      | .error e => s!"err {e}"
      | .ok o => s!"ok {o.reps} {fB o.reevaluated} {fF o.f} {fListD fF o.x}"
  | ["max", mr, bs, as, tab] =>
      match maximize (attemptOf (parseAttempts as)) (pN mr) (parseBounds bs) (funcOf (parseReeval tab)) with
      | .error e => s!"err {e}"
      | .ok (v, x, reps) => s!"ok {reps} {fF v} {fListD fF x}"
  | ["cobyla", bs, xs] =>
      let x := pList pF xs
      fListD (fun (v : Option Float) => match v with | some y => fF y | none => "ERR")
        ((cobylaConstraints (parseBounds bs)).map (fun g => g x))
  | ["functor", tab, pts] =>
      -- table x1,x2:f:g1,g2;…  points x1,x2;…   -> per point f:g1,g2 ; then the number of function calls
      let t : List (List Float × Float × List Float) := (records tab).filterMap fun r => match r with
        | [xs, f, gs] => some (pList pF xs, pF f, pList pF gs)
        | _ => none
      let func := fun (x : List Float) => match t.find? (fun e => sameList e.1 x) with
        | some e => (e.2.1, e.2.2)
        | none => (nanF, [])
      let pts := (records pts).filterMap fun r => match r with
        | [xs] => some (pList pF xs)
        | _ => none
      let r := functorRun func FunctorState.empty pts
      String.intercalate ";" (r.1.map (fun o => s!"{fF o.1}:{fListD fF o.2}")) ++ s!" {r.2.ncalls}"
  | ["status", kind, v, task] =>
      let st := statusOf kind v task
      s!"{fB (implConverged st)} {fB (implRepeatable st)}"
  | ["wrapst", mr, bs, as, tab] =>
      -- attempts kind:value:taskhex:f:x1,x2;…  (has_converged / is_repeatable come from the model's tables)
      let att : List (Attempt Float) := (records as).filterMap fun r => match r with
        | [kind, v, task, f, xs] => some (attemptOfStatus (pList pF xs) (pF f) (statusOf kind v task))
        | _ => none
      match wrapper (attemptOf att) (pN mr) (parseBounds bs) (funcOf (parseReeval tab)) with
      | .error e => s!"err {e}"
      | .ok o => s!"ok {o.reps} {fB o.reevaluated} {fF o.f} {fListD fF o.x}"
  | ["wrape", mr, bs, as, tab] =>
      -- attempts E | conv:rep:f:x ; table f:x | E:x   (E = the call raises)
      let att : List (Except String (Attempt Float)) := (records as).map fun r => match r with
        | [c, rp, f, xs] => .ok { x := pList pF xs, f := pF f, converged := pB c, repeatable := pB rp }
        | _ => .error "raised"
      let tab : List (List Float × Except String Float) := (records tab).filterMap fun r => match r with
        | ["E", xs] => some (pList pF xs, .error "raised")
        | [f, xs] => some (pList pF xs, .ok (pF f))
        | _ => none
      let func := fun (x : List Float) => match tab.find? (fun e => sameList e.1 x) with
        | some e => e.2
        | none => .ok nanF
      match wrapperE (fun k => att.getD k (.error "beyond-script")) (pN mr) (parseBounds bs) func with
      | .error e => s!"err {e}"
      | .ok o => s!"ok {o.reps} {fB o.reevaluated} {fF o.f} {fListD fF o.x}"
  | ["neg", f, gs] =>
      let r := negFunc (fun (_ : List Float) => (pF f, pList pF gs)) []
      s!"{fF r.1} {fListD fF r.2}"
  | ["negnr", f, gs, idx, g2] =>
      match negNrFunc (fun (_ : List Float) => (pF f, pList pF gs)) (fun _ => pF g2) (pN idx) [] with
      | some e => s!"{fF e.f} {fF e.fp} {fF e.fpp}"
      | none => "ERR"
  | ["bmode", m] => match scipyBoundsMode (unhex m) with
      | .native => "native"
      | .constraints => "constraints"
      | .dropped => "dropped"
  | ["reeval", mr, bs, as, tab] =>
      -- round 7: objective of any return shape; table shape:n:f:x1,x2;…  (shape S scalar | T tuple | L list, n elements)
      let t : List (List Float × ObjRet Float) := (records tab).filterMap fun r => match r with
        | [sh, n, f, xs] =>
            let vs : List Float := if pN n == 0 then [] else pF f :: List.replicate (pN n - 1) 0.0
            some (pList pF xs, if sh == "T" then ObjRet.tuple vs else if sh == "L" then ObjRet.list vs else ObjRet.scalar (pF f))
        | _ => none
      let obj := fun (x : List Float) => match t.find? (fun e => sameList e.1 x) with
        | some e => e.2
        | none => ObjRet.scalar nanF
      match wrapperRet (attemptOf (parseAttempts as)) (pN mr) (parseBounds bs) obj with
      | .error e => s!"err {e}"
      | .ok o => s!"ok {o.reps} {fB o.reevaluated} {fF o.f} {fListD fF o.x}"
  | ["crsg", lo, hi, code] => fB (crsSuccessG (pI lo) (pI hi) (pI code))
  | ["bmodeg", nat, con, m] =>
      let names := fun (s : String) => if s == "-" then [] else (s.splitOn ",").map unhex
      match scipyBoundsModeG (names nat) (names con) (unhex m) with
      | .native => "native"
      | .constraints => "constraints"
      | .dropped => "dropped"
  | ["lbfgsg", conv, rep, needles, wf, task] =>
      let ns := if needles == "-" then [] else (needles.splitOn ",").map unhex
      s!"{fB (lbfgsConvergedG (pI conv) (pI wf))} {fB (lbfgsRepeatableG (pI rep) ns (pI wf) (unhex task))}"
  | ["dispatch", kind] =>
      let k : ImplKind := match kind with
        | "nr1d" => .nr1d | "nrScan" => .nrScan | "lbfgs" => .lbfgs | "scipy" => .scipy
        | "iminuit" => .iminuit | "crs" => .crs | _ => .other
      let p := maximizePath k
      s!"{if p == .newton then "newton" else "generic"} {objectiveArity p}"
  | ["nrconvg", thr, flag] => fB (nrConvergedG (pI thr) (pI flag))
  | ["layout", xs, idx, ns] => match nrLayout (pList pF xs) (pN idx) (pF ns) with
      | some x => fListD fF x
      | none => "ERR"
  | _ => "bad-op"

def main : IO Unit := do loop (← IO.getStdin) answer
