import SkyllhModel.Proto
import SkyllhModel.Model.Store
import SkyllhModel.Model.StoreIO
open Proto Store StoreIO

/-  stateful line protocol (state = heap-layer store + value-layer tables, run in lock step):
      reset | push | pop | freeze d m   (column m of container d becomes a read-only array)
      append c d | appendField c n dt vals | setItem c n dt vals | removeField c n
      rename c o:n,o:n must | tidyUp c keep | getSel c i|m list | setSel c i|m list d
      sortBy c n perm | copy c N|keep | setDtype c n dt | convert c dt:dt,.. exc | indices c
      new name:dt:vals+name:dt:vals
      appendFieldFrom c n d m | setItemFrom c n d m | newShared d m     (the array handed in IS column m of container d)
      poke d m k v     (the caller writes conts[d][m][k] = v into the array __getitem__ handed out)
    answer:  H=<res> T=<res> | <heap containers ;-separated> | <tables ;-separated>
-/

/-- heap-layer store + read-only locations, plain tables -/
abbrev DState1 := (St × List Loc) × List Table
/-- current state + a stack of saved states (`push` / `pop`: depth-first enumeration of histories) -/
abbrev DState := DState1 × List DState1

def answer1 (st : DState1) (line : String) : DState1 × String :=
  match tokens line with
  | ["freeze", d, m] =>
    -- the array that is column m of container d becomes read-only
    match (st.1.1.conts[pN d]?).bind (fun c => c.fields.lookup (pN m)) with
    | some l => (((st.1.1, l :: st.1.2), st.2), "ok")
    | none => (st, "no-such-column")
  | toks =>
    let xop : Option XOp := match toks with
      | ["appendFieldFrom", c, n, d, m] => some (.appendFieldFrom (pN c) (pN n) (pN d) (pN m))
      | ["setItemFrom", c, n, d, m] => some (.setItemFrom (pN c) (pN n) (pN d) (pN m))
      | ["newShared", d, m] => some (.newShared (pN d) (pN m))
      | ["poke", d, m, k, v] => some (.poke (pN d) (pN m) (pN k) (pI v))
      | _ => (pOp toks).map XOp.base
    match xop with
    | none => (st, "bad-op")
    | some op =>
      let (s', rh) := stepXR st.1.2 st.1.1 op
      -- the plain tables know nothing about read-only arrays: a blocked set_selection leaves them alone
      let (t', rt) := if roBlocked st.1.2 st.1.1 op then (st.2, rh) else stepTX st.2 op
      (((s', st.1.2), t'), s!"H={fRes rh} T={fRes rt} | {semi (s'.conts.map (fCont s'.heap))} | {semi (t'.map fTable)}")

def answer (st : DState) (line : String) : DState × String :=
  match tokens line with
  | ["reset"] => ((((⟨[], []⟩, []), []), []), "ok")
  | ["push"] => ((st.1, st.1 :: st.2), "ok")
  | ["pop"] => match st.2 with
    | top :: rest => ((top, rest), "ok")
    | [] => (st, "bad-pop")
  | _ => let (s', out) := answer1 st.1 line; ((s', st.2), out)

def main : IO Unit := do loopS (← IO.getStdin) ((((⟨[], []⟩, []), []), []) : DState) answer
