import SkyllhModel.Proto
import SkyllhModel.Model.Store
import SkyllhModel.Model.StoreIO
import SkyllhModel.Model.StoreR7
open Proto Store StoreIO

/-  stateful line protocol (state = heap-layer store + value-layer tables, run in lock step):
      reset | push | pop | freeze d m   (column m of container d becomes a read-only array)
      append c d | appendField c n dt vals | setItem c n dt vals | removeField c n
      rename c o:n,o:n must | tidyUp c keep | getSel c i|m list | setSel c i|m list d
      sortBy c n perm | copy c N|keep | setDtype c n dt | convert c dt:dt,.. exc | indices c
      new name:dt:vals+name:dt:vals
      appendFieldFrom c n d m | setItemFrom c n d m | newShared d m     (the array handed in IS column m of container d)
      poke d m k v     (the caller writes conts[d][m][k] = v into the array __getitem__ handed out)
      ctor d keep|N convs exc copy   (round 7: the constructor with its options on the live container d; same answer format)
      record c         (round 7, read-only: as_numpy_record_array of container c; answer `ok <table>` | `err/<class>`)
    answer:  H=<res> T=<res> | <heap containers ;-separated> | <tables ;-separated>
    stateless (round 7, the constructor with its options, Model/StoreR7.lean):
      ctorD cols keep|N convs exc copy        (input = dict of arrays; length = that of the first value)
      ctorT len cols keep|N convs exc copy    (input = structured ndarray / DataFieldRecordArray of that length)
    answer:  ok L<len> name:k|f:dt:vals+… | err/<class>     (k = the caller's array object is stored, f = fresh array)
-/

def fCtor : Except Err Upd → String
  | .error e => "err/" ++ fErr e
  | .ok u =>
    let fs := u.cols.map fun e => s!"{e.1}:" ++ (match e.2.1 with | .fresh => "f" | .kept _ => "k" | .written _ => "w") ++ ":" ++ fCol e.2.2
    s!"ok L{u.len} " ++ (if fs.isEmpty then "-" else String.intercalate "+" fs)

def pCtorOpts (keep convs exc cp : String) : CtorOpts :=
  ⟨if keep == "N" then none else some (pList pN keep), pPairs pDT pDT convs, pList pN exc, pB cp⟩

/-- heap-layer store + read-only locations, plain tables -/
abbrev DState1 := (St × List Loc) × List Table
/-- current state + a stack of saved states (`push` / `pop`: depth-first enumeration of histories) -/
abbrev DState := DState1 × List DState1

def answer1 (st : DState1) (line : String) : DState1 × String :=
  match tokens line with
  | ["record", c] =>
    -- as_numpy_record_array of container c (read-only)
    (st, match asRecord st.1.1 (pN c) with
         | .ok t => "ok " ++ fTable t
         | .error e => "err/" ++ fErr e)
  | ["ctor", d, keep, convs, exc, cp] =>
    -- DataFieldRecordArray(conts[d], keep_fields, dtype_conversions, except_fields, copy): heap layer and plain tables
    let o := pCtorOpts keep convs exc cp
    let (s', rh) := stepCtorH st.1.1 (pN d) o
    let (t', rt) := stepCtorT st.2 (pN d) o
    (((s', st.1.2), t'), s!"H={fRes rh} T={fRes rt} | {semi (s'.conts.map (fCont s'.heap))} | {semi (t'.map fTable)}")
  | ["freeze", d, m] =>
    -- the array that is column m of container d becomes read-only
    match (st.1.1.conts[pN d]?).bind (fun c => c.fields.lookup (pN m)) with
    | some l => (((st.1.1, l :: st.1.2), st.2), "ok")
    | none => (st, "no-such-column")
  | toks =>
    let xop : Option XOp := match toks with
      | ["appendFieldFrom", c, n, d, m] => some (.appendFieldFrom (pN c) (pN n) (pN d) (pN m))
      | ["setItemFrom", c, n, d, m] => some (.setItemFrom (pN c) (pN n) (pN d) (pN m))
      | ["newShared", d, m] => some (.newShared (pN d) (pN m))
      | ["poke", d, m, k, v] => some (.poke (pN d) (pN m) (pN k) (pI v))
      | _ => (pOp toks).map XOp.base
    match xop with
    | none => (st, "bad-op")
    | some op =>
      let (s', rh) := stepXR st.1.2 st.1.1 op
      -- the plain tables know nothing about read-only arrays: a blocked set_selection leaves them alone
      let (t', rt) := if roBlocked st.1.2 st.1.1 op then (st.2, rh) else stepTX st.2 op
      (((s', st.1.2), t'), s!"H={fRes rh} T={fRes rt} | {semi (s'.conts.map (fCont s'.heap))} | {semi (t'.map fTable)}")

def answer (st : DState) (line : String) : DState × String :=
  match tokens line with
  | ["reset"] => ((((⟨[], []⟩, []), []), []), "ok")
  | ["push"] => ((st.1, st.1 :: st.2), "ok")
  | ["pop"] => match st.2 with
    | top :: rest => ((top, rest), "ok")
    | [] => (st, "bad-pop")
  | ["ctorD", cols, keep, convs, exc, cp] => (st, fCtor (ctorDict (pCtorOpts keep convs exc cp) (pCols cols)))
  | ["ctorT", len, cols, keep, convs, exc, cp] =>
    (st, fCtor (ctorTable (pCtorOpts keep convs exc cp) ⟨pN len, pCols cols⟩))
  | _ => let (s', out) := answer1 st.1 line; ((s', st.2), out)

def main : IO Unit := do loopS (← IO.getStdin) ((((⟨[], []⟩, []), []), []) : DState) answer
