import SkyllhModel.Proto
import SkyllhModel.Model.Store
import SkyllhModel.Model.StoreIO
import SkyllhModel.Model.PseudoData
import SkyllhModel.Model.PseudoDataR7
import SkyllhModel.Generated.C07
open Proto Store StoreIO Pseudo

/-  stateful line protocol (state = heap-layer store with roles + plain tables in lock step):
      reset | init <expcols> <mccols> | newMethod | uniformRA <lo> <hi> <deviates> | nbkg <n_bkg> <mean_pre_selected> <mean>   (floats as bit patterns)
      genFixed <scr> <sets> | genMC <keep> <presel> <draw> <scr> <sets> <expFields> |
      genComp <keep> <scr> <sets> <rates> <presel> <draw> <expFields> | genSigMC <ev> <post> <empty> <fill> | genSig <cols> | merge b s
      initTrial e <pre> <sel> <idx> <stat> | unblind <pre> <sel> <idx> <stat> | unblindAdopt … | evaluate <fields>
    <sel> = N | i:<ints> | m:<bools>;  <idx> = N | <name>:<perm>;  cols = name:dt:vals+…
    round 7 (GOp7, exception semantics):  scramble <h> <copy 0|1> <scr|N> <sets> | fixedBkg <scr> <sets>  (copy flag = Gen.C07.fixedBkgCopy,
      read from the source) | inject <events|N> <cols|N> | trialBkgSig <b|N> <s|N> <pre> <sel> <idx> <stat> <fields> |
      defaultRa <deviates>  (uniformRA on the default range read from the source);  their answers carry ret=<1 returned | 0 raised>
    answer:  h=<id|N> cache=<id|N> events=<id|N> errs=<failing container ops> | <heap containers> | <tables>
-/

def pOSel (s : String) : Option Sel :=
  if s == "N" then none else
  match s.splitOn ":" with
  | [k, l] => some (pSel k l)
  | _ => none

def pOIdx (s : String) : Option (Nat × List Nat) :=
  if s == "N" then none else
  match s.splitOn ":" with
  | [n, p] => some (pN n, pList pN p)
  | _ => none

def pCfg (pre sel idx stat : String) : TrialCfg := ⟨pCols pre, pOSel sel, pOIdx idx, pCols stat⟩

def pScr (s : String) : Option Scr :=
  match s with
  | "uniform" => some .uniformRA | "uniform_range" => some .uniformRA
  | "i3time" => some .i3time | "seasonal" => some .seasonal | "time" => some .time
  | _ => none

/-- the scrambled arrays are sent with their field names; the model takes the names from `documented` and the request is
rejected when they differ (so the table of documented fields in the model is tied to what the harness observed) -/
def scrOK (scr : Option Scr) (cols : List (Name × Col)) : Bool :=
  (scrSets scr (cols.map (·.2))).map (·.1) == cols.map (·.1)

def pGOp (toks : List String) : Option GOp :=
  match toks with
  | ["genFixed", scr, sets] =>
      match pScr scr with
      | some m => if scrOK (some m) (pCols sets) then some (.genFixed m ((pCols sets).map (·.2))) else none
      | none => none
  | ["genMC", keep, presel, draw, scr, sets, ef] =>
      if scrOK (pScr scr) (pCols sets) then
        some (.genMC (pList pN keep) (pOSel presel) (pList pI draw) (pScr scr) ((pCols sets).map (·.2)) (pList pN ef))
      else none
  | ["genComp", keep, scr, sets, rates, presel, draw, ef] =>
      if scrOK (pScr scr) (pCols sets) then
        some (.genComposite (pList pN keep) (pScr scr) ((pCols sets).map (·.2)) (pCols rates) (pOSel presel) (pList pI draw) (pList pN ef))
      else none
  | ["genSigMC", ev, post, empty, fill] => some (.genSigMC (pList pI ev) (pCols post) (pCols empty) (pList pI fill))
  | ["genSig", cols] => some (.genSig (pCols cols))
  | ["merge", b, s] => some (.merge (pN b) (pN s))
  | ["initTrial", e, pre, sel, idx, stat] => some (.initTrial (pN e) (pCfg pre sel idx stat))
  | ["unblind", pre, sel, idx, stat] => some (.unblind (pCfg pre sel idx stat))
  | ["unblindAdopt", pre, sel, idx, stat] => some (.unblindAdopt (pCfg pre sel idx stat))
  | ["evaluate", fields] => some (.evaluate (pCols fields))
  | ["resetCache"] => some .resetCache
  | _ => none

def pOH (s : String) : Option Nat := if s == "N" then none else some (pN s)

def pGOp7 (toks : List String) : Option GOp7 :=
  match toks with
  | ["scramble", h, copy, scr, sets] =>
      if scrOK (pScr scr) (pCols sets) then some (.scramble (pN h) (copy == "1") (pScr scr) ((pCols sets).map (·.2))) else none
  | ["fixedBkg", scr, sets] =>
      match pScr scr with
      | some m => if scrOK (some m) (pCols sets) then some (.fixedBkg Gen.C07.fixedBkgCopy m ((pCols sets).map (·.2))) else none
      | none => none
  | ["inject", ev, cols] => some (.inject (pOH ev) (if cols == "N" then none else some (pCols cols)))
  | ["trialBkgSig", b, s, pre, sel, idx, stat, fields] => some (.trialBkgSig (pOH b) (pOH s) (pCfg pre sel idx stat) (pCols fields))
  | _ => none

/-- the operations `runHE` executes (up to and including the one that raises) -/
def prefixE : St → List Op → List Op
  | _, [] => []
  | s, op :: r =>
    match stepH s op with
    | (s', .ok _) => op :: prefixE s' r
    | (_, .error _) => [op]

def fON : Option Nat → String
  | none => "N"
  | some n => toString n

abbrev DState1 := G × List Table
/-- model state + the handles given out so far (`@k` in a request = the k-th handle, `@new` = the container
created last by a generator line) -/
abbrev DState := DState1 × (List Nat × Nat)

def empty1 : DState1 := (⟨⟨[], []⟩, ⟨0, 1, none, none⟩⟩, [])
def empty : DState := (empty1, ([], 0))

/-- number of container operations of the list that raise, on the heap layer -/
def countErrs : St → List Op → Nat
  | _, [] => 0
  | s, op :: r =>
    let (s', res) := stepH s op
    (match res with | .error _ => 1 | .ok _ => 0) + countErrs s' r

/-- one round-7 call on both layers: new state, handle, returned?, number of failing container operations -/
def step7 (st1 : DState1) (op : GOp7) : DState1 × Option Nat × Bool × Nat :=
  let g := st1.1
  let p := compile7 g.st.conts.length g.roles op
  let (g', h, ret) := gstep7 g op
  let executed := if p.raises then [] else prefixE g.st p.first ++ (if ret then p.rest else [])
  let errs := if ret then countErrs (runHE g.st p.first).1 p.rest else 1
  ((g', runT st1.2 executed), h, ret, errs)

def dump (g : G) (ts : List Table) : String :=
  s!"{semi (g.st.conts.map (fCont g.st.heap))} | {semi (ts.map fTable)}"

def resolve (hs : List Nat × Nat) (t : String) : String :=
  if t == "@new" then toString hs.2
  else if t.startsWith "@" then toString (hs.1.getD (t.drop 1).toString.toNat! 999999)
  else t

def answer (st : DState) (line : String) : DState × String :=
  match tokens line with
  | ["reset"] => (empty, "ok")
  | ["init", e, m] =>
    let ops := [Op.new (pCols e), Op.new (pCols m)]
    let g : G := ⟨runH ⟨[], []⟩ ops, ⟨0, 1, none, none⟩⟩
    let ts := runT [] ops
    (((g, ts), ([], 0)), s!"h=N cache=N events=N errs={countErrs ⟨[], []⟩ ops} | {dump g ts}")
  | ["uniformRA", lo, hi, us] =>
    (st, fListD fF ((pList pF us).map (fun u => (uniformRA (pF lo) (pF hi) u : Float))))
  | ["nbkg", n, ms, m] => (st, toString (nBkgSelected (pN n) (pF ms) (pF m)))
  | ["defaultRa", us] =>
    let rg : Float × Float := raRangeOf (Gen.C07.defaultRaLo, Gen.C07.defaultRaHi) none
    (st, fListD fF ((pList pF us).map (fun u => (uniformRA rg.1 rg.2 u : Float))))
  | ["newMethod"] => ((({ st.1.1 with roles := { st.1.1.roles with cache := none } }, st.1.2), st.2), "ok")
  | cmd :: rest =>
    if cmd == "scramble" || cmd == "fixedBkg" || cmd == "inject" || cmd == "trialBkgSig" then
      match pGOp7 (cmd :: rest.map (resolve st.2)) with
      | none => (st, "bad-op")
      | some op =>
        let n0 := st.1.1.st.conts.length
        let (st1', h, ret, errs) := step7 st.1 op
        let hs' : List Nat × Nat :=
          match h with
          | some id => if cmd != "trialBkgSig" && id ≥ n0 then (st.2.1 ++ [id], id) else st.2
          | none => st.2
        ((st1', hs'), s!"h={fON h} cache={fON st1'.1.roles.cache} events={fON st1'.1.roles.events} errs={errs} ret={if ret then 1 else 0} | {dump st1'.1 st1'.2}")
    else if cmd == "doTrial" then
      match rest with
      | [scr, sets, sig, pre, sel, idx, stat, fields] =>
        match pGOp7 ["fixedBkg", scr, sets] with
        | none => (st, "bad-op")
        | some bkg =>
          let sigc := if sig == "N" then none else some (pCols sig)
          let cfg := pCfg pre sel idx stat
          -- staged replay on both layers (heap store + plain tables) …
          let (a1, h1, ok1, e1) := step7 st.1 bkg
          let (a2, h2, ok2, e2) := if ok1 then step7 a1 (.inject h1 sigc) else (a1, none, false, 0)
          let (a3, _, ok3, e3) := if ok2 then step7 a2 (.trialBkgSig h2 none cfg (pCols fields)) else (a2, none, false, 0)
          -- … and the model's own composition `Pseudo.doTrial`
          let d := doTrial st.1.1 bkg sigc cfg (pCols fields)
          let same := reprStr d.1 == reprStr a3.1 && d.2 == ok3
          ((a3, st.2), s!"h=N cache={fON a3.1.roles.cache} events={fON a3.1.roles.events} errs={e1 + e2 + e3} ret={if ok3 then 1 else 0} same={if same then 1 else 0} | {dump a3.1 a3.2}")
      | _ => (st, "bad-op")
    else
    let tmp := cmd == "genSigTmp"
    let toks := (if tmp then "genSig" else cmd) :: rest.map (resolve st.2)
    match pGOp toks with
    | none => (st, "bad-op")
    | some op =>
      let g := st.1.1
      let (ops, _, _) := compile g.st.conts.length g.roles op
      let errs := countErrs g.st ops
      let (g', h) := gstep g op
      let ts' := runT st.1.2 ops
      let hs' : List Nat × Nat :=
        match h with
        | none => st.2
        | some id =>
          if cmd == "genFixed" || cmd == "genMC" || cmd == "genComp" || cmd == "genSig" || cmd == "genSigMC" then (st.2.1 ++ [id], id)
          else if tmp then (st.2.1, id) else st.2
      (((g', ts'), hs'), s!"h={fON h} cache={fON g'.roles.cache} events={fON g'.roles.events} errs={errs} | {dump g' ts'}")
  | [] => (st, "bad-op")

def main : IO Unit := do loopS (← IO.getStdin) empty answer
